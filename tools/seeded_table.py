#!/usr/bin/env python3
"""Writes /verif/seeded/README.md: one row per confirmed seeded change and what the checks said about it."""
import json, glob, os
rows=[]
for d in sorted(glob.glob('/verif/seeded/*/')):
    try: m=json.load(open(d+'meta.json'))
    except Exception: continue
    c=m.get('confirmed',{}); o=m.get('our_check',{})
    extra=m.get('other_checks',{})
    rows.append((os.path.basename(d.rstrip('/')), m.get('property','?'), (m.get('what','') or '')[:160].replace('\n',' ').replace('|','/'),
                 (m.get('needs','') or '')[:140].replace('\n',' ').replace('|','/'),
                 f"{c.get('demo_with_patch')}/{c.get('demo_without_patch')}/{c.get('existing_workspace_suite_with_patch')}",
                 str(o.get('exit')), ' '.join(o.get('signatures',[]))[:160], json.dumps(extra) if extra else ''))
out=["# Seeded changes (confirmed) and what the checks report\n",
     "Columns: demo with patch / demo without patch / existing workspace suite with patch; exit code of `./check <ID> --tier quick` on /repo with the patch applied (1 = caught) and the signatures it reported.\n",
     "| id | property | change | needs | demo w/ · w/o · suite | check exit | signatures | other checks |","|---|---|---|---|---|---|---|---|"]
for r in rows: out.append('| '+' | '.join(r)+' |')
open('/verif/seeded/README.md','w').write('\n'.join(out)+'\n')
print(len(rows),'rows')
