#!/usr/bin/env bash
# mkwork.sh <name>: scratch copy of the harness under /tmp/vw/<name> for developing one property in isolation.
set -e
n=$1
mkdir -p /tmp/vw/$n
rsync -a --exclude 'target*' /verif/harness/ /tmp/vw/$n/harness/
cp /verif/known_findings.txt /tmp/vw/$n/known_findings.txt
mkdir -p /tmp/vw/$n/regressions
cp -r /verif/regressions/. /tmp/vw/$n/regressions/
cat > /tmp/vw/$n/run.sh <<EOS
#!/usr/bin/env bash
# usage: ./run.sh <ID> [--tier quick|thorough] [--replay file]
cd /tmp/vw/$n/harness && CARGO_TARGET_DIR=/tmp/vw/$n/target cargo build --release --offline --bin vcheck 2>&1 | grep -E "^(error|warning: unused)" -A 14 | head -120
VERIF_ROOT=/tmp/vw/$n VERIF_THREADS=\${VERIF_THREADS:-6} /tmp/vw/$n/target/release/vcheck "\$@"
EOS
chmod +x /tmp/vw/$n/run.sh
echo /tmp/vw/$n
