#!/usr/bin/env bash
# regress_seeded.sh <worker-index> <worker-count> [ID ...]
# Re-runs the property's own quick check against every confirmed seeded change in an isolated sweep copy
# (SWEEP_DIR, see sweep.sh) and reports the changes whose outcome differs from the recorded one.
set -u
k=$1; n=$2; shift 2
S=${SWEEP_DIR:-/tmp/sweep}
i=0
for d in /verif/seeded/C??-?/; do
  name=$(basename $d); id=${name%%-*}
  if [ $# -gt 0 ]; then keep=0; for p in "$@"; do [ "$id" = "$p" ] && keep=1; done; [ $keep = 1 ] || continue; fi
  i=$((i+1)); [ $((i % n)) -eq $k ] || continue
  want=$(python3 -c "import json;print(json.load(open('$d/meta.json')).get('our_check',{}).get('exit'))")
  out=$(SWEEP_DIR=$S /verif/tools/sweep.sh run $d/patch.diff regress-$name $id 2>&1 | tail -1)
  got=$(echo "$out" | grep -oE "$id=[0-9]+" | cut -d= -f2); [ -z "$got" ] && got=0
  echo "$out" | grep -q "error" && got="ERR($out)"
  flag=""; [ "$got" != "$want" ] && flag="  <<<<< DIFFERS"
  echo "$name recorded=$want now=$got$flag"
done
