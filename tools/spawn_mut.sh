#!/usr/bin/env bash
# spawn_mut.sh <ID> : create scratch worktree /tmp/mut/<ID> of /repo HEAD and print the property record
set -e
id=$1
git -C /repo worktree add --detach /tmp/mut/$id HEAD >/dev/null 2>&1
python3 - "$id" <<'PY'
import json,sys
for l in open('/verif/properties.jsonl'):
    p=json.loads(l)
    if p['id']==sys.argv[1]:
        print(json.dumps({k:p[k] for k in ('id','title','statement','quantifier','anchors')}, indent=1))
PY
