#!/usr/bin/env bash
# verify_seeded.sh <seed-src-dir> <PROP> <LETTER>
# Confirms a seeded change in a scratch worktree (/tmp/mutv, outside /repo and /verif): patch applies and compiles, the demo fails
# with it and passes without it, the existing workspace tests pass with it. Then runs ./check <PROP> against /repo with the
# patch applied (and reverts it). Results go to /verif/seeded/<PROP>-<LETTER>/ (patch.diff, demo.rs, demo.txt, meta.json).
set -u
src=$1; prop=$2; letter=$3
out=/verif/seeded/$prop-$letter
wt=/tmp/mutv
export CARGO_NET_OFFLINE=true CARGO_TARGET_DIR=$wt/target
log=$(mktemp)
if [ ! -d $wt ]; then git -C /repo worktree add --detach $wt HEAD >/dev/null 2>&1; fi
git -C $wt checkout -q --detach $(git -C /repo rev-parse HEAD) 2>/dev/null; git -C $wt checkout -q -- . ; git -C $wt clean -fdq -e target
demo_path=$(grep -m1 -oE "identity_[a-z_]+/tests/[A-Za-z0-9_]+\.rs" $src/demo.txt)
crate=${demo_path%%/*}; tname=$(basename $demo_path .rs)
feat=$(grep -m1 -oE -- "--features [A-Za-z0-9_,-]+" $src/demo.txt || true)
res() { echo "$1" | tee -a $log; }
cd $wt
if ! git apply $src/patch.diff 2>>$log; then res "APPLY=fail"; applied=0; else res "APPLY=ok"; applied=1; fi
demo_with=na; suite=na; demo_without=na
if [ $applied = 1 ]; then
  mkdir -p $(dirname $demo_path); cp $src/demo.rs $demo_path
  if cargo test --offline -p $crate --test $tname $feat >>$log 2>&1; then demo_with=pass; else demo_with=fail; fi
  rm -f $demo_path
  if cargo test --offline --workspace --no-fail-fast >>$log 2>&1; then suite=pass; else suite=fail; fi
  git checkout -q -- .
  mkdir -p $(dirname $demo_path); cp $src/demo.rs $demo_path
  if cargo test --offline -p $crate --test $tname $feat >>$log 2>&1; then demo_without=pass; else demo_without=fail; fi
  rm -f $demo_path; git clean -fdq -e target
fi
res "DEMO_WITH_PATCH=$demo_with EXISTING_SUITE_WITH_PATCH=$suite DEMO_WITHOUT_PATCH=$demo_without"
# our check against /repo with the patch
check_rc=na; check_sigs=""
if [ "${SKIP_CHECK:-0}" != 1 ] && [ $applied = 1 ] && git -C /repo apply --check $src/patch.diff 2>/dev/null; then
  git -C /repo apply $src/patch.diff
  cout=$(cd /verif && env -u CARGO_TARGET_DIR ./check $prop --tier quick 2>&1); check_rc=$?
  check_sigs=$(echo "$cout" | grep -oE "signature=[^ ]+" | sort -u | tr '\n' ' ')
  echo "--- ./check $prop output (patched /repo) ---" >> $log; echo "$cout" | cut -c1-400 | tail -25 >> $log
  git -C /repo checkout -q -- .
  (cd /verif && env -u CARGO_TARGET_DIR ./check $prop --tier quick >/dev/null 2>&1)   # restore evidence from the unchanged tree
fi
res "CHECK_EXIT=$check_rc SIGS=$check_sigs"
mkdir -p $out
cp $src/patch.diff $src/demo.rs $src/demo.txt $out/
python3 - "$src/meta.json" "$out/meta.json" "$prop" "$demo_with" "$suite" "$demo_without" "$check_rc" "$check_sigs" "$(git -C /repo rev-parse --short HEAD)" <<'PY'
import json,sys
src,dst,prop,dw,suite,dwo,rc,sigs,head=sys.argv[1:10]
try: m=json.load(open(src))
except Exception: m={}
m["property"]=prop
m["confirmed"]={"repo_head":head,"demo_with_patch":dw,"existing_workspace_suite_with_patch":suite,"demo_without_patch":dwo,
  "commands":["git apply patch.diff (scratch worktree /tmp/mutv)","cargo test --offline -p <crate> --test <demo>","cargo test --offline --workspace --no-fail-fast (demo removed)","git checkout -- . ; cargo test --offline -p <crate> --test <demo>"]}
m["our_check"]={"cmd":f"git -C /repo apply patch.diff; ./check {prop} --tier quick; git -C /repo checkout -- .","exit":rc,"signatures":sigs.split()}
json.dump(m,open(dst,"w"),indent=1)
PY
cp $log $out/verify.log 2>/dev/null; tail -c 3000 $out/verify.log > $out/verify.tail; mv $out/verify.tail $out/verify.log
echo "== $prop-$letter: demo_with=$demo_with suite=$suite demo_without=$demo_without check_exit=$check_rc $check_sigs"
