#!/usr/bin/env bash
# sweep.sh setup | sweep.sh run <patch.diff> <label> [ID ...]
# Isolated copy of harness + repo under /tmp/sweep (outside /repo and /verif) for running all checks against a patch
# without touching /repo. Results: one JSON line per run appended to /tmp/sweep/results.jsonl
set -u
S=${SWEEP_DIR:-/tmp/sweep}
export CARGO_NET_OFFLINE=true CARGO_TARGET_DIR=$S/target
ALL="C01 C02 C03 C04 C05 C06 C07 C08 C09 C10 C11 C12 C13 C14 C15 C16 C17 C18 C19 C20"
setup() {
  mkdir -p $S/root
  if [ ! -d $S/repo ]; then git -C /repo worktree add --detach $S/repo HEAD >/dev/null 2>&1; fi
  git -C $S/repo checkout -q --detach $(git -C /repo rev-parse HEAD); git -C $S/repo checkout -q -- .; git -C $S/repo clean -fdq
  rsync -a --delete --exclude 'target*' --exclude 'fuzz/target' --exclude 'fuzz/corpus' --exclude 'fuzz/artifacts' /verif/harness/ $S/harness/
  sed -i "s#/repo/#$S/repo/#g" $S/harness/Cargo.toml
  rsync -a --delete /verif/regressions/ $S/root/regressions/; cp /verif/known_findings.txt $S/root/
  (cd $S/harness && cargo build --release --offline --bin vcheck 2>&1 | grep -E "^error" -A8 | head -20)
}
run() {
  patch=$1; label=$2; shift 2; ids=${*:-$ALL}
  git -C $S/repo reset -q --hard; git -C $S/repo clean -fdq
  if ! git -C $S/repo apply "$patch" 2>/dev/null && ! git -C $S/repo apply --3way "$patch" >/dev/null 2>&1; then echo "{\"label\":\"$label\",\"error\":\"patch does not apply\"}" | tee -a $S/results.jsonl; return; fi
  if ! (cd $S/harness && cargo build --release --offline --bin vcheck >$S/build.log 2>&1); then
    echo "{\"label\":\"$label\",\"error\":\"build failed\"}" | tee -a $S/results.jsonl; git -C $S/repo reset -q --hard; return; fi
  res=""
  for id in $ids; do
    out=$(VERIF_ROOT=$S/root $S/target/release/vcheck $id --tier quick 2>&1); rc=$?
    sig=$(echo "$out" | grep -oE "signature=[^ ]+" | sed 's/signature=//' | sort -u | tr '\n' ',' | sed 's/,$//')
    inc=$(echo "$out" | grep -E "^INCONCLUSIVE" | head -1 | cut -c1-200 | tr '"' "'")
    res="$res\"$id\":{\"exit\":$rc,\"sigs\":\"$sig\",\"inconclusive\":\"$inc\"},"
  done
  git -C $S/repo reset -q --hard; git -C $S/repo clean -fdq
  echo "{\"label\":\"$label\",\"results\":{${res%,}}}" >> $S/results.jsonl
  echo "== $label: $(echo "{${res%,}}" | python3 -c "import json,sys; d=json.load(sys.stdin); print(' '.join(f'{k}={v[\"exit\"]}' for k,v in d.items() if v['exit']!=0) or 'all 0')")"
}
case "$1" in setup) setup;; run) shift; run "$@";; esac
