#!/usr/bin/env bash
# run_thorough_all.sh [ID ...]: runs the thorough tier of every (or the named) check against /repo, keeps a copy of each
# evidence file under evidence_thorough/ and restores the quick-tier evidence afterwards (evidence/<ID>.json is what the
# registered quick command writes; the thorough copies are kept for reference only).
set -u
cd /verif
ids=${*:-C01 C02 C03 C04 C05 C06 C07 C08 C09 C10 C11 C12 C13 C14 C15 C16 C17 C18 C19 C20}
mkdir -p evidence_thorough
: > evidence_thorough/run.log
for id in $ids; do
  t0=$(date +%s)
  out=$(./check $id --tier thorough 2>&1); rc=$?
  t1=$(date +%s)
  cp evidence/$id.json evidence_thorough/$id.json 2>/dev/null
  echo "$id exit=$rc $((t1-t0))s $(echo "$out" | grep -E '^(OK|VIOLATION|INCONCLUSIVE)' | tr '\n' ' ' | cut -c1-400)" | tee -a evidence_thorough/run.log
done
for id in $ids; do ./check $id --tier quick >/dev/null 2>&1; done
