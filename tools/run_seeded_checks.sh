#!/usr/bin/env bash
# run_seeded_checks.sh <seeded-dir-name e.g. C02-A> [extra IDs...]
# Applies /verif/seeded/<name>/patch.diff to /repo, runs ./check for the primary property (and extra IDs), reverts,
# restores the evidence of the touched checks from the unchanged tree, and records the outcome in meta.json.
set -u
name=$1; shift
dir=/verif/seeded/$name
prop=${name%%-*}
unset CARGO_TARGET_DIR
if ! git -C /repo diff --quiet; then echo "/repo has uncommitted changes; refusing"; exit 2; fi
if ! git -C /repo apply --check $dir/patch.diff 2>/dev/null; then echo "== $name: patch does not apply at /repo HEAD"; exit 2; fi
git -C /repo apply $dir/patch.diff
declare -A rcs; declare -A sigs
for id in $prop "$@"; do
  out=$(cd /verif && ./check $id --tier quick 2>&1); rcs[$id]=$?
  sigs[$id]=$(echo "$out" | grep -oE "signature=[^ ]+" | sed 's/signature=//' | sort -u | tr '\n' ' ')
  echo "--- ./check $id (patched /repo) exit=${rcs[$id]}" >> $dir/verify.log; echo "$out" | cut -c1-500 | tail -12 >> $dir/verify.log
done
git -C /repo checkout -q -- .
for id in $prop "$@"; do (cd /verif && ./check $id --tier quick >/dev/null 2>&1); done
args=""; for id in $prop "$@"; do args="$args $id=${rcs[$id]}=${sigs[$id]// /,}"; done
python3 - "$dir/meta.json" "$prop" "$(git -C /repo rev-parse --short HEAD)" $args <<'PY'
import json,sys
path,prop,head=sys.argv[1:4]
m=json.load(open(path))
other={}
for a in sys.argv[4:]:
    i,rc,sg=a.split('=',2)
    rec={"exit":rc,"signatures":[s for s in sg.split(',') if s]}
    if i==prop:
        m["our_check"]={"cmd":f"git -C /repo apply patch.diff; ./check {prop} --tier quick; git -C /repo checkout -- .","repo_head":head,**rec}
    else: other[i]=rec
if other: m["other_checks"]=other
json.dump(m,open(path,"w"),indent=1)
PY
echo "== $name:$(for id in $prop "$@"; do echo -n " $id exit=${rcs[$id]} [${sigs[$id]}]"; done)"
