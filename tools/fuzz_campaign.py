#!/usr/bin/env python3
"""Thorough-tier libFuzzer campaigns for one property.

usage: fuzz_campaign.py <ID>
For every target registered for the property: build (cargo +nightly fuzz build), run one campaign from the
committed seed corpus and one from an empty corpus (-len_control=0), each in fork mode under a wall-clock bound.
The target runs the property's own `check` (semantic oracle inside the target); a violation writes a replay file
(/verif/replays/<ID>/fuzz-*.json) and aborts, which libFuzzer records as a crash artifact.
Exit 0: no violation; 1: violation (VIOLATION lines printed); 2: infrastructure problem. A time budget hit is never a violation.
Adds coverage.fuzz = [...] to /verif/evidence/<ID>.json.
"""
import json, os, re, shutil, subprocess, sys, glob, time

ROOT = "/verif"
HARNESS = f"{ROOT}/harness"
TARGETS = {
  "C01": [("jws_tokens", 60)],
  "C05": [("entry_points", 90)],
  "C10": [("did_strings", 45)],
  "C13": [("timestamp", 45)],
  "C14": [("state_metadata", 45)],
  "C17": [("iota_did", 45)],
}

def main():
  pid = sys.argv[1]
  targets = TARGETS.get(pid, [])
  if not targets:
    return 0
  seed = int(os.environ.get("VERIF_SEED", "0") or 0) % (2**31)
  if seed == 0:
    seed = 1  # libFuzzer: 0 means random
  forks = min(os.cpu_count() or 4, 16)
  env = dict(os.environ, CARGO_NET_OFFLINE="true")
  env.pop("CARGO_TARGET_DIR", None)  # cargo-fuzz keeps its own target directory (harness/fuzz/target)
  stats = []
  rc = 0
  for target, secs in targets:
    b = subprocess.run(["cargo", "+nightly", "fuzz", "build", target], cwd=HARNESS, env=env,
                       stdout=subprocess.PIPE, stderr=subprocess.STDOUT, text=True)
    if b.returncode != 0:
      print(b.stdout[-3000:])
      print(f"INCONCLUSIVE property={pid} reason=fuzz target {target} does not build")
      return 2
    for mode in ("seeded", "empty"):
      corpus = f"{HARNESS}/fuzz/corpus/{target}-{mode}"
      art = f"{HARNESS}/fuzz/artifacts/{target}-{mode}/"
      shutil.rmtree(corpus, ignore_errors=True)
      shutil.rmtree(art, ignore_errors=True)
      os.makedirs(corpus); os.makedirs(art)
      if mode == "seeded":
        for f in glob.glob(f"{HARNESS}/fuzz/seeds/{target}/*"):
          shutil.copy(f, corpus)
      t0 = time.time()
      cmd = ["cargo", "+nightly", "fuzz", "run", target, corpus, "--",
             f"-artifact_prefix={art}", f"-max_total_time={secs}", f"-seed={seed}", "-len_control=0",
             f"-fork={forks}", "-ignore_crashes=0", "-ignore_timeouts=1", "-ignore_ooms=1",
             "-timeout=20", "-rss_limit_mb=3000", "-max_len=4096"]
      p = subprocess.run(cmd, cwd=HARNESS, env=env, stdout=subprocess.PIPE, stderr=subprocess.STDOUT, text=True,
                         timeout=secs * 4 + 600)
      out = p.stdout
      last = None
      for m in re.finditer(r"#(\d+): cov: (\d+) ft: (\d+) corp: (\d+) exec/s:? (\d+)", out):
        last = m
      st = {"target": target, "corpus": mode, "seconds": round(time.time() - t0, 1), "forks": forks, "seed": seed}
      if last:
        st.update(execs=int(last.group(1)), cov=int(last.group(2)), features=int(last.group(3)), corpus_size=int(last.group(4)))
      viol = re.findall(r"FUZZ-VIOLATION property=(\S+) signature=(\S+) replay=(\S+)", out)
      crashes = [f for f in glob.glob(art + "*") if os.path.basename(f).startswith(("crash-", "oom-", "timeout-")) is True and os.path.basename(f).startswith("crash-")]
      st["violations"] = len(set(v[2] for v in viol))
      stats.append(st)
      for (_p, sig, replay) in sorted(set(viol)):
        print(f"DETAIL property={pid} sub=fuzz:{target} signature={sig}")
        print(f"VIOLATION property={pid} replay={replay}")
        rc = 1
      if crashes and not viol:
        # a crash that is not one of our oracle aborts: a real abort/stack overflow inside the library
        keep = f"{ROOT}/replays/{pid}"
        os.makedirs(keep, exist_ok=True)
        for c in crashes:
          dst = os.path.join(keep, "fuzz-raw-" + os.path.basename(c))
          shutil.copy(c, dst)
          print(f"DETAIL property={pid} sub=fuzz:{target} signature=process-abort raw libFuzzer artifact (re-run: cargo +nightly fuzz run {target} {dst})")
          print(f"VIOLATION property={pid} replay={dst}")
          rc = 1
      shutil.rmtree(corpus, ignore_errors=True)
  evp = f"{ROOT}/evidence/{pid}.json"
  try:
    ev = json.load(open(evp))
    ev["coverage"]["fuzz"] = stats
    ev["wall_s"] = round(ev.get("wall_s", 0) + sum(s["seconds"] for s in stats), 3)
    if rc == 1:
      ev["violations"] = ev.get("violations", 0) + sum(s["violations"] for s in stats)
    json.dump(ev, open(evp, "w"), indent=2)
  except Exception as e:
    print(f"INCONCLUSIVE property={pid} reason=cannot amend evidence: {e}")
    return 2
  for s in stats:
    print(f"FUZZ property={pid} {json.dumps(s)}")
  return rc

sys.exit(main())
