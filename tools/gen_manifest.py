#!/usr/bin/env python3
"""Regenerates /verif/MANIFEST.json from the table below (kept in one place so the manifest is always valid)."""
import json, os, sys

ROOT = os.path.dirname(os.path.dirname(os.path.abspath(__file__)))

# id -> (level category, technique, level text, level note, design ref)
CHECKS = {
  "C01": ("exploration",
          "proptest token grammar + bounded-exhaustive single-bit flips against an independent JWS splitter and reference signature verification",
          "Generated JWS offers in all three serializations are decoded by an independent byte/JSON splitter; a recording verifier checks the exact (alg, signing input, signature, key) handed over; every single-bit flip of 108 verifying tokens (Ed25519, ES256, ES256K) must be rejected; an exhaustive alg/key configuration table runs against the concrete verifiers.",
          "Trusts the harness splitter, iota-crypto/p256/k256 as reference verifiers and serde_json. Only the 'verified only if' direction is asserted. ECDSA high-S malleability is outside single-bit mutations.",
          "DESIGN.md §2 C01"),
  "C02": ("exploration",
          "exhaustive single/pair deviation table + proptest condition vectors; acceptance and error identification judged from the vector by a harness-side model",
          "A vector of ~25 independent choices (method, kid form, scope, signer, issuer, nonce, boundary dates, structure, subject-holder, status x StatusCheck, FailFast) is drawn; the harness computes 11 conditions (True/False/Open) from the vector alone with its own kid-resolution model and signs the token itself; Ok with any False condition, an error naming no failing condition, a missed unit under AllErrors, or a returned credential differing from the signed one is the violation.",
          "Open coordinates (statement silent: fragment-only kid, malformed status shapes) are not judged; all-true-but-rejected only feeds a vacuity guard; a 5% class uses default bounds with dates far from the clock.",
          "DESIGN.md §2 C02"),
  "C03": ("exploration",
          "exhaustive deviation table + proptest condition vectors against a harness-side model of method selection and claim conditions",
          "Presentation tokens signed by the harness over vectors of kid forms (full id, #frag, bare fragment, foreign-DID methods), method_id, scope, signer, nonce, iss forms, exp/nbf/iat boundaries and vp.id/vp.holder duplication; Ok with any False condition or a returned presentation/aud/dates/claims differing from the signed ones is the violation.",
          "Only the 'accepted only if' direction and value identity are asserted (the statement says only that an error is returned); ambiguous fragments and out-of-range dates are Open here (C07 owns the latter).",
          "DESIGN.md §2 C03"),
  "C07": ("exploration",
          "proptest credential/presentation generators with round trip through the public validators; exhaustive duplicated-member and date matrices",
          "Generated credentials/presentations over every optional member are serialised to claims (checked member by member as JSON), signed and read back through the validators (must equal the original); exhaustive matrices of each duplicated member absent/equal/different x registered claim present/absent and of exp/nbf/iat over range-end values get a clause-by-clause Reject/Either/Accept verdict.",
          "A one-element subject array may be refused; an out-of-range iat that is shadowed by a valid nbf is 'either'.",
          "DESIGN.md §2 C07"),
  "C04": ("exploration",
          "model-based stateful testing: bounded-exhaustive and random operation histories against a set-of-entries document model",
          "All operation histories to depth 2 (quick) / 3 (thorough) over 43 operations from 7 starting documents, plus random histories to length 25; after every step the id constraints are evaluated on the JSON output by harness code, the JSON round trip is checked, frame conditions are checked against the reported result, and 21 queries x 7 scopes are compared with the abstract model.",
          "Trusts the harness document model and serde_json; unchecked accessors are outside 'checked mutations'. Two known findings (path/query id variants) are tolerated by signature.",
          "DESIGN.md §2 C04"),
  "C05": ("exploration",
          "seed-mutation and structural JSON mutation sweep over ~50 entry points with accessor sweeps; libFuzzer target re-using the same entry functions (thorough)",
          "Every entry point that parses/decodes/validates external data is fed committed seeds, exhaustive short strings, byte-edit scripts, structural JSON mutations and cross-fed seeds; accepted values go through a full accessor/formatter/serialiser sweep; any panic (overflow checks on) is the violation, identified by panic site.",
          "Process aborts (stack exhaustion, OOM) cannot be caught in-process (exit 2 / libFuzzer artifact). Inputs are size-capped. One known finding (dependency did_url_parser panic) is tolerated by panic site.",
          "DESIGN.md §2 C05"),
  "C08": ("exploration",
          "proptest round trips of encoder output through the decoder plus an independent splitter; storage-backed signing vs verify_jws with mirrored and adversarial options",
          "Encoder cases over payload classes x header sets x b64 x detached x charset x 1..4 recipients are decoded by the library and by the harness splitter and verified with Ed25519; documents built with generate_method sign through create_jws/create_*_jwt and must verify only under the producing method, nonce and containing scopes.",
          "Header sets are drawn from the C11 accept region; key generation uses OS randomness (outcome key-independent).",
          "DESIGN.md §2 C08"),
  "C09": ("fault_enumeration",
          "exhaustive enumeration of the storage-fault decision tree by systematic re-execution, plus proptest histories with random fault plans",
          "Every reachable subset of failing storage calls (indexed by call occurrence, both stores) is enumerated for generate_method and purge_method over 108 + 154 document shapes and all length-2 (thorough 3) operation sequences, for CoreDocument and IotaDocument; document and inner stores are snapshotted before/after each operation.",
          "Faults are fail-stop (error without effect); state after an explicit UndoOperationFailed is not judged; only the in-memory stores are wrapped.",
          "DESIGN.md §2 C09"),
  "C11": ("exploration",
          "complete enumeration of the header decision table against an independent transcription of the rule list; decorated random rows",
          "All 8 857 header rows x 15 encoder/decoder entry points are enumerated and compared with accept/reject computed by a clause-by-clause transcription of the statement; decorated rows add harmless members and member order variations.",
          "Trusts the rule transcription (model/jose_policy.rs). Three 'either' classes are not judged (header-less recipients at the encoders, b64 absent vs true, valid neighbour of an invalid signature).",
          "DESIGN.md §2 C11"),
  "C13": ("exploration",
          "bounded-exhaustive grid + proptest generators against an integer calendar reference model; libFuzzer target (thorough)",
          "Exhaustive enumeration of both range ends x every UTC offset x fraction lengths, plus seeded proptest generation of RFC 3339 strings, unix seconds, duration arithmetic and ordering pairs, each compared with an independent days-from-civil integer model and round-trip identities.",
          "Trusts the harness's own calendar arithmetic (unit-tested anchors) and serde_json; a seconds field of 60 may be read either way.",
          "DESIGN.md §2 C13"),
  "C14": ("exploration",
          "proptest document generator with the harness's own JSON rewrite as oracle; exhaustive header-byte sweep and framing grid",
          "Generated IOTA documents (self/foreign ids in every position) are packed and unpacked for the same and for other DIDs and compared with the harness's own rendering; every header byte position x 256 values, length-prefix and truncation grids and trailing bytes are checked against a transcription of the framing rule; oversize bodies are measured exactly.",
          "Documents mentioning the reserved placeholder are not generated; the colliding-target class may be an error or the rewrite.",
          "DESIGN.md §2 C14"),
  "C15": ("exploration",
          "model-based stateful testing of the key stores; OS-thread race stress for the key-id store",
          "Operation histories (<= 40 ops, valid and invalid arguments) run against JwkMemStore/KeyIdMemstore and a reference model with independent RFC 7638 thumbprints and iota-crypto verification; 2..16 threads released by a barrier race to insert one digest.",
          "The Stronghold store is not built in this harness (not covered). The thread schedule is the OS's: the race part is statistical stress. generate uses OS randomness (verdicts key-independent).",
          "DESIGN.md §2 C15"),
  "C16": ("exploration",
          "exhaustive disclosure-subset and single/pair decision tables + proptest condition vectors against a harness-side SD-JWT model",
          "Every visible/disclosed/withheld assignment of 7 claims x 3 encoders, base + every single + every pair of 153 credential-side and 112 KB-JWT-side alternatives, and random condition vectors are validated; acceptance with any false coordinate, a returned credential that differs from the entitled view, or a panic is the violation.",
          "The harness computes disclosures/digests with its own SHA-256/base64url. The header typ compared is the dependency's constant (\" kb+jwt\"); the literal kb+jwt, duplicated disclosures and the zero-disclosure spec hash layout are unasserted. Only 'accepted only if' is asserted.",
          "DESIGN.md §2 C16"),
  "C18": ("exploration",
          "bounded-exhaustive grid + proptest JWK specs against an independent RFC 7638 / private-member model; setter histories; generated-key documents",
          "All (kty, parameter family, private-member subset, foreign members, key_ops, route) combinations plus random specs are checked for projection cleanliness, idempotence, is_public, thumbprint invariance and kty/params coherence; constructors and generate_method output are searched for private members and secret strings.",
          "Trusts model/jwk_ref.rs (unit-tested on RFC vectors). set_params_unchecked/params_mut are excluded as explicitly unchecked.",
          "DESIGN.md §2 C18"),
  "C19": ("exploration",
          "bounded-exhaustive operation sequences + random sequences against a duplicate-free list model; exhaustive small JSON documents",
          "All sequences of length <= 4 (thorough 5) over keys {0,1,2} for both element types, random sequences to length 60, constructor and wrapper histories and JSON documents with duplicates/empties/singletons are compared step by step with the model.",
          "replace is modelled from the Infra ordered-set definition the rustdoc cites. Singleton arrays offered to the wrappers may be accepted or rejected.",
          "DESIGN.md §2 C19"),
  "C20": ("exploration",
          "schedule enumeration: a hand-written executor releases gate futures in every permutation; proptest handler tables and DID lists",
          "Handler futures complete only when the harness opens their gate; for n <= 4 (thorough 5) distinct DIDs every completion order x pre-released prefix is enumerated and resolve_multiple must give the same map as single resolution; dispatch, unsupported methods, failures and did:jwk expansion are compared with a table model.",
          "Completion order is fully generated (no OS threads involved). 'Called at least once' rather than exactly once is demanded.",
          "DESIGN.md §2 C20"),
}

PENDING_REASON = "check not built yet in this round (planned, see DESIGN.md §2); not claimed until its machinery exists"

def main():
  props = [json.loads(l) for l in open(os.path.join(ROOT, "properties.jsonl"))]
  ids = [p["id"] for p in props]
  checks = []
  for pid in ids:
    if pid not in CHECKS:
      continue
    cat, tech, text, note, ref = CHECKS[pid]
    checks.append({
      "property_id": pid,
      "quick_cmd": f"./check {pid} --tier quick",
      "thorough_cmd": f"./check {pid} --tier thorough",
      "evidence_file": f"/verif/evidence/{pid}.json",
      "replay_cmd_template": f"./check {pid} --replay {{path}}",
      "engine": "vcheck",
      "level_claimed": {"category": cat, "text": text, "design_ref": ref},
      "level_note": note,
      "technique": tech,
    })
  manifest = {
    "version": 1,
    "setup_cmd": "./check --setup",
    "hooks": {
      "guard": "identity_rs_verif",
      "enable": "no hooks are needed: the harness links /repo's crates by path and uses only public API (RUSTFLAGS=--cfg identity_rs_verif is reserved and currently unused)",
      "baseline_off_cmd": "cd /repo && (cargo nextest run --workspace --no-fail-fast --tool-config-file pb:/w/lib/nextest.toml --profile pb --test-threads 8 --offline || cargo test --workspace --no-fail-fast --offline)",
      "source_commits": [],
      "add_only": True,
    },
    "engines": [{
      "name": "vcheck",
      "path": "/verif/harness",
      "serves_properties": [c["property_id"] for c in checks],
      "kind_free_text": "Rust binary: proptest TestRunner (fixed seeds from VERIF_SEED, shrinking, replay files) + bounded-exhaustive enumerators + fault/schedule enumeration, explicit reference-model oracles; cargo-fuzz targets re-use the same oracles in the thorough tier",
    }],
    "checks": checks,
    "not_applicable": [{"property_id": pid, "reason": PENDING_REASON} for pid in ids if pid not in CHECKS],
    "notes": "Driver: ./check <ID> [--tier quick|thorough] [--replay file]. Exit 0 held / 1 VIOLATION / 2 inconclusive. Known findings and fixed defects: /verif/known_findings.txt.",
  }
  json.dump(manifest, open(os.path.join(ROOT, "MANIFEST.json"), "w"), indent=1)
  print("wrote MANIFEST.json with", len(checks), "checks")

main()
