#!/usr/bin/env python3
"""Regenerates /verif/MANIFEST.json from the table below (kept in one place so the manifest is always valid)."""
import json, os, sys

ROOT = os.path.dirname(os.path.dirname(os.path.abspath(__file__)))

# id -> (level category, technique, level text, level note, design ref)
CHECKS = {
  "C13": ("exploration",
          "bounded-exhaustive grid + proptest generators against an integer calendar reference model",
          "Exhaustive enumeration of both range ends x every UTC offset x fraction lengths, plus seeded proptest generation of RFC 3339 strings, unix seconds, duration arithmetic and ordering pairs, each compared with an independent days-from-civil integer model and round-trip identities. Absence beyond the explored inputs is not established.",
          "Trusts the harness's own calendar arithmetic (unit-tested anchors) and serde_json; a seconds field of 60 may be read either way.",
          "DESIGN.md §2 C13"),
}

PENDING_REASON = "check not built yet in this round (planned, see DESIGN.md §2); not claimed until its machinery exists"

def main():
  props = [json.loads(l) for l in open(os.path.join(ROOT, "properties.jsonl"))]
  ids = [p["id"] for p in props]
  checks = []
  for pid in ids:
    if pid not in CHECKS:
      continue
    cat, tech, text, note, ref = CHECKS[pid]
    checks.append({
      "property_id": pid,
      "quick_cmd": f"./check {pid} --tier quick",
      "thorough_cmd": f"./check {pid} --tier thorough",
      "evidence_file": f"/verif/evidence/{pid}.json",
      "replay_cmd_template": f"./check {pid} --replay {{path}}",
      "engine": "vcheck",
      "level_claimed": {"category": cat, "text": text, "design_ref": ref},
      "level_note": note,
      "technique": tech,
    })
  manifest = {
    "version": 1,
    "setup_cmd": "./check --setup",
    "hooks": {
      "guard": "identity_rs_verif",
      "enable": "no hooks are needed: the harness links /repo's crates by path and uses only public API (RUSTFLAGS=--cfg identity_rs_verif is reserved and currently unused)",
      "baseline_off_cmd": "cd /repo && (cargo nextest run --workspace --no-fail-fast --tool-config-file pb:/w/lib/nextest.toml --profile pb --test-threads 8 --offline || cargo test --workspace --no-fail-fast --offline)",
      "source_commits": [],
      "add_only": True,
    },
    "engines": [{
      "name": "vcheck",
      "path": "/verif/harness",
      "serves_properties": [c["property_id"] for c in checks],
      "kind_free_text": "Rust binary: proptest TestRunner (fixed seeds from VERIF_SEED, shrinking, replay files) + bounded-exhaustive enumerators + fault/schedule enumeration, explicit reference-model oracles; cargo-fuzz targets re-use the same oracles in the thorough tier",
    }],
    "checks": checks,
    "not_applicable": [{"property_id": pid, "reason": PENDING_REASON} for pid in ids if pid not in CHECKS],
    "notes": "Driver: ./check <ID> [--tier quick|thorough] [--replay file]. Exit 0 held / 1 VIOLATION / 2 inconclusive. Known findings and fixed defects: /verif/known_findings.txt.",
  }
  json.dump(manifest, open(os.path.join(ROOT, "MANIFEST.json"), "w"), indent=1)
  print("wrote MANIFEST.json with", len(checks), "checks")

main()
