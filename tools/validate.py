#!/usr/bin/env python3
import json, jsonschema, glob, sys
m=json.load(open('/verif/MANIFEST.json'))
jsonschema.validate(m, json.load(open('/root/.vp/MANIFEST.schema.json')))
es=json.load(open('/root/.vp/EVIDENCE.schema.json'))
bad=0
for c in m['checks']:
    try:
        e=json.load(open(c['evidence_file'])); jsonschema.validate(e, es)
        assert e['level']==c['level_claimed']['category'], (e['level'], c['level_claimed']['category'])
        print(c['property_id'], 'ok', e['tier'], e['coverage']['evaluations'], e['coverage']['distinct_nontrivial'], e['wall_s'], 'viol', e.get('violations'))
    except Exception as ex:
        bad+=1; print(c['property_id'], 'BAD', str(ex)[:200])
print('not_applicable:', [x['property_id'] for x in m.get('not_applicable',[])])
sys.exit(1 if bad else 0)
