pub mod engine;
pub mod model;
pub mod props;
pub mod util;
pub mod fuzzglue;
pub mod gen;
