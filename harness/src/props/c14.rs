//! C14 — IOTA state-metadata packing round-trips and rewrites only self-references.
//!
//! A document is described by a plain `DocSpec` (a table of DID strings, entry 0 being the document's own
//! DID, plus methods / references / services / controllers that point into the table, plus literal
//! strings for everything that is *not* a rewritable position). The harness renders the specification to
//! JSON itself. "The document rewritten to DID t" is the same specification rendered with table entry 0
//! replaced by t — literal strings (alsoKnownAs, custom properties, service endpoints, metadata) keep
//! mentioning the old DID. That rendering is the oracle; the library's placeholder substitution is never
//! consulted to compute the expectation.

use crate::engine::*;
use crate::fixture;
use crate::model::civil::format_unix;
use crate::model::iota_did::is_normal_iota_did;
use crate::vensure;
use crate::vfail;
use identity_core::convert::FromJson;
use identity_core::convert::ToJson;
use identity_did::DID;
use identity_iota_core::IotaDID;
use identity_iota_core::IotaDocument;
use identity_iota_core::StateMetadataDocument;
use identity_iota_core::StateMetadataEncoding;
use proptest::prelude::*;
use serde::Deserialize;
use serde::Serialize;
use serde_json::json;
use serde_json::Map;
use serde_json::Value;
use std::collections::BTreeSet;

// ---------------------------------------------------------------------------------------------
// Case data
// ---------------------------------------------------------------------------------------------

/// Relationship / scope names; scope 0 is the general-purpose `verificationMethod` set.
const SCOPES: [&str; 6] = [
  "verificationMethod",
  "authentication",
  "assertionMethod",
  "keyAgreement",
  "capabilityDelegation",
  "capabilityInvocation",
];

/// The identifier reserved by the packing format; documents mentioning it are outside the property's domain.
const RESERVED: &str = "did:0:0";

#[derive(Debug, Clone, Serialize, Deserialize)]
pub struct MethodSpec {
  /// Index into `DocSpec::dids` of the DID part of the method id.
  pub did: u8,
  /// Path/query/fragment part of the id (always carries a non-empty fragment).
  pub url: String,
  /// Index into `DocSpec::dids` of the method controller.
  pub controller: u8,
  /// 0 = general `verificationMethod`, 1..=5 = embedded in that relationship.
  pub scope: u8,
  /// Key material flavour (see `render_method`).
  pub data: u8,
  /// Add a custom property to the method (these documents do not survive plain JSON, see `check_doc`).
  pub extra: bool,
}

#[derive(Debug, Clone, Serialize, Deserialize)]
pub struct RefSpec {
  /// 1..=5, the relationship holding the reference.
  pub rel: u8,
  pub did: u8,
  pub url: String,
}

#[derive(Debug, Clone, Serialize, Deserialize)]
pub struct ServiceSpec {
  pub did: u8,
  pub url: String,
  /// `"type"` member: a string or an array of strings.
  pub type_: Value,
  /// `"serviceEndpoint"` member: URL string, array of URLs, or map of arrays of URLs (literal, never rewritten).
  pub endpoint: Value,
  pub props: Vec<(String, Value)>,
}

#[derive(Debug, Clone, Default, Serialize, Deserialize)]
pub struct MetaSpec {
  pub created: Option<i64>,
  pub updated: Option<i64>,
  pub deactivated: Option<bool>,
  pub governor: Option<String>,
  pub state_controller: Option<String>,
  pub props: Vec<(String, Value)>,
}

#[derive(Debug, Clone, Serialize, Deserialize)]
pub struct DocSpec {
  /// `dids[0]` is the document's own DID; the rest are foreign DIDs (all distinct).
  pub dids: Vec<String>,
  /// Controllers as indices into `dids` (only IOTA-shaped entries, no repeats); empty = no `controller` member.
  pub controller: Vec<u8>,
  /// Render a single controller as a one-element array instead of a string.
  pub controller_array: bool,
  pub also_known_as: Vec<String>,
  pub methods: Vec<MethodSpec>,
  pub refs: Vec<RefSpec>,
  pub services: Vec<ServiceSpec>,
  pub props: Vec<(String, Value)>,
  pub meta: MetaSpec,
}

#[derive(Debug, Clone, Serialize, Deserialize)]
pub enum FrameMut {
  /// Overwrite header byte `pos` (0..7) with `val`.
  HeaderByte { pos: u8, val: u8 },
  /// Overwrite the length prefix with `len`.
  Len { len: u16 },
  /// Overwrite the length prefix with the true length plus `delta` (saturating in 0..=0xFFFF).
  LenDelta { delta: i32 },
  /// Keep only the first `keep` bytes.
  Truncate { keep: u32 },
  /// Append bytes after the framed document.
  Trailing { extra: Vec<u8> },
  /// Keep the valid 5-byte marker/version/encoding, replace prefix + body.
  Body { len: u16, body: Vec<u8> },
}

#[derive(Debug, Clone, Serialize, Deserialize)]
pub enum Case {
  /// Pack, unpack for the document's own DID and for `target`.
  Doc { spec: DocSpec, target: String },
  /// Pack, then mutate the byte string and offer it to `unpack`.
  Frame { spec: DocSpec, mutation: FrameMut },
  /// Arbitrary bytes offered to `unpack`.
  Bytes { data: Vec<u8> },
  /// A document whose packed JSON is exactly `total` bytes long (padding carried by field `where_`).
  Oversize { total: u32, where_: u8 },
}

// ---------------------------------------------------------------------------------------------
// Independent recognisers / renderer
// ---------------------------------------------------------------------------------------------

fn mentions_reserved(v: &Value) -> bool {
  fn text_mentions(s: &str) -> bool {
    // `did:0:0` as a complete DID (followed by end of text or a DID-URL delimiter), not as a prefix of `did:0:00`.
    let mut from = 0;
    while let Some(i) = s[from..].find(RESERVED) {
      let end = from + i + RESERVED.len();
      match s[end..].chars().next() {
        None | Some('#') | Some('/') | Some('?') | Some('"') | Some(' ') => return true,
        _ => from = end,
      }
    }
    false
  }
  match v {
    Value::String(s) => text_mentions(s),
    Value::Array(a) => a.iter().any(mentions_reserved),
    Value::Object(o) => o.iter().any(|(k, v)| text_mentions(k) || mentions_reserved(v)),
    _ => false,
  }
}

const METHOD_TYPES: [&str; 4] = [
  "Ed25519VerificationKey2018",
  "X25519KeyAgreementKey2019",
  "JsonWebKey2020",
  "EcdsaSecp256k1RecoveryMethod2020",
];

fn render_method(m: &MethodSpec, did_at: &dyn Fn(u8) -> String) -> Value {
  let mut o = Map::new();
  o.insert("id".into(), json!(format!("{}{}", did_at(m.did), m.url)));
  o.insert("controller".into(), json!(did_at(m.controller)));
  o.insert("type".into(), json!(METHOD_TYPES[(m.data % 4) as usize]));
  match m.data % 4 {
    0 => o.insert("publicKeyMultibase".into(), json!("z6MkiTBz1ymuepAQ4HEHYSF1H8quG5GLVVQR3djdX3mDooWp")),
    1 => o.insert("publicKeyBase58".into(), json!("H3C2AVvLMv6gmMNam3uVAjZpfkcJCwDwnZn6z3wXmqPV")),
    2 => o.insert(
      "publicKeyJwk".into(),
      json!({"kty": "OKP", "crv": "Ed25519", "x": "11qYAYKxCrfVS_7TyWQHOg7hcvPapiMlrwIaaPcHURo"}),
    ),
    _ => o.insert("blockchainAccountId".into(), json!("eip155:1:0xab16a96d359ec26a11e2c2b3d8f8b8942d5bfcdb")),
  };
  if m.extra {
    o.insert("extraProperty".into(), json!({"n": 1}));
  }
  Value::Object(o)
}

/// Render the specification as the JSON of an `IotaDocument`. `self_as` is the DID put into every
/// rewritable position that points at table entry 0; everything else is emitted literally.
fn render(spec: &DocSpec, self_as: &str, singleton_controller_array: bool, with_addresses: bool) -> Value {
  let did_at = |i: u8| -> String {
    if i == 0 {
      self_as.to_string()
    } else {
      spec.dids[i as usize].clone()
    }
  };
  let mut doc = Map::new();
  doc.insert("id".into(), json!(did_at(0)));
  match spec.controller.as_slice() {
    [] => {}
    [one] if !singleton_controller_array => {
      doc.insert("controller".into(), json!(did_at(*one)));
    }
    many => {
      doc.insert("controller".into(), Value::Array(many.iter().map(|i| json!(did_at(*i))).collect()));
    }
  }
  if !spec.also_known_as.is_empty() {
    doc.insert("alsoKnownAs".into(), json!(spec.also_known_as));
  }
  for (scope, name) in SCOPES.iter().enumerate() {
    // Embedded methods and references of one relationship in an order that depends on the relationship: methods
    // first, references first, or alternating (the order of a relationship's entries is part of the document).
    let embedded: Vec<Value> = spec
      .methods
      .iter()
      .filter(|m| m.scope as usize == scope)
      .map(|m| render_method(m, &did_at))
      .collect();
    let referred: Vec<Value> = spec
      .refs
      .iter()
      .filter(|r| r.rel as usize == scope)
      .map(|r| json!(format!("{}{}", did_at(r.did), r.url)))
      .collect();
    let entries: Vec<Value> = match scope % 3 {
      0 => embedded.into_iter().chain(referred).collect(),
      1 => referred.into_iter().chain(embedded).collect(),
      _ => {
        let (mut a, mut b) = (embedded.into_iter(), referred.into_iter());
        let mut out = Vec::new();
        loop {
          match (b.next(), a.next()) {
            (None, None) => break,
            (x, y) => out.extend(x.into_iter().chain(y)),
          }
        }
        out
      }
    };
    if !entries.is_empty() {
      doc.insert((*name).into(), Value::Array(entries));
    }
  }
  if !spec.services.is_empty() {
    let services: Vec<Value> = spec
      .services
      .iter()
      .map(|s| {
        let mut o = Map::new();
        o.insert("id".into(), json!(format!("{}{}", did_at(s.did), s.url)));
        o.insert("type".into(), s.type_.clone());
        o.insert("serviceEndpoint".into(), s.endpoint.clone());
        for (k, v) in &s.props {
          o.insert(k.clone(), v.clone());
        }
        Value::Object(o)
      })
      .collect();
    doc.insert("service".into(), Value::Array(services));
  }
  for (k, v) in &spec.props {
    doc.insert(k.clone(), v.clone());
  }
  let mut meta = Map::new();
  if let Some(t) = spec.meta.created {
    meta.insert("created".into(), json!(format_unix(t)));
  }
  if let Some(t) = spec.meta.updated {
    meta.insert("updated".into(), json!(format_unix(t)));
  }
  if let Some(b) = spec.meta.deactivated {
    meta.insert("deactivated".into(), json!(b));
  }
  if with_addresses {
    if let Some(a) = &spec.meta.governor {
      meta.insert("governorAddress".into(), json!(a));
    }
    if let Some(a) = &spec.meta.state_controller {
      meta.insert("stateControllerAddress".into(), json!(a));
    }
  }
  for (k, v) in &spec.meta.props {
    meta.insert(k.clone(), v.clone());
  }
  json!({"doc": Value::Object(doc), "meta": Value::Object(meta)})
}

/// Which part of two rendered documents differs first (for narrow signatures).
fn diff_section(a: &Value, b: &Value) -> &'static str {
  let (da, db) = (&a["doc"], &b["doc"]);
  if da["id"] != db["id"] {
    return "id";
  }
  if da["controller"] != db["controller"] {
    return "controller";
  }
  if da[SCOPES[0]] != db[SCOPES[0]] {
    return "verification-method";
  }
  if SCOPES[1..].iter().any(|s| da[*s] != db[*s]) {
    return "relationship";
  }
  if da["service"] != db["service"] {
    return "service";
  }
  if a["meta"] != b["meta"] {
    return "metadata";
  }
  if da != db {
    return "other-document-fields";
  }
  "representation"
}

// ---------------------------------------------------------------------------------------------
// Framing rule (transcribed from the statement; header layout `DID` | version | encoding | u16 LE length)
// ---------------------------------------------------------------------------------------------

const MARKER: &[u8; 3] = b"DID";
const VERSION: u8 = 1;
const ENCODING_JSON: u8 = 0;
const HEADER_LEN: usize = 7;

enum Verdict {
  /// The statement demands rejection; the string names the clause.
  MustReject(&'static str),
  /// Header fine and the prefixed length fits: only bytes `..end` may matter.
  PrefixFits(usize),
}

fn frame_verdict(m: &[u8]) -> Verdict {
  if m.len() < 3 || &m[0..3] != MARKER {
    return Verdict::MustReject("wrong-marker");
  }
  if m.len() < 4 || m[3] != VERSION {
    return Verdict::MustReject("wrong-version");
  }
  if m.len() < 5 || m[4] != ENCODING_JSON {
    return Verdict::MustReject("wrong-encoding");
  }
  if m.len() < HEADER_LEN {
    return Verdict::MustReject("length-exceeds-data");
  }
  let len = m[5] as usize | (m[6] as usize) << 8;
  if HEADER_LEN + len > m.len() {
    return Verdict::MustReject("length-exceeds-data");
  }
  Verdict::PrefixFits(HEADER_LEN + len)
}

fn unpack_caught(m: &[u8], obs: &mut Obs) -> Result<Result<StateMetadataDocument, String>, Viol> {
  match catch(|| StateMetadataDocument::unpack(m)) {
    Ok(r) => Ok(r.map_err(|e| e.to_string())),
    Err(p) => {
      obs.fail("unpack-panics", format!("unpack of {} bytes panicked at {}: {}", m.len(), p.file, p.msg))?;
      Ok(Err("panic".into()))
    }
  }
}

/// Offer `m` to `unpack` and compare with the framing rule. `original` is a correctly framed document
/// and its unpacked value, when the mutant was derived from one.
fn check_frame(m: &[u8], original: Option<(&[u8], &StateMetadataDocument)>, obs: &mut Obs) -> CheckResult {
  let got = unpack_caught(m, obs)?;
  match frame_verdict(m) {
    Verdict::MustReject(why) => {
      obs.label(format!("must-reject:{why}"));
      vensure!(
        obs,
        got.is_err(),
        format!("accepted-{why}"),
        "unpack accepted {} bytes although the framing rule says {why}; header {:02x?}",
        m.len(),
        &m[..m.len().min(HEADER_LEN)]
      );
    }
    Verdict::PrefixFits(end) => {
      let exact = &m[..end];
      if end < m.len() {
        obs.label("trailing-bytes-present");
      }
      match original {
        Some((bytes, doc)) if exact == bytes => {
          obs.label("frame-valid");
          match &got {
            Ok(d) => vensure!(
              obs,
              d == doc,
              "trailing-bytes-change-result",
              "a valid frame followed by {} extra bytes unpacks to a different document",
              m.len() - end
            ),
            Err(e) => vfail!(
              obs,
              if end < m.len() { "trailing-bytes-change-result" } else { "valid-frame-rejected" },
              "a valid frame followed by {} extra bytes is rejected: {e}",
              m.len() - end
            ),
          }
        }
        _ => {
          let alone = unpack_caught(exact, obs)?;
          obs.label(if got.is_ok() { "prefix-fits:accepted" } else { "prefix-fits:rejected" });
          let same = match (&got, &alone) {
            (Ok(a), Ok(b)) => a == b,
            (Err(_), Err(_)) => true,
            _ => false,
          };
          vensure!(
            obs,
            same,
            "trailing-bytes-change-result",
            "unpack of {} bytes gives {:?} but of its first {end} bytes (header + prefixed length) gives {:?}",
            m.len(),
            got.as_ref().map(|_| "Ok").map_err(|e| e.as_str()),
            alone.as_ref().map(|_| "Ok").map_err(|e| e.as_str())
          );
        }
      }
    }
  }
  Ok(())
}

fn apply_mutation(packed: &[u8], mutation: &FrameMut) -> Vec<u8> {
  let mut m = packed.to_vec();
  let true_len = packed.len().saturating_sub(HEADER_LEN);
  let set_len = |m: &mut Vec<u8>, len: u16| {
    if m.len() >= HEADER_LEN {
      m[5] = (len & 0xff) as u8;
      m[6] = (len >> 8) as u8;
    }
  };
  match mutation {
    FrameMut::HeaderByte { pos, val } => {
      let p = (*pos as usize) % HEADER_LEN;
      if p < m.len() {
        m[p] = *val;
      }
    }
    FrameMut::Len { len } => set_len(&mut m, *len),
    FrameMut::LenDelta { delta } => {
      let len = (true_len as i64 + *delta as i64).clamp(0, 0xFFFF) as u16;
      set_len(&mut m, len);
    }
    FrameMut::Truncate { keep } => m.truncate((*keep as usize).min(packed.len())),
    FrameMut::Trailing { extra } => m.extend_from_slice(extra),
    FrameMut::Body { len, body } => {
      m.truncate(5);
      m.push((*len & 0xff) as u8);
      m.push((*len >> 8) as u8);
      m.extend_from_slice(body);
    }
  }
  m
}

// ---------------------------------------------------------------------------------------------
// Checks
// ---------------------------------------------------------------------------------------------

/// Build the document of a specification through the library's JSON reader (fixture) and make sure it is
/// inside the property's domain. `Ok(None)` = discarded.
fn build_doc(spec: &DocSpec, obs: &mut Obs) -> Result<Option<IotaDocument>, Viol> {
  let rendered = render(spec, &spec.dids[0], spec.controller_array, true);
  if mentions_reserved(&rendered) {
    obs.discard("mentions-reserved-placeholder");
    return Ok(None);
  }
  let doc = match IotaDocument::from_json(&rendered.to_string()) {
    Ok(d) => d,
    Err(_) => {
      obs.discard("doc-rejected-by-from-json");
      return Ok(None);
    }
  };
  // The packed form is JSON. A document that does not survive the library's plain JSON codec
  // (to_json/from_json without any packing) cannot survive packing for reasons outside this property.
  let plain = fixture!(doc.to_json(), "IotaDocument::to_json");
  match IotaDocument::from_json(&plain) {
    Ok(again) if again == doc => Ok(Some(doc)),
    _ => {
      obs.discard(if spec.methods.iter().any(|m| m.extra) {
        "not-json-stable:method-with-custom-property"
      } else {
        "not-json-stable:other"
      });
      Ok(None)
    }
  }
}

fn pack_caught(doc: IotaDocument, obs: &mut Obs) -> Result<Result<Vec<u8>, String>, Viol> {
  match catch(move || doc.pack()) {
    Ok(r) => Ok(r.map_err(|e| e.to_string())),
    Err(p) => {
      obs.fail("pack-panics", format!("pack panicked at {}: {}", p.file, p.msg))?;
      Ok(Err("panic".into()))
    }
  }
}

/// Pack `doc` through both public routes and check the frame it is put in.
fn pack_and_check_header(doc: &IotaDocument, obs: &mut Obs) -> Result<Option<Vec<u8>>, Viol> {
  let packed = match pack_caught(doc.clone(), obs)? {
    Ok(p) => p,
    Err(e) => {
      obs.fail("pack-fails", format!("pack of a small document failed: {e}"))?;
      return Ok(None);
    }
  };
  let other_route = StateMetadataDocument::from(doc.clone())
    .pack(StateMetadataEncoding::Json)
    .map_err(|e| e.to_string());
  vensure!(
    obs,
    other_route.as_ref() == Ok(&packed),
    "pack-routes-differ",
    "IotaDocument::pack and StateMetadataDocument::from(..).pack(Json) give different bytes"
  );
  let header_ok = packed.len() >= HEADER_LEN
    && &packed[0..3] == MARKER
    && packed[3] == VERSION
    && packed[4] == ENCODING_JSON
    && (packed[5] as usize | (packed[6] as usize) << 8) == packed.len() - HEADER_LEN;
  vensure!(
    obs,
    header_ok,
    "pack-header-layout",
    "packed header {:02x?} for {} bytes is not `DID`,1,0,<LE16 body length>",
    &packed[..packed.len().min(HEADER_LEN)],
    packed.len()
  );
  Ok(Some(packed))
}

/// The document with its two ledger address fields blanked ("ledger address fields excepted").
fn without_addresses(mut d: IotaDocument) -> IotaDocument {
  d.metadata.governor_address = None;
  d.metadata.state_controller_address = None;
  d
}

/// Compare the document obtained for `target` with the harness rendering for that DID.
/// `Ok(true)` = equal; `Ok(false)` = differs only by a tolerated known finding; `Err` = violation.
fn compare_with_rendering(
  spec: &DocSpec,
  target: &str,
  got: &IotaDocument,
  clause: &str,
  obs: &mut Obs,
) -> Result<bool, Viol> {
  let expected_json = render(spec, target, spec.controller_array, false);
  let expected = fixture!(
    IotaDocument::from_json(&expected_json.to_string()),
    "from_json of the rendering for the target DID"
  );
  // the two ledger address fields are excepted from the statement: whatever they hold is not compared
  let got = &without_addresses(got.clone());
  if *got == expected {
    return Ok(true);
  }
  // One representation difference gets its own signature: `"controller": ["x"]` comes back as `"controller": "x"`.
  if spec.controller.len() == 1 && spec.controller_array {
    let alt_json = render(spec, target, false, false);
    let alt = fixture!(IotaDocument::from_json(&alt_json.to_string()), "from_json of the alternative rendering");
    if *got == alt {
      obs.fail(
        "singleton-controller-array-collapsed",
        format!(
          "{clause}: a document whose controller is the one-element array [{}] comes back with the plain string form; \
           the two do not compare equal",
          expected_json["doc"]["controller"][0]
        ),
      )?;
      return Ok(false);
    }
  }
  let got_json = fixture!(got.to_json_value(), "to_json_value");
  let section = diff_section(&got_json, &fixture!(expected.to_json_value(), "to_json_value"));
  obs.fail(
    format!("{clause}-mismatch:{section}"),
    format!(
      "{clause}: unpacked document for {target} differs from the specification rendered for that DID in {section}: got {} expected {}",
      short(&got_json.to_string(), 700),
      short(&expected_json.to_string(), 700)
    ),
  )?;
  Ok(false)
}

fn check_doc(spec: &DocSpec, target: &str, obs: &mut Obs) -> CheckResult {
  let Some(doc) = build_doc(spec, obs)? else {
    return Ok(());
  };
  let self_did = spec.dids[0].as_str();
  let self_iota = fixture!(IotaDID::parse(self_did), "IotaDID::parse(self)");
  vensure!(
    obs,
    self_iota.as_str() == self_did && doc.id().as_str() == self_did,
    "fixture-did-not-normalised",
    "generated self DID {self_did} is not in normal form (harness bug)"
  );
  let target_iota = fixture!(IotaDID::parse(target), "IotaDID::parse(target)");

  let uses = |i: u8| {
    spec.methods.iter().any(|m| m.did == i || m.controller == i)
      || spec.services.iter().any(|s| s.did == i)
      || spec.refs.iter().any(|r| r.did == i)
  };
  let has_self = uses(0);
  let has_foreign = (1..spec.dids.len() as u8).any(uses);
  if has_self {
    obs.label("self-identifiers");
  }
  if has_foreign {
    obs.label("foreign-identifiers");
  }
  if spec.refs.iter().any(|r| {
    !spec
      .methods
      .iter()
      .any(|m| m.scope == 0 && m.did == r.did && m.url == r.url)
  }) {
    obs.label("dangling-reference");
  }
  if spec.controller.len() > 1 {
    obs.label("several-controllers");
  }
  if spec.also_known_as.iter().any(|s| s.contains(self_did))
    || spec.props.iter().any(|(_, v)| v.to_string().contains(self_did))
    || spec.services.iter().any(|s| s.endpoint.to_string().contains(self_did))
  {
    obs.label("self-did-in-literal-field");
  }

  let Some(packed) = pack_and_check_header(&doc, obs)? else {
    return Ok(());
  };
  let unpacked = match unpack_caught(&packed, obs)? {
    Ok(u) => u,
    Err(e) => return obs.fail("unpack-own-output-fails", format!("unpack(pack(d)) failed: {e}")),
  };

  // (1) same DID: an equal document, the two address fields cleared.
  match catch(|| unpacked.clone().into_iota_document(&self_iota)) {
    Err(p) => vfail!(obs, "into-iota-document-panics", "into_iota_document(self) panicked: {}", p.msg),
    Ok(Err(e)) => vfail!(obs, "same-did-unpack-fails", "into_iota_document(self) failed: {e}"),
    Ok(Ok(back)) => {
      let cleared = without_addresses(doc.clone());
      let back = without_addresses(back);
      if back == cleared {
        obs.label("same-did-equal");
      } else if compare_with_rendering(spec, self_did, &back, "same-did", obs)? {
        // equal to the harness rendering for the own DID and yet not equal to d itself
        let a = fixture!(back.to_json_value(), "to_json_value");
        let b = fixture!(cleared.to_json_value(), "to_json_value");
        vfail!(
          obs,
          format!("same-did-mismatch:{}", diff_section(&a, &b)),
          "unpack(pack(d)).into_iota_document(self) != d: got {} expected {}",
          short(&a.to_string(), 700),
          short(&b.to_string(), 700)
        );
      }
    }
  }

  // (2) another DID: the harness rendering for that DID.
  if target == self_did {
    obs.label("target:self");
    return Ok(());
  }
  let colliding = spec.dids[1..].iter().any(|d| d == target);
  if has_self && has_foreign {
    obs.nontrivial();
  }
  let result = match catch(|| unpacked.clone().into_iota_document(&target_iota)) {
    Err(p) => return obs.fail("into-iota-document-panics", format!("into_iota_document(target) panicked: {}", p.msg)),
    Ok(r) => r,
  };
  if colliding {
    // The target already occurs as a foreign DID: the rewrite may merge identifiers. Either the rewrite or an error.
    let expected_json = render(spec, target, spec.controller_array, false);
    let rewrite_is_a_document = IotaDocument::from_json(&expected_json.to_string()).is_ok();
    match result {
      // the rewritten document is well formed (the target only occurs where no identifier clashes): it is demanded
      Err(e) if rewrite_is_a_document => vfail!(
        obs,
        "other-did-unpack-fails",
        "into_iota_document({target}) failed although the rewrite is a well-formed document ({target} already occurs as a foreign DID, without clashing): {e}"
      ),
      Err(_) => obs.label("target:colliding:error"),
      Ok(got) if rewrite_is_a_document => {
        obs.label("target:colliding:rewritten");
        compare_with_rendering(spec, target, &got, "colliding-did", obs)?;
      }
      // identifiers merged into duplicates: the rewrite is not a well-formed document, nothing is demanded
      Ok(_) => obs.label("target:colliding:rewrite-ill-formed"),
    }
    return Ok(());
  }
  obs.label(if is_placeholder_tag(target) { "target:fresh-zero-tag" } else { "target:fresh" });
  match result {
    Err(e) => vfail!(obs, "other-did-unpack-fails", "into_iota_document({target}) failed: {e}"),
    Ok(got) => {
      compare_with_rendering(spec, target, &got, "other-did", obs)?;
    }
  }
  Ok(())
}

fn is_placeholder_tag(did: &str) -> bool {
  did.ends_with(&format!("0x{}", "0".repeat(64)))
}

fn check_frame_case(spec: &DocSpec, mutation: &FrameMut, obs: &mut Obs) -> CheckResult {
  let Some(doc) = build_doc(spec, obs)? else {
    return Ok(());
  };
  let Some(packed) = pack_and_check_header(&doc, obs)? else {
    return Ok(());
  };
  let original = match unpack_caught(&packed, obs)? {
    Ok(u) => u,
    Err(e) => return obs.fail("unpack-own-output-fails", format!("unpack(pack(d)) failed: {e}")),
  };
  let mutant = apply_mutation(&packed, mutation);
  obs.label(match mutation {
    FrameMut::HeaderByte { pos, .. } => format!("mut:header-byte-{}", pos % HEADER_LEN as u8),
    FrameMut::Len { .. } | FrameMut::LenDelta { .. } => "mut:length-prefix".to_string(),
    FrameMut::Truncate { .. } => "mut:truncate".to_string(),
    FrameMut::Trailing { .. } => "mut:trailing".to_string(),
    FrameMut::Body { .. } => "mut:body".to_string(),
  });
  if mutant != packed {
    obs.nontrivial();
  }
  check_frame(&mutant, Some((&packed, &original)), obs)
}

/// The fixed small document that carries the padding of the oversize cases.
fn padded_spec(pad: usize, where_: u8) -> DocSpec {
  let mut spec = template(1);
  // `pad` bytes of compact JSON: ASCII letters, two-byte characters, or characters that take an escape (`\"`);
  // an odd remainder is one ASCII letter
  let text = match (where_ / 3) % 3 {
    0 => "a".repeat(pad),
    1 => format!("{}{}", "é".repeat(pad / 2), "a".repeat(pad % 2)),
    _ => format!("{}{}", "\"".repeat(pad / 2), "a".repeat(pad % 2)),
  };
  let padding = Value::String(text);
  match where_ % 3 {
    0 => spec.props.push(("padding".into(), padding)),
    1 => spec.meta.props.push(("padding".into(), padding)),
    _ => {
      if let Some(s) = spec.services.first_mut() {
        s.props.push(("padding".into(), padding));
      } else {
        spec.props.push(("padding".into(), padding));
      }
    }
  }
  spec
}

fn check_oversize(total: u32, where_: u8, obs: &mut Obs) -> CheckResult {
  // measure the empty-padding document once (its own pack is a fixture here), then add exactly the missing bytes:
  // a string of n ASCII letters adds exactly n bytes to compact JSON.
  let Some(base_doc) = build_doc(&padded_spec(0, where_), obs)? else {
    return Ok(());
  };
  let base_len = fixture!(base_doc.pack(), "pack of the unpadded document").len() - HEADER_LEN;
  let total = total as usize;
  if total < base_len {
    obs.discard("total-below-base-size");
    return Ok(());
  }
  let spec = padded_spec(total - base_len, where_);
  let Some(doc) = build_doc(&spec, obs)? else {
    return Ok(());
  };
  obs.nontrivial();
  let fits = total <= 0xFFFF;
  match pack_caught(doc.clone(), obs)? {
    Ok(packed) => {
      obs.label("pack-ok");
      vensure!(
        obs,
        fits,
        "oversize-document-packs",
        "a document whose JSON is {total} bytes (> 65535) packed into {} bytes with prefix {:02x?}",
        packed.len(),
        &packed[5..7.min(packed.len())]
      );
      if packed.len() != HEADER_LEN + total {
        // the size the harness computed for the body is not the size the library wrote: nothing can be said about
        // the boundary from this case
        return Err(Viol::fixture(format!(
          "harness size model is off: expected body of {total} bytes, got {}",
          packed.len() - HEADER_LEN
        )));
      }
      let unpacked = match unpack_caught(&packed, obs)? {
        Ok(u) => u,
        Err(e) => return obs.fail("unpack-own-output-fails", format!("unpack(pack(d)) failed for a {total}-byte body: {e}")),
      };
      let me = fixture!(IotaDID::parse(&spec.dids[0]), "IotaDID::parse(self)");
      match unpacked.into_iota_document(&me) {
        Ok(back) => {
          let cleared = without_addresses(doc);
          let back = without_addresses(back);
          vensure!(obs, back == cleared, "same-did-mismatch:large-document", "a {total}-byte document does not round-trip");
        }
        Err(e) => vfail!(obs, "same-did-unpack-fails", "into_iota_document(self) failed for a {total}-byte body: {e}"),
      }
    }
    Err(e) => {
      obs.label("pack-err");
      vensure!(
        obs,
        !fits,
        "pack-fails",
        "a document whose JSON is {total} bytes (fits the 16-bit length) failed to pack: {e}"
      );
    }
  }
  Ok(())
}

pub fn check(case: &Case, obs: &mut Obs) -> CheckResult {
  match case {
    Case::Doc { spec, target } => check_doc(spec, target, obs),
    Case::Frame { spec, mutation } => check_frame_case(spec, mutation, obs),
    Case::Bytes { data } => {
      obs.nontrivial();
      check_frame(data, None, obs)
    }
    Case::Oversize { total, where_ } => check_oversize(*total, *where_, obs),
  }
}

// ---------------------------------------------------------------------------------------------
// Fixed templates (header sweep, oversize)
// ---------------------------------------------------------------------------------------------

const SELF_A: &str = "did:iota:0x8036235b6b5939435a45d68bcea7890eef399209a669c8c263fac7f5089b2ec6";
const FOREIGN_A: &str = "did:iota:rms:0x71b709dff439f1ac9dd2b9c2e28db0807156b378e13bfa3605ce665aa0d0fdca";

/// 0: bare document (body < 256 bytes); 1: medium; 2: large (body > 4 KiB, both length bytes busy).
fn template(i: usize) -> DocSpec {
  let bare = DocSpec {
    dids: vec![SELF_A.into()],
    controller: vec![],
    controller_array: false,
    also_known_as: vec![],
    methods: vec![],
    refs: vec![],
    services: vec![],
    props: vec![],
    meta: MetaSpec::default(),
  };
  if i == 0 {
    return bare;
  }
  let mut spec = DocSpec {
    dids: vec![SELF_A.into(), FOREIGN_A.into(), "did:example:abc".into()],
    controller: vec![1, 0],
    also_known_as: vec!["did:example:xyz".into(), SELF_A.into()],
    methods: vec![
      MethodSpec { did: 0, url: "#k0".into(), controller: 0, scope: 0, data: 0, extra: false },
      MethodSpec { did: 1, url: "#k0".into(), controller: 1, scope: 0, data: 2, extra: false },
      MethodSpec { did: 0, url: "#emb".into(), controller: 2, scope: 1, data: 1, extra: false },
      MethodSpec { did: 2, url: "/p?q=1#k2".into(), controller: 0, scope: 3, data: 3, extra: false },
    ],
    refs: vec![
      RefSpec { rel: 1, did: 0, url: "#k0".into() },
      RefSpec { rel: 2, did: 1, url: "#k0".into() },
      RefSpec { rel: 5, did: 0, url: "#absent".into() },
    ],
    services: vec![
      ServiceSpec {
        did: 0,
        url: "#svc".into(),
        type_: json!("LinkedDomains"),
        endpoint: json!("https://example.com/a"),
        props: vec![],
      },
      ServiceSpec {
        did: 1,
        url: "?x=1#svc".into(),
        type_: json!(["A", "B"]),
        endpoint: json!({"origins": [SELF_A, "https://example.com/b"]}),
        props: vec![("note".into(), json!(SELF_A))],
      },
    ],
    props: vec![("custom".into(), json!({"self": SELF_A, "n": [1, 2, 3]}))],
    meta: MetaSpec {
      created: Some(1_672_531_200),
      updated: Some(1_672_617_600),
      deactivated: Some(false),
      governor: Some("rms1qqgovernor".into()),
      state_controller: Some("rms1qqstate".into()),
      props: vec![("metaCustom".into(), json!([true, null]))],
    },
    ..bare
  };
  if i >= 2 {
    for n in 0..24u32 {
      spec.methods.push(MethodSpec {
        did: (n % 3) as u8,
        url: format!("#bulk-{n}"),
        controller: ((n + 1) % 3) as u8,
        scope: (n % 6) as u8,
        data: (n % 4) as u8,
        extra: false,
      });
    }
  }
  spec
}

const TEMPLATES: usize = 3;

fn header_sweep() -> impl Iterator<Item = Case> {
  (0..TEMPLATES).flat_map(|t| {
    (0..HEADER_LEN as u8).flat_map(move |pos| {
      (0..=255u8).map(move |val| Case::Frame { spec: template(t), mutation: FrameMut::HeaderByte { pos, val } })
    })
  })
}

/// Length prefixes {0, n−1, n, n+1, 0xFFFF}, truncation at every length ≤ 16 and n−1, n — for every template.
fn frame_grid() -> impl Iterator<Item = Case> {
  (0..TEMPLATES).flat_map(|t| {
    let lens = [-1i32, 0, 1, 2, 255, 256, -255, -256]
      .into_iter()
      .map(|delta| FrameMut::LenDelta { delta })
      .chain([0u16, 1, 2, 0xFFFE, 0xFFFF].into_iter().map(|len| FrameMut::Len { len }));
    let cuts = (0..=16u32)
      .chain([u32::MAX])
      .map(|keep| FrameMut::Truncate { keep });
    let trailing = [vec![0u8], vec![b'}'], vec![b' '; 3], b"DID\x01\x00\x02\x00{}".to_vec(), vec![0xff; 70_000]]
      .into_iter()
      .map(|extra| FrameMut::Trailing { extra });
    let bodies = [
      (0u16, vec![]),
      (2, b"{}".to_vec()),
      (2, b"{}{}".to_vec()),
      (4, b"null".to_vec()),
      (3, b"{}".to_vec()),
      (0xFFFF, vec![b' '; 0xFFFE]),
    ]
    .into_iter()
    .map(|(len, body)| FrameMut::Body { len, body });
    lens
      .chain(cuts)
      .chain(trailing)
      .chain(bodies)
      .map(move |mutation| Case::Frame { spec: template(t), mutation })
      .collect::<Vec<_>>()
  })
}

fn oversize_grid() -> impl Iterator<Item = Case> {
  (0..9u8).flat_map(|where_| {
    (65_520u32..=65_550)
      .chain([4_096, 32_768, 65_000, 66_000, 70_000, 131_071, 131_072, 131_073, 65_536 * 3 + 40, 1_000_000])
      .map(move |total| Case::Oversize { total, where_ })
  })
}

// ---------------------------------------------------------------------------------------------
// Generators
// ---------------------------------------------------------------------------------------------

fn hex_of(bytes: &[u8]) -> String {
  bytes.iter().map(|b| format!("{b:02x}")).collect()
}

fn iota_did(net: Option<&str>, tag: &[u8; 32]) -> String {
  match net {
    Some(n) => format!("did:iota:{n}:0x{}", hex_of(tag)),
    None => format!("did:iota:0x{}", hex_of(tag)),
  }
}

const NETWORKS: [Option<&str>; 7] = [None, Some("smr"), Some("rms"), Some("atoi"), Some("x"), Some("abc123"), Some("0")];

fn tag_strategy() -> impl Strategy<Value = [u8; 32]> {
  prop_oneof![
    8 => any::<[u8; 32]>(),
    1 => Just([0u8; 32]),
    1 => any::<u8>().prop_map(|b| [b; 32]),
  ]
}

/// Raw description of a foreign DID, turned into a string relative to the self DID.
#[derive(Debug, Clone)]
struct RawForeign {
  kind: u8,
  net: usize,
  tag: [u8; 32],
  word: String,
}

fn foreign_did(raw: &RawForeign, self_net: usize, self_tag: &[u8; 32], self_did: &str) -> String {
  let other_net = if raw.net == self_net { (raw.net + 1) % NETWORKS.len() } else { raw.net };
  match raw.kind % 12 {
    0 => iota_did(NETWORKS[self_net], &raw.tag),   // other tag, same network
    1 => iota_did(NETWORKS[other_net], self_tag),  // same tag, other network
    2 => iota_did(NETWORKS[other_net], &raw.tag),  // other tag, other network
    3 => format!("did:example:{}", raw.word),
    4 => format!("did:web:example.com%3A3000:{}", raw.word),
    5 => ["did:0:00", "did:0:1", "did:00:0", "did:0:0a"][raw.tag[0] as usize % 4].to_string(), // near the reserved identifier
    6 => format!("{self_did}{}", &raw.word[..1]),  // self DID as a proper prefix (not an IOTA DID any more)
    7 => "did:key:z6MkiTBz1ymuepAQ4HEHYSF1H8quG5GLVVQR3djdX3mDooWp".to_string(),
    8 => format!("did:iota:{}:{}", raw.word, &self_did["did:iota:".len()..]), // self id nested deeper
    // another spelling of the self DID (explicit default network / upper-case hex): a different string, hence a
    // foreign identifier that must come back untouched, although it normalises to the self DID
    10 | 11 => {
      let hex: String = self_tag.iter().map(|b| format!("{b:02X}")).collect();
      let has_letters = hex.bytes().any(|b| b.is_ascii_alphabetic());
      match NETWORKS[self_net] {
        // an all-digit tag has no second spelling by case: fall back to an ordinary foreign DID
        Some(_) if !has_letters => iota_did(NETWORKS[self_net], &raw.tag),
        None if raw.kind % 12 == 11 && !has_letters => iota_did(NETWORKS[self_net], &raw.tag),
        // default network: spelled out explicitly, or with upper-case hex digits
        None if raw.kind % 12 == 10 => format!("did:iota:iota:0x{}", hex.to_lowercase()),
        None => format!("did:iota:0x{hex}"),
        Some(net) => format!("did:iota:{net}:0x{hex}"),
      }
    }
    _ => format!("did:jwk:{}", crate::util::b64url(raw.word.as_bytes())),
  }
}

const URLS: [&str; 12] = [
  "#k0", "#k1", "#k2", "#k3", "#key-1", "#svc", "#svc-2", "#a.b_c", "/p#k1", "?v=1#k1", "/a/b?x=1&y=2#frag", "#0",
];

const PROP_NAMES: [&str; 6] = ["custom", "x-note", "@context", "linked", "nested", "zz"];

/// Replace the tokens `$SELF` / `$F` in generated literals by the self DID / first foreign DID.
fn substitute(v: &Value, self_did: &str, foreign: &str) -> Value {
  match v {
    Value::String(s) => Value::String(s.replace("$SELF", self_did).replace("$F", foreign)),
    Value::Array(a) => Value::Array(a.iter().map(|x| substitute(x, self_did, foreign)).collect()),
    Value::Object(o) => Value::Object(o.iter().map(|(k, x)| (k.clone(), substitute(x, self_did, foreign))).collect()),
    other => other.clone(),
  }
}

/// Drop repeated strings inside arrays (substitution can turn two different tokens into the same URL; URL sets must be duplicate-free).
fn dedupe_string_arrays(v: &Value) -> Value {
  match v {
    Value::Array(a) => {
      let mut seen: Vec<&Value> = Vec::new();
      let mut out = Vec::new();
      for x in a {
        if x.is_string() && seen.contains(&x) {
          continue;
        }
        seen.push(x);
        out.push(dedupe_string_arrays(x));
      }
      Value::Array(out)
    }
    Value::Object(o) => Value::Object(o.iter().map(|(k, x)| (k.clone(), dedupe_string_arrays(x))).collect()),
    other => other.clone(),
  }
}

fn literal_string() -> impl Strategy<Value = String> {
  prop::sample::select(vec![
    "", "text", "$SELF", "$SELF#k0", "$SELF/p?q#f", "see $SELF and $F", "$F", "$F#svc", "did:0:00", "did:0:0x",
    "quote\" backslash\\ newline\n tab\t", "ünïcödé ☃ 𝄞", "0x00", "null",
  ])
  .prop_map(str::to_string)
}

fn literal_value() -> impl Strategy<Value = Value> {
  let leaf = prop_oneof![
    1 => Just(Value::Null),
    1 => any::<bool>().prop_map(Value::Bool),
    2 => any::<i64>().prop_map(|n| json!(n)),
    1 => any::<u64>().prop_map(|n| json!(n)),
    5 => literal_string().prop_map(Value::String),
  ];
  leaf.prop_recursive(2, 8, 3, |inner| {
    prop_oneof![
      prop::collection::vec(inner.clone(), 0..3).prop_map(Value::Array),
      prop::collection::vec((prop::sample::select(vec!["a", "b", "id", "controller", "$SELF"]), inner), 0..3)
        .prop_map(|kv| Value::Object(kv.into_iter().map(|(k, v)| (k.to_string(), v)).collect())),
    ]
  })
}

fn props_strategy() -> impl Strategy<Value = Vec<(String, Value)>> {
  prop::collection::vec((prop::sample::select(PROP_NAMES.to_vec()), literal_value()), 0..3).prop_map(|kv| {
    let mut seen = BTreeSet::new();
    kv.into_iter()
      .filter(|(k, _)| seen.insert(*k))
      .map(|(k, v)| (k.to_string(), v))
      .collect()
  })
}

fn url_literal() -> impl Strategy<Value = String> {
  prop::sample::select(vec![
    "https://example.com/a", "https://example.com/b?x=1#y", "did:example:xyz", "$SELF", "$SELF#svc", "$F",
    "urn:uuid:6a1d0b0e-5f3c-4a39-9d0f-0e6c1d1f7a11", "did:0:00", "ipfs://bafybeigdyrzt5sfp7udm7hu76uh7y26nf3efuylqabf3oclgtqy55fbzdi/",
  ])
  .prop_map(str::to_string)
}

fn url_set(max: usize) -> impl Strategy<Value = Vec<String>> {
  prop::collection::vec(url_literal(), 1..=max).prop_map(|v| {
    let mut seen = BTreeSet::new();
    v.into_iter().filter(|s| seen.insert(s.clone())).collect()
  })
}

fn endpoint_strategy() -> impl Strategy<Value = Value> {
  prop_oneof![
    3 => url_literal().prop_map(Value::String),
    2 => url_set(3).prop_map(|v| json!(v)),
    2 => prop::collection::vec((prop::sample::select(vec!["origins", "a", "b"]), url_set(2)), 1..3).prop_map(|kv| {
      Value::Object(kv.into_iter().map(|(k, v)| (k.to_string(), json!(v))).collect())
    }),
  ]
}

fn service_type_strategy() -> impl Strategy<Value = Value> {
  prop::sample::select(vec![
    json!("LinkedDomains"),
    json!(["LinkedDomains"]),
    json!(["A", "B"]),
    json!("RevocationBitmap2022"),
  ])
}

fn meta_strategy() -> impl Strategy<Value = MetaSpec> {
  (
    prop::option::weighted(0.8, 0i64..4_102_444_800),
    prop::option::weighted(0.8, 0i64..4_102_444_800),
    prop::option::of(any::<bool>()),
    prop::option::of(Just("rms1qpszqzadsym6wpppd6z037dvlejmjuke7s24hm95s9fg9vpua7vluaw60xu".to_string())),
    prop::option::of(Just("smr1qqstatecontroller".to_string())),
    prop::collection::vec((prop::sample::select(vec!["metaCustom", "note", "governor"]), literal_value()), 0..3),
  )
    .prop_map(|(created, updated, deactivated, governor, state_controller, props)| {
      let mut seen = BTreeSet::new();
      MetaSpec {
        created,
        updated,
        deactivated,
        governor,
        state_controller,
        props: props
          .into_iter()
          .filter(|(k, _)| seen.insert(*k))
          .map(|(k, v)| (k.to_string(), v))
          .collect(),
      }
    })
}

/// Everything about a document except its target, with identifier uniqueness established by construction.
fn spec_strategy() -> impl Strategy<Value = DocSpec> {
  let dids = (
    0..NETWORKS.len(),
    tag_strategy(),
    prop::collection::vec(
      (any::<u8>(), 0..NETWORKS.len(), tag_strategy(), "[a-z][a-z0-9]{0,5}")
        .prop_map(|(kind, net, tag, word)| RawForeign { kind, net, tag, word }),
      0..=3,
    ),
  );
  let idx = any::<prop::sample::Index>;
  let methods = prop::collection::vec(
    (idx(), prop::sample::select(URLS.to_vec()), idx(), prop_oneof![3 => Just(0u8), 2 => 1u8..=5], 0u8..4, prop::bool::weighted(0.01)),
    0..6,
  );
  let refs = prop::collection::vec(
    (1u8..=5, idx(), prop_oneof![4 => prop::sample::select(URLS.to_vec()), 1 => Just("#absent")]),
    0..6,
  );
  let services = prop::collection::vec(
    (idx(), prop::sample::select(URLS.to_vec()), service_type_strategy(), endpoint_strategy(), props_strategy()),
    0..4,
  );
  let controllers = (prop::collection::vec(idx(), 0..4), prop::bool::weighted(0.1), prop::bool::weighted(0.6));
  (
    dids,
    controllers,
    prop::collection::vec(url_literal(), 0..3),
    methods,
    refs,
    services,
    props_strategy(),
    meta_strategy(),
  )
    .prop_map(|((self_net, self_tag, raw_foreign), (ctrl, controller_array, prefer_self), aka, methods, refs, services, props, meta)| {
      let self_did = iota_did(NETWORKS[self_net], &self_tag);
      let mut dids = vec![self_did.clone()];
      for raw in &raw_foreign {
        let f = foreign_did(raw, self_net, &self_tag, &self_did);
        if !dids.contains(&f) {
          dids.push(f);
        }
      }
      let n = dids.len();
      let first_foreign = dids.get(1).cloned().unwrap_or_else(|| "did:example:none".to_string());
      let subst = |v: &Value| substitute(v, &self_did, &first_foreign);
      let subst_s = |s: &str| s.replace("$SELF", &self_did).replace("$F", &first_foreign);
      // bias DID picks toward self so that self and foreign identifiers mix
      let pick = |i: &prop::sample::Index| -> u8 {
        if n == 1 {
          0
        } else {
          // half of the picks are the self DID, the other half spread over the foreign DIDs
          let k = i.index(2 * (n - 1));
          if k < n - 1 { 0 } else { (k - (n - 1) + 1) as u8 }
        }
      };

      // controllers: IOTA-shaped entries only, no repeats
      let iota_idx: Vec<u8> = (0..n as u8).filter(|i| is_normal_iota_did(&dids[*i as usize])).collect();
      let mut controller: Vec<u8> = Vec::new();
      for c in &ctrl {
        let mut i = iota_idx[c.index(iota_idx.len())];
        if prefer_self && controller.is_empty() && ctrl.len() > 1 {
          i = 0;
        }
        if !controller.contains(&i) {
          controller.push(i);
        }
      }

      let mut also_known_as: Vec<String> = Vec::new();
      for a in aka {
        let a = subst_s(&a);
        if !also_known_as.contains(&a) {
          also_known_as.push(a);
        }
      }

      // methods: one entity per (did, url)
      let mut used: BTreeSet<(u8, String)> = BTreeSet::new();
      let mut embedded: BTreeSet<(u8, String)> = BTreeSet::new();
      let mut out_methods = Vec::new();
      for (d, url, c, scope, data, extra) in methods {
        let m = MethodSpec { did: pick(&d), url: url.to_string(), controller: pick(&c), scope, data, extra };
        if used.insert((m.did, m.url.clone())) {
          if m.scope != 0 {
            embedded.insert((m.did, m.url.clone()));
          }
          out_methods.push(m);
        }
      }
      // references: never to an embedded method, unique inside a relationship
      let mut out_refs: Vec<RefSpec> = Vec::new();
      for (rel, d, url) in refs {
        let r = RefSpec { rel, did: pick(&d), url: url.to_string() };
        let key = (r.did, r.url.clone());
        if embedded.contains(&key) || out_refs.iter().any(|o| o.rel == r.rel && o.did == r.did && o.url == r.url) {
          continue;
        }
        used.insert(key);
        out_refs.push(r);
      }
      // services: identifiers disjoint from every method / reference identifier and from each other
      let mut out_services = Vec::new();
      for (d, url, type_, endpoint, sprops) in services {
        let s = ServiceSpec {
          did: pick(&d),
          url: url.to_string(),
          type_,
          endpoint: dedupe_string_arrays(&subst(&endpoint)),
          props: sprops
            .into_iter()
            .filter(|(k, _)| k != "type" && k != "id")
            .map(|(k, v)| (k, subst(&v)))
            .collect(),
        };
        if used.insert((s.did, s.url.clone())) {
          out_services.push(s);
        }
      }
      DocSpec {
        dids,
        controller,
        controller_array,
        also_known_as,
        methods: out_methods,
        refs: out_refs,
        services: out_services,
        props: props.into_iter().map(|(k, v)| (k, subst(&v))).collect(),
        meta: MetaSpec { props: meta.props.iter().map(|(k, v)| (k.clone(), subst(v))).collect(), ..meta },
      }
    })
}

fn doc_strategy() -> impl Strategy<Value = Case> {
  (spec_strategy(), 0u8..10, 0..NETWORKS.len(), tag_strategy(), any::<prop::sample::Index>()).prop_map(
    |(spec, kind, net, tag, pick)| {
      let foreign_iota: Vec<&String> = spec.dids[1..].iter().filter(|d| is_normal_iota_did(d)).collect();
      let target = match kind {
        0 => spec.dids[0].clone(),
        1..=3 if !foreign_iota.is_empty() => foreign_iota[pick.index(foreign_iota.len())].clone(),
        4 => iota_did(NETWORKS[net], &[0u8; 32]),
        _ => iota_did(NETWORKS[net], &tag),
      };
      Case::Doc { spec, target }
    },
  )
}

fn frame_strategy() -> impl Strategy<Value = Case> {
  let mutation = prop_oneof![
    2 => (0u8..7, any::<u8>()).prop_map(|(pos, val)| FrameMut::HeaderByte { pos, val }),
    2 => any::<u16>().prop_map(|len| FrameMut::Len { len }),
    3 => (-300i32..=300).prop_map(|delta| FrameMut::LenDelta { delta }),
    2 => any::<u32>().prop_map(|k| FrameMut::Truncate { keep: k % 4096 }),
    2 => prop::collection::vec(any::<u8>(), 1..40).prop_map(|extra| FrameMut::Trailing { extra }),
    2 => (0u16..64, prop::collection::vec(any::<u8>(), 0..64)).prop_map(|(len, body)| FrameMut::Body { len, body }),
    1 => (0u16..40, prop::sample::select(vec![
        r#"{"doc":{"id":"did:0:0"},"meta":{}}"#, r#"{"doc":{"id":"did:0:0"},"meta":{}}   "#, r#"{"doc":{"id":"did:0:0"},"meta":{}}}"#,
        r#"{"doc":{"id":"did:iota:0x00"},"meta":{"created":"2023-01-01T00:00:00Z"}}"#, "{}", "[]",
      ]))
      .prop_map(|(slack, body)| FrameMut::Body { len: (body.len() as u16).saturating_sub(slack % 3), body: body.as_bytes().to_vec() }),
  ];
  (spec_strategy(), mutation).prop_map(|(spec, mutation)| Case::Frame { spec, mutation })
}

fn bytes_strategy() -> impl Strategy<Value = Case> {
  let header = prop_oneof![
    4 => Just(b"DID\x01\x00".to_vec()),
    1 => prop::collection::vec(any::<u8>(), 0..6),
    1 => (any::<u8>(), any::<u8>()).prop_map(|(v, e)| vec![b'D', b'I', b'D', v, e]),
  ];
  (header, any::<u16>(), prop::collection::vec(any::<u8>(), 0..48), any::<bool>()).prop_map(|(mut data, len, body, small)| {
    let len = if small { len % 64 } else { len };
    data.push((len & 0xff) as u8);
    data.push((len >> 8) as u8);
    data.extend_from_slice(&body);
    Case::Bytes { data }
  })
}

fn oversize_strategy() -> impl Strategy<Value = Case> {
  (prop_oneof![3 => 65_000u32..=70_000, 1 => 60_000u32..300_000], 0u8..9).prop_map(|(total, where_)| Case::Oversize { total, where_ })
}

pub fn run(ctx: &mut Ctx) {
  ctx.rule = "documents rendered by the harness from a specification (self DID + 0–3 foreign DIDs incl. same tag on another network, \
    near-placeholder `did:0:00`, self DID as a proper prefix; methods in all six scopes with self/foreign ids and controllers; references \
    to present/absent self/foreign methods; services; 0–3 controllers; literal fields mentioning the self DID), unpacked for the own DID and \
    for a fresh / zero-tag / colliding target DID and compared with the harness rendering for that DID; framing: all 7×256 header-byte \
    mutants of 3 fixed documents, length-prefix/truncation/trailing/body grids, random mutants of random documents, random byte strings; \
    oversize: JSON length 65520..=65550 exhaustively ×3 padding positions plus larger sizes. Non-trivial = document with ≥1 self and ≥1 \
    foreign identifier among methods/references/services and a target DID ≠ self (Doc); mutant ≠ original (Frame); every Bytes/Oversize \
    case; distinct by case bytes."
    .into();
  ctx.assume("header layout `DID` | version 1 | encoding 0 | u16 little-endian body length is transcribed from state_metadata/document.rs; a byte string shorter than the 7-byte header is treated as carrying a wrong marker/version/encoding or a length exceeding the data");
  ctx.assume("when the prefixed length fits, acceptance depends on the body: only `unpack(m) ≡ unpack(m[..7+len])` is demanded (trailing bytes ignored), plus acceptance when that prefix is a frame produced by pack");
  ctx.assume("target DID that already occurs as a foreign DID: an error is accepted; a result is compared with the rewrite only when the rewrite is itself a well-formed document (no merged duplicate identifiers)");
  ctx.assume("documents must survive the library's plain JSON codec (to_json → from_json equal) before packing is judged; verification methods carrying custom properties do not (observed: the last JSON member is taken as method data) and are discarded");
  ctx.assume("IotaDocument::unpack_from_output/unpack_from_block need the `client` feature (iota-sdk) and are not reachable in this build; StateMetadataDocument::{from, pack, unpack, into_iota_document} and IotaDocument::{pack, pack_with_encoding} are exercised");

  ctx.exhaustive("header-sweep", header_sweep, check);
  ctx.exhaustive("frame-grid", frame_grid, check);
  ctx.exhaustive("oversize-grid", oversize_grid, check);
  for t in 0..TEMPLATES {
    ctx.single("templates", &Case::Doc { spec: template(t), target: FOREIGN_A.replace("71b7", "aaaa") }, check);
    ctx.single("templates", &Case::Doc { spec: template(t), target: FOREIGN_A.into() }, check);
  }
  let docs = ctx.pick(30_000u32, 1_500_000);
  ctx.proptest("docs", docs, doc_strategy, check);
  ctx.proptest("frames", ctx.pick(15_000, 600_000), frame_strategy, check);
  ctx.proptest("bytes", ctx.pick(10_000, 1_000_000), bytes_strategy, check);
  ctx.proptest("oversize", ctx.pick(100, 4_000), oversize_strategy, check);

  ctx.require_class("header-sweep:must-reject:wrong-marker", 3 * 255 * TEMPLATES as u64);
  ctx.require_class("header-sweep:must-reject:wrong-version", 255 * TEMPLATES as u64);
  ctx.require_class("header-sweep:must-reject:wrong-encoding", 255 * TEMPLATES as u64);
  ctx.require_class("header-sweep:must-reject:length-exceeds-data", 255);
  ctx.require_class("header-sweep:frame-valid", 7 * TEMPLATES as u64);
  ctx.require_class("header-sweep:prefix-fits:rejected", 100);
  ctx.require_class("frame-grid:trailing-bytes-present", 10);
  ctx.require_class("oversize-grid:pack-ok", 30);
  ctx.require_class("oversize-grid:pack-err", 30);
  let docs = docs as u64;
  ctx.require_class("docs:same-did-equal", docs / 2);
  ctx.require_class("docs:target:fresh", docs / 4);
  ctx.require_class("docs:target:fresh-zero-tag", docs / 40);
  ctx.require_class("docs:target:colliding:rewritten", docs / 100);
  ctx.require_class("docs:self-identifiers", docs / 4);
  ctx.require_class("docs:foreign-identifiers", docs / 4);
  ctx.require_class("docs:dangling-reference", docs / 20);
  ctx.require_class("docs:self-did-in-literal-field", docs / 20);
  ctx.require_class("frames:frame-valid", 100);
  ctx.require_class("frames:must-reject:length-exceeds-data", 100);
  ctx.require_class("bytes:prefix-fits:rejected", 100);
  ctx.max_discard_pct(10);
}

pub fn replay(v: &serde_json::Value, obs: &mut Obs) -> Result<CheckResult, String> {
  replay_with::<Case>(v, obs, check)
}

/// libFuzzer entry: arbitrary bytes offered to `unpack` (framing rule + trailing-bytes relation).
pub fn fuzz_decode(data: &[u8]) -> Option<serde_json::Value> {
  serde_json::to_value(Case::Bytes { data: data.to_vec() }).ok()
}
