//! C10 — Accepted DIDs and DID URLs are canonical, decomposable, free of stray parts.
//!
//! Types under test: `identity_did::{CoreDID, DIDUrl, RelativeDIDUrl, DIDJwk}`.
//! Oracle: the independent did-core / RFC 3986 recogniser in `model::did_syntax` plus round trips.
//! Only "accepted ⇒ …" is asserted; a rejected string is never a violation.

use crate::engine::*;
use crate::fixture;
use crate::gen::did as gen;
use crate::model::did_syntax as syn;
use crate::util;
use crate::vensure;
use crate::vfail;
use identity_core::convert::FromJson;
use identity_core::convert::ToJson;
use identity_did::BaseDIDUrl;
use identity_did::CoreDID;
use identity_did::DIDJwk;
use identity_did::DIDUrl;
use identity_did::RelativeDIDUrl;
use identity_did::DID;
use proptest::prelude::*;
use serde::Deserialize;
use serde::Serialize;
use serde_json::Value;
use std::cmp::Ordering;
use std::hash::Hash;
use std::hash::Hasher;
use std::str::FromStr;

#[derive(Debug, Clone, Copy, PartialEq, Eq, Serialize, Deserialize)]
pub enum DidOp {
  MethodName,
  MethodId,
}

#[derive(Debug, Clone, Copy, PartialEq, Eq, Serialize, Deserialize)]
pub enum UrlOp {
  /// `DIDUrl::set_path` / `set_query` / `set_fragment`.
  Path,
  Query,
  Fragment,
  /// The same setters on a detached `RelativeDIDUrl` that is then installed with `DIDUrl::set_url`.
  RelPath,
  RelQuery,
  RelFragment,
  /// `DIDUrl::join`.
  Join,
  /// `DID::join` on the DID part (consumes the DID).
  DidJoin,
}

const URL_OPS: [UrlOp; 8] = [
  UrlOp::Path,
  UrlOp::Query,
  UrlOp::Fragment,
  UrlOp::RelPath,
  UrlOp::RelQuery,
  UrlOp::RelFragment,
  UrlOp::Join,
  UrlOp::DidJoin,
];

impl UrlOp {
  /// Name used in signatures; the detached-setter route shares the name of the direct one (same code path).
  fn name(self) -> &'static str {
    match self {
      UrlOp::Path | UrlOp::RelPath => "set-path",
      UrlOp::Query | UrlOp::RelQuery => "set-query",
      UrlOp::Fragment | UrlOp::RelFragment => "set-fragment",
      UrlOp::Join => "join",
      UrlOp::DidJoin => "did-join",
    }
  }
}

#[derive(Debug, Clone, Serialize, Deserialize)]
pub enum Case {
  /// Offer `s` to every route that yields a `CoreDID` (`url: false`) or a `DIDUrl` (`url: true`).
  Parse { s: String, url: bool },
  /// `CoreDID::parse(base)` then `set_method_name(value)` / `set_method_id(value)`.
  SetDid { base: String, op: DidOp, value: String },
  /// `DIDUrl::parse(base)` then a setter or join (`None` = clear the component; joins read it as "").
  SetUrl { base: String, op: UrlOp, value: Option<String> },
  /// Equality / ordering / hashing laws on three DID URLs.
  Order { a: String, b: String, c: String },
  /// Offer `s` to `DIDJwk`.
  Jwk { s: String },
}

// ---------------------------------------------------------------------------------------------
// Small helpers
// ---------------------------------------------------------------------------------------------

fn hash_of<T: Hash>(t: &T) -> u64 {
  let mut h = std::collections::hash_map::DefaultHasher::new();
  t.hash(&mut h);
  h.finish()
}

/// First or last character is an ASCII control character or a blank.
fn has_blank_edge(s: &str) -> bool {
  let edge = |c: char| c.is_ascii_control() || c == ' ';
  s.chars().next().is_some_and(edge) || s.chars().last().is_some_and(edge)
}

/// Outcome of offering a string to a parsing route. A panic is not acceptance; it is kept apart so that it
/// gets its own signature and never aborts the search.
enum Attempt<T> {
  Accepted(T),
  Rejected(String),
  Panicked(String),
}

fn attempt<T, E: std::fmt::Display>(f: impl FnOnce() -> Result<T, E>) -> Attempt<T> {
  match catch(f) {
    Ok(Ok(v)) => Attempt::Accepted(v),
    Ok(Err(e)) => Attempt::Rejected(e.to_string()),
    Err(p) => Attempt::Panicked(p.msg),
  }
}

/// Signature for a panic of a parse route on `s`. One cause has its own finding: the scan of the
/// method-specific id reaches the end of the string directly after a "%" and two more characters (the
/// parser then indexes one past the end). Delimiters swallowed after earlier triplets can make the id
/// scan run that far even when the string lexically has a path, query or fragment, so only the tail of
/// the string is looked at.
fn parse_panic_signature(s: &str) -> String {
  let b = s.as_bytes();
  if b.len() >= 3 && b[b.len() - 3] == b'%' {
    "parse-panics-pct-at-end-of-method-id".to_string()
  } else {
    "parse-panics".to_string()
  }
}

fn json_string(s: &str) -> String {
  Value::String(s.to_string()).to_string()
}

/// Why a method-specific id is outside `*( *idchar ":" ) 1*idchar`, by its first offending byte.
#[derive(Debug, PartialEq, Eq)]
enum IdFlaw {
  /// A `%` that does not start `"%" HEXDIG HEXDIG`.
  Pct,
  /// A byte outside the grammar (or a stray `%`) directly after a well-formed pct-encoded triplet.
  AfterPct,
  /// A byte outside the grammar anywhere else.
  Char,
  /// The last colon-separated piece is empty.
  EndsWithColon,
  /// The id is empty.
  Empty,
}

fn method_id_flaw(id: &str) -> Option<IdFlaw> {
  let b = id.as_bytes();
  let mut i = 0;
  let mut after_triplet = false;
  while i < b.len() {
    let triplet = b[i] == b'%' && i + 2 < b.len() && b[i + 1].is_ascii_hexdigit() && b[i + 2].is_ascii_hexdigit();
    let plain_ok = b[i].is_ascii_alphanumeric() || matches!(b[i], b'.' | b'-' | b'_' | b':');
    if triplet {
      i += 3;
      after_triplet = true;
      continue;
    }
    if !plain_ok {
      return Some(match (after_triplet, b[i]) {
        (true, _) => IdFlaw::AfterPct,
        (false, b'%') => IdFlaw::Pct,
        (false, _) => IdFlaw::Char,
      });
    }
    after_triplet = false;
    i += 1;
  }
  match b.last() {
    None => Some(IdFlaw::Empty),
    Some(b':') => Some(IdFlaw::EndsWithColon),
    Some(_) => None,
  }
}

/// Checks of the DID part that apply to `CoreDID` and to `DIDUrl::did()` alike.
fn did_components(method: &str, method_id: &str, via: &str, obs: &mut Obs) -> CheckResult {
  vensure!(
    obs,
    syn::is_method_name(method),
    "method-name-not-abnf",
    "{via}: method {method:?} is not 1*( %x61-7A / DIGIT )"
  );
  let flaw = method_id_flaw(method_id);
  // The classifier and the recogniser are written separately; they must agree on validity.
  if flaw.is_none() != syn::is_method_specific_id(method_id) {
    return Err(Viol::fixture(format!("harness: method-id classifier and recogniser disagree on {method_id:?}")));
  }
  match flaw {
    None => {}
    Some(IdFlaw::Pct) => vfail!(
      obs,
      "method-id-pct-not-two-hexdig",
      "{via}: method-specific id {method_id:?} contains a '%' that is not followed by two hex digits"
    ),
    Some(IdFlaw::AfterPct) => vfail!(
      obs,
      "pct-triplet-swallows-next-char",
      "{via}: method-specific id {method_id:?} has a character outside the grammar directly after a pct-encoded triplet"
    ),
    Some(IdFlaw::EndsWithColon) => vfail!(
      obs,
      "method-id-ends-with-colon",
      "{via}: method-specific id {method_id:?} ends with ':' (grammar: *( *idchar \":\" ) 1*idchar)"
    ),
    Some(IdFlaw::Char) | Some(IdFlaw::Empty) => vfail!(
      obs,
      "method-id-not-abnf",
      "{via}: method-specific id {method_id:?} is not in *( *idchar \":\" ) 1*idchar"
    ),
  }
  Ok(())
}

/// Everything the statement promises about a `CoreDID` that was accepted from the string `s`.
fn core_battery(did: &CoreDID, s: &str, via: &str, obs: &mut Obs) -> CheckResult {
  if has_blank_edge(s) {
    // Every later check would only restate this; the components of such a value are shifted garbage.
    return obs.fail(
      "coredid-surrounding-blank-accepted",
      format!(
        "{via}: {s:?} accepted as a DID; method={:?} method_id={:?} as_str={:?}",
        did.method(),
        did.method_id(),
        did.as_str()
      ),
    );
  }
  let forms = match catch(|| {
    let as_ref: &str = did.as_ref();
    (
      did.as_str().to_string(),
      did.to_string(),
      String::from(did.clone()),
      did.clone().into_string(),
      as_ref.to_string(),
      did.to_json().map_err(|e| e.to_string()),
      did.scheme().to_string(),
      did.authority().to_string(),
      did.method().to_string(),
      did.method_id().to_string(),
    )
  }) {
    Ok(f) => f,
    Err(p) => return obs.fail("coredid-accessor-panics", format!("{via}: accessor of accepted {s:?} panicked: {}", p.msg)),
  };
  let (as_str, display, into_string, into_string2, as_ref, json, scheme, authority, method, method_id) = forms;
  vensure!(
    obs,
    as_str == s && display == s && into_string == s && into_string2 == s && as_ref == s && json.as_deref() == Ok(json_string(s).as_str()),
    "coredid-string-form-not-verbatim",
    "{via}: accepted {s:?} but as_str={as_str:?} Display={display:?} String::from={into_string:?} AsRef={as_ref:?} json={json:?}"
  );
  // A delimiter inside what the library calls the method-specific id is a flaw of the id scan
  // (classified by `did_components`), not a URL part that was let through.
  let swallowed_delimiter = method_id.contains(['/', '?', '#']);
  let carries_url_part = s.contains(['/', '?', '#']);
  if swallowed_delimiter {
    obs.label("core-accepted-delimiter-inside-id");
  } else if carries_url_part {
    obs.label("core-accepted-with-url-part");
    vfail!(
      obs,
      "coredid-carries-url-part",
      "{via}: {s:?} accepted as a plain DID although it has a path, query or fragment (method_id={method_id:?})"
    );
  } else {
    let recomposed = format!("did:{method}:{method_id}");
    vensure!(
      obs,
      recomposed == s && scheme == "did" && authority == format!("{method}:{method_id}"),
      "coredid-components-do-not-recompose",
      "{via}: accepted {s:?} but scheme={scheme:?} method={method:?} method_id={method_id:?} authority={authority:?}"
    );
  }
  did_components(&method, &method_id, via, obs)?;
  match attempt(|| CoreDID::parse(&as_str)) {
    Attempt::Accepted(again) => vensure!(
      obs,
      &again == did && again.as_str() == as_str && again.cmp(did) == Ordering::Equal && hash_of(&again) == hash_of(did),
      "coredid-reparse-differs",
      "{via}: parse(to_string()) of {s:?} gives {:?}",
      again.as_str()
    ),
    Attempt::Rejected(e) => vfail!(obs, "coredid-reparse-differs", "{via}: own string form {as_str:?} is rejected: {e}"),
    Attempt::Panicked(m) => vfail!(obs, parse_panic_signature(&as_str), "{via}: parsing own string form {as_str:?} panicked: {m}"),
  }
  Ok(())
}

/// How a DID URL whose string form differs from the accepted input `s` is classified. `did_part` is the
/// library's own idea of the DID inside `s`; what follows it is split lexically into path, query, fragment.
fn non_verbatim_signature(s: &str, did_part: &str) -> &'static str {
  let relative = s.strip_prefix(did_part).unwrap_or("");
  match syn::split(&format!("did:m:1{relative}")) {
    Some(p) if p.query == Some("") || p.fragment == Some("") => "empty-query-or-fragment-not-verbatim",
    Some(p) if p.query.is_some_and(|q| q.starts_with('?')) => "query-leading-question-mark-not-verbatim",
    _ => "didurl-string-form-not-verbatim",
  }
}

/// Everything the statement promises about a `DIDUrl` that was accepted from the string `s`.
fn url_battery(u: &DIDUrl, s: &str, via: &str, obs: &mut Obs) -> CheckResult {
  if has_blank_edge(s) {
    return obs.fail(
      "didurl-surrounding-blank-accepted",
      format!("{via}: {s:?} accepted as a DID URL; string form {:?}", u.to_string()),
    );
  }
  let forms = match catch(|| {
    (
      u.to_string(),
      String::from(u.clone()),
      u.to_json().map_err(|e| e.to_string()),
      u.did().as_str().to_string(),
      u.did().method().to_string(),
      u.did().method_id().to_string(),
      u.path().map(str::to_string),
      u.query().map(str::to_string),
      u.fragment().map(str::to_string),
      u.url().to_string(),
    )
  }) {
    Ok(f) => f,
    Err(p) => return obs.fail("didurl-accessor-panics", format!("{via}: accessor of accepted {s:?} panicked: {}", p.msg)),
  };
  let (display, into_string, json, did_str, method, method_id, path, query, fragment, relative) = forms;
  let verbatim = display == s && into_string == s && json.as_deref() == Ok(json_string(s).as_str());
  if !verbatim {
    obs.fail(
      non_verbatim_signature(s, &did_str),
      format!("{via}: accepted {s:?} but Display={display:?} String::from={into_string:?} json={json:?}"),
    )?;
  }
  // When the difference above is a tolerated known finding, the remaining clauses are checked against
  // the value's own string form so that they still say something.
  let target: &str = if verbatim { s } else { &display };
  let recomposed = syn::recompose(&method, &method_id, path.as_deref().unwrap_or(""), query.as_deref(), fragment.as_deref());
  vensure!(
    obs,
    recomposed == target && format!("{did_str}{relative}") == target,
    "didurl-components-do-not-recompose",
    "{via}: {target:?} has did={did_str:?} method={method:?} method_id={method_id:?} path={path:?} query={query:?} fragment={fragment:?} url()={relative:?}"
  );
  did_components(&method, &method_id, via, obs)?;
  vensure!(
    obs,
    (method_id.contains(['/', '?', '#']) || !did_str.contains(['/', '?', '#'])) && did_str == format!("did:{method}:{method_id}"),
    "didurl-did-part-carries-url-part",
    "{via}: did() of {target:?} is {did_str:?}"
  );
  vensure!(
    obs,
    path.as_deref().is_none_or(syn::is_path_abempty),
    "didurl-path-not-abnf",
    "{via}: path {path:?} of {target:?} is not path-abempty"
  );
  vensure!(
    obs,
    query.as_deref().is_none_or(syn::is_query),
    "didurl-query-not-abnf",
    "{via}: query {query:?} of {target:?} is not in the query production"
  );
  vensure!(
    obs,
    fragment.as_deref().is_none_or(syn::is_fragment),
    "didurl-fragment-not-abnf",
    "{via}: fragment {fragment:?} of {target:?} is not in the fragment production"
  );
  let differs = reparse_signature(&display, query.as_deref(), "didurl-reparse-differs".to_string());
  match attempt(|| DIDUrl::parse(&display)) {
    Attempt::Accepted(again) => {
      vensure!(
        obs,
        &again == u && again.to_string() == display,
        differs,
        "{via}: parse(to_string()) of {s:?} gives {:?}",
        again.to_string()
      );
      pair_laws(&again, u, obs)?;
    }
    Attempt::Rejected(e) => vfail!(obs, differs, "{via}: own string form {display:?} is rejected: {e}"),
    Attempt::Panicked(m) => vfail!(obs, parse_panic_signature(&display), "{via}: parsing own string form {display:?} panicked: {m}"),
  }
  Ok(())
}

/// A well-formed pct-encoded triplet directly followed by one of the delimiters `/ ? #`.
fn has_pct_then_delimiter(s: &str) -> bool {
  let b = s.as_bytes();
  (0..b.len().saturating_sub(3)).any(|i| b[i] == b'%' && b[i + 1].is_ascii_hexdigit() && b[i + 2].is_ascii_hexdigit() && matches!(b[i + 3], b'/' | b'?' | b'#'))
}

/// Signature for "the string form `text` of a value does not parse back to that value": two causes that
/// have their own findings are recognised from the value itself, everything else gets `default`.
fn reparse_signature(text: &str, query: Option<&str>, default: String) -> String {
  // the dependency's mis-scan after a pct-encoded triplet explains the failure whatever else the value contains
  if has_pct_then_delimiter(text) {
    "pct-then-delimiter-does-not-reparse".to_string()
  } else if query.is_some_and(|q| q.starts_with('?')) {
    "query-leading-question-mark-does-not-reparse".to_string()
  } else {
    default
  }
}

/// Agreement of `==`, `cmp`, `partial_cmp` and `Hash` on one pair (both directions).
fn pair_laws(a: &DIDUrl, b: &DIDUrl, obs: &mut Obs) -> CheckResult {
  let eq = a == b;
  let ord = a.cmp(b);
  vensure!(obs, eq == (b == a), "didurl-eq-not-symmetric", "{a} == {b} is {eq} but the converse is {}", b == a);
  vensure!(
    obs,
    eq == (ord == Ordering::Equal),
    "didurl-eq-ord-disagree",
    "{a} == {b} is {eq} but cmp gives {ord:?}"
  );
  vensure!(
    obs,
    a.partial_cmp(b) == Some(ord) && b.partial_cmp(a) == Some(b.cmp(a)),
    "didurl-partial-cmp-disagrees",
    "partial_cmp({a}, {b}) = {:?}, cmp = {ord:?}",
    a.partial_cmp(b)
  );
  vensure!(
    obs,
    b.cmp(a) == ord.reverse(),
    "didurl-ord-not-antisymmetric",
    "cmp({a}, {b}) = {ord:?} but cmp({b}, {a}) = {:?}",
    b.cmp(a)
  );
  vensure!(
    obs,
    !eq || hash_of(a) == hash_of(b),
    "didurl-eq-hash-disagree",
    "{a} == {b} but their hashes differ"
  );
  // the relative part and the DID carry comparison and hashing impls of their own: the same laws, and a DID URL is
  // equal to another exactly when both of its parts are
  let (ra, rb) = (a.url(), b.url());
  let (req, rord) = (ra == rb, ra.cmp(rb));
  vensure!(
    obs,
    req == (rb == ra) && req == (rord == Ordering::Equal) && rb.cmp(ra) == rord.reverse() && ra.partial_cmp(rb) == Some(rord),
    "relative-url-eq-ord-disagree",
    "relative parts {ra} and {rb}: == is {req}, cmp {rord:?}, reverse cmp {:?}",
    rb.cmp(ra)
  );
  vensure!(obs, !req || hash_of(ra) == hash_of(rb), "relative-url-eq-hash-disagree", "relative parts {ra} == {rb} but their hashes differ");
  let (da, db) = (a.did(), b.did());
  let deq = da == db;
  vensure!(
    obs,
    deq == (da.cmp(db) == Ordering::Equal) && (!deq || hash_of(da) == hash_of(db)),
    "did-eq-ord-hash-disagree",
    "DIDs {da} and {db}: == is {deq}, cmp {:?}",
    da.cmp(db)
  );
  vensure!(
    obs,
    eq == (req && deq),
    "didurl-eq-not-componentwise",
    "{a} == {b} is {eq} although their DIDs are equal: {deq} and their relative parts are equal: {req}"
  );
  Ok(())
}

// ---------------------------------------------------------------------------------------------
// Parse
// ---------------------------------------------------------------------------------------------

fn check_parse(s: &str, url: bool, obs: &mut Obs) -> CheckResult {
  let reference = syn::parse_did_url(s);
  obs.label(match &reference {
    Some(p) if p.has_url_part() => "ref-did-url",
    Some(_) => "ref-did",
    None => "ref-invalid",
  });
  let interesting = |p: &syn::Parts| p.has_url_part() || p.method_id.contains('%') || p.method_id.matches(':').count() >= 2;
  let json = json_string(s);
  let mut accepted = false;
  let mut panicked = false;
  if url {
    let routes: [(&str, Attempt<DIDUrl>); 4] = [
      ("DIDUrl::parse", attempt(|| DIDUrl::parse(s))),
      ("DIDUrl::from_str", attempt(|| DIDUrl::from_str(s))),
      ("DIDUrl::try_from(String)", attempt(|| DIDUrl::try_from(s.to_string()))),
      ("DIDUrl::from_json", attempt(|| DIDUrl::from_json(&json))),
    ];
    for (via, r) in &routes {
      match r {
        Attempt::Accepted(u) => {
          accepted = true;
          url_battery(u, s, via, obs)?;
        }
        Attempt::Panicked(m) => {
          panicked = true;
          vfail!(obs, parse_panic_signature(s), "{via}({s:?}) panicked: {m}");
        }
        Attempt::Rejected(_) => {}
      }
    }
  } else {
    let routes: [(&str, Attempt<CoreDID>); 6] = [
      ("CoreDID::parse", attempt(|| CoreDID::parse(s))),
      ("CoreDID::from_str", attempt(|| CoreDID::from_str(s))),
      ("CoreDID::try_from(&str)", attempt(|| CoreDID::try_from(s))),
      ("CoreDID::try_from(String)", attempt(|| CoreDID::try_from(s.to_string()))),
      (
        "CoreDID::try_from(BaseDIDUrl)",
        // The `BaseDIDUrl` is produced by the dependency's own parser, called here by the harness: a panic in that
        // call is not behaviour of the library under test, the route is simply unavailable for this input.
        match catch(|| BaseDIDUrl::parse(s)) {
          Err(_) => Attempt::Rejected("did_url_parser panicked before identity_did was involved".to_string()),
          Ok(Err(e)) => Attempt::Rejected(e.to_string()),
          Ok(Ok(b)) => attempt(|| CoreDID::try_from(b).map_err(|e| e.to_string())),
        },
      ),
      ("CoreDID::from_json", attempt(|| CoreDID::from_json(&json))),
    ];
    for (via, r) in &routes {
      match r {
        Attempt::Accepted(did) => {
          accepted = true;
          core_battery(did, s, via, obs)?;
        }
        Attempt::Panicked(m) => {
          panicked = true;
          vfail!(obs, parse_panic_signature(s), "{via}({s:?}) panicked: {m}");
        }
        Attempt::Rejected(_) => {}
      }
    }
  }
  if panicked {
    obs.label(if reference.is_some() { "parse-panicked-on-ref-valid" } else { "parse-panicked" });
  }
  obs.label(match (url, accepted) {
    (true, true) => "url-accepted",
    (true, false) => "url-rejected",
    (false, true) => "core-accepted",
    (false, false) => "core-rejected",
  });
  match &reference {
    Some(p) if accepted && interesting(p) => {
      obs.nontrivial();
      obs.label("accepted-nontrivial");
    }
    Some(_) if accepted => {}
    // Conformance gap in the harmless direction: recorded, never a violation.
    Some(p) if url || !p.has_url_part() => {
      obs.nontrivial();
      obs.label("rejected-but-ref-valid");
    }
    Some(_) => {}
    None if accepted => {
      obs.nontrivial();
      obs.label("accepted-but-ref-invalid");
    }
    None => {}
  }
  Ok(())
}

// ---------------------------------------------------------------------------------------------
// Setters and join
// ---------------------------------------------------------------------------------------------

fn check_set_did(base: &str, op: DidOp, value: &str, obs: &mut Obs) -> CheckResult {
  if !syn::is_did(base) {
    obs.discard("base-not-a-reference-did");
    return Ok(());
  }
  let mut did = match attempt(|| CoreDID::parse(base)) {
    Attempt::Accepted(d) => d,
    Attempt::Rejected(_) => {
      obs.discard("base-rejected");
      return Ok(());
    }
    Attempt::Panicked(_) => {
      obs.discard("base-parse-panicked");
      return Ok(());
    }
  };
  let name = match op {
    DidOp::MethodName => "set-method-name",
    DidOp::MethodId => "set-method-id",
  };
  // Non-trivial: the value is in the language of the *other* component, or the library accepts it.
  let valid_here = match op {
    DidOp::MethodName => syn::is_method_name(value),
    DidOp::MethodId => syn::is_method_specific_id(value),
  };
  let valid_elsewhere = syn::is_method_name(value) || syn::is_method_specific_id(value) || syn::is_query(value);
  obs.label(if valid_here { "value-ref-valid" } else { "value-ref-invalid" });
  let outcome = catch(|| match op {
    DidOp::MethodName => did.set_method_name(value),
    DidOp::MethodId => did.set_method_id(value),
  });
  match outcome {
    Err(p) => vfail!(obs, format!("{name}-panics"), "{name}({value:?}) on {base:?} panicked: {}", p.msg),
    Ok(Err(_)) => {
      obs.label("set-rejected");
      if valid_elsewhere && !valid_here {
        obs.nontrivial();
      }
      vensure!(
        obs,
        did.as_str() == base,
        format!("{name}-error-modifies-value"),
        "{name}({value:?}) on {base:?} failed but the value is now {:?}",
        did.as_str()
      );
    }
    Ok(Ok(())) => {
      obs.label("set-ok");
      obs.nontrivial();
      let text = did.to_string();
      match attempt(|| CoreDID::parse(&text)) {
        Attempt::Panicked(m) => {
          vfail!(
            obs,
            parse_panic_signature(&text),
            "{name}({value:?}) on {base:?} succeeds and gives {text:?}; parsing that string panics: {m}"
          );
        }
        Attempt::Rejected(e) => {
          let sig = if value.is_empty() {
            format!("{name}-accepts-empty")
          } else if op == DidOp::MethodId && syn::has_malformed_pct(value) {
            format!("{name}-pct-not-two-hexdig")
          } else {
            format!("{name}-result-does-not-reparse")
          };
          vfail!(obs, sig, "{name}({value:?}) on {base:?} succeeds and gives {text:?}, which does not parse: {e}");
        }
        Attempt::Accepted(again) => {
          vensure!(
            obs,
            again == did && again.as_str() == text && again.method() == did.method() && again.method_id() == did.method_id(),
            format!("{name}-result-reparses-differently"),
            "{name}({value:?}) on {base:?} gives {text:?} (method {:?}, id {:?}); re-parsed: method {:?}, id {:?}",
            did.method(),
            did.method_id(),
            again.method(),
            again.method_id()
          );
          // The result is itself a string accepted as a DID.
          core_battery(&again, &text, name, obs)?;
        }
      }
    }
  }
  Ok(())
}

/// Applies `op`; `Ok(Some(v))` is the value produced by a join, `Ok(None)` means `u` was updated in place.
fn apply_url_op(u: &mut DIDUrl, op: UrlOp, value: Option<&str>) -> Result<Option<DIDUrl>, identity_did::Error> {
  match op {
    UrlOp::Path => u.set_path(value).map(|_| None),
    UrlOp::Query => u.set_query(value).map(|_| None),
    UrlOp::Fragment => u.set_fragment(value).map(|_| None),
    UrlOp::RelPath | UrlOp::RelQuery | UrlOp::RelFragment => {
      let mut rel: RelativeDIDUrl = u.url().clone();
      let before = rel.clone();
      let r = match op {
        UrlOp::RelPath => rel.set_path(value),
        UrlOp::RelQuery => rel.set_query(value),
        _ => rel.set_fragment(value),
      };
      match r {
        Ok(()) => {
          u.set_url(rel);
          Ok(None)
        }
        Err(e) => {
          // A failed setter on the detached value must leave it unchanged too: install it so that the
          // caller's "unchanged" comparison sees any damage.
          if rel != before || rel.to_string() != before.to_string() {
            u.set_url(rel);
          }
          Err(e)
        }
      }
    }
    UrlOp::Join => u.join(value.unwrap_or("")).map(Some),
    UrlOp::DidJoin => u.did().clone().join(value.unwrap_or("")).map(Some),
  }
}

fn check_set_url(base: &str, op: UrlOp, value: Option<&str>, obs: &mut Obs) -> CheckResult {
  if !syn::is_did_url(base) {
    obs.discard("base-not-a-reference-did-url");
    return Ok(());
  }
  let mut u = match attempt(|| DIDUrl::parse(base)) {
    Attempt::Accepted(u) => u,
    Attempt::Rejected(_) => {
      obs.discard("base-rejected");
      return Ok(());
    }
    Attempt::Panicked(_) => {
      obs.discard("base-parse-panicked");
      return Ok(());
    }
  };
  if u.to_string() != base {
    // Bases that already exhibit a non-verbatim finding are covered by the Parse cases.
    obs.discard("base-not-verbatim");
    return Ok(());
  }
  let name = op.name();
  let before = u.clone();
  // For DID::join the starting point is the DID part alone.
  let start_text = if op == UrlOp::DidJoin { u.did().to_string() } else { base.to_string() };
  if let Some(v) = value {
    let body = v.strip_prefix(['?', '#']).unwrap_or(v);
    let fits_other = match op {
      UrlOp::Path | UrlOp::RelPath => !syn::is_path_abempty(v) && (syn::is_query(body) || syn::is_method_specific_id(v)),
      UrlOp::Query | UrlOp::RelQuery | UrlOp::Fragment | UrlOp::RelFragment => !syn::is_query(body) || v.starts_with('/'),
      UrlOp::Join | UrlOp::DidJoin => syn::is_did_url(&format!("did:m:1{v}")),
    };
    if fits_other {
      obs.nontrivial();
      obs.label("value-for-other-component");
    }
  }
  let outcome = catch(|| apply_url_op(&mut u, op, value));
  match outcome {
    Err(p) => vfail!(obs, format!("{name}-panics"), "{name}({value:?}) on {start_text:?} panicked: {}", p.msg),
    Ok(Err(_)) => {
      obs.label("set-rejected");
      vensure!(
        obs,
        u == before && u.to_string() == base,
        format!("{name}-error-modifies-value"),
        "{name}({value:?}) on {base:?} failed but the value is now {:?}",
        u.to_string()
      );
    }
    Ok(Ok(produced)) => {
      obs.label("set-ok");
      obs.nontrivial();
      if produced.is_some() {
        vensure!(
          obs,
          u == before && u.to_string() == base,
          format!("{name}-modifies-receiver"),
          "{name}({value:?}) changed its receiver {base:?} to {:?}",
          u.to_string()
        );
      }
      let result: DIDUrl = produced.unwrap_or(u);
      let text = result.to_string();
      match attempt(|| DIDUrl::parse(&text)) {
        Attempt::Panicked(m) => {
          vfail!(
            obs,
            parse_panic_signature(&text),
            "{name}({value:?}) on {start_text:?} succeeds and gives {text:?}; parsing that string panics: {m}"
          );
        }
        Attempt::Rejected(e) => {
          let sig = reparse_signature(&text, result.query(), format!("{name}-result-does-not-reparse"));
          vfail!(obs, sig, "{name}({value:?}) on {start_text:?} succeeds and gives {text:?}, which does not parse: {e}");
        }
        Attempt::Accepted(again) => {
          vensure!(
            obs,
            again == result && again.to_string() == text,
            reparse_signature(&text, result.query(), format!("{name}-result-reparses-differently")),
            "{name}({value:?}) on {start_text:?} gives {text:?}; re-parsed {:?} (path {:?}/{:?}, query {:?}/{:?}, fragment {:?}/{:?})",
            again.to_string(),
            result.path(),
            again.path(),
            result.query(),
            again.query(),
            result.fragment(),
            again.fragment()
          );
          pair_laws(&again, &result, obs)?;
          // The result is itself a string accepted as a DID URL.
          url_battery(&again, &text, name, obs)?;
        }
      }
    }
  }
  Ok(())
}

// ---------------------------------------------------------------------------------------------
// Order laws
// ---------------------------------------------------------------------------------------------

fn check_order(a: &str, b: &str, c: &str, obs: &mut Obs) -> CheckResult {
  let parse = |s: &str| attempt(|| DIDUrl::parse(s));
  let (Attempt::Accepted(ua), Attempt::Accepted(ub), Attempt::Accepted(uc)) = (parse(a), parse(b), parse(c)) else {
    obs.discard("operand-not-accepted");
    return Ok(());
  };
  if !(a == b && b == c) {
    obs.nontrivial();
  }
  let urls = [&ua, &ub, &uc];
  let mut any_equal = false;
  for x in urls {
    for y in urls {
      pair_laws(x, y, obs)?;
      any_equal |= !std::ptr::eq(x, y) && x == y;
    }
  }
  for x in urls {
    let copy = x.clone();
    vensure!(obs, &copy == x && copy.cmp(x) == Ordering::Equal && hash_of(&copy) == hash_of(x), "didurl-eq-not-reflexive", "{x} is not equal to its own clone");
  }
  if any_equal {
    obs.label("some-pair-equal");
  }
  // Transitivity over every arrangement of the triple.
  for (x, y, z) in [(0, 1, 2), (0, 2, 1), (1, 0, 2), (1, 2, 0), (2, 0, 1), (2, 1, 0)] {
    let (x, y, z) = (urls[x], urls[y], urls[z]);
    if x <= y && y <= z {
      vensure!(obs, x <= z, "didurl-ord-not-transitive", "{x} <= {y} <= {z} but not {x} <= {z}");
      if x < y || y < z {
        vensure!(obs, x < z, "didurl-ord-not-transitive", "{x} <= {y} <= {z} with one strict step but not {x} < {z}");
        obs.label("strict-chain");
      }
    }
    if x == y && y == z {
      vensure!(obs, x == z, "didurl-eq-not-transitive", "{x} == {y} == {z} but not {x} == {z}");
    }
  }
  Ok(())
}

// ---------------------------------------------------------------------------------------------
// did:jwk
// ---------------------------------------------------------------------------------------------

const COMMON_MEMBERS: [&str; 8] = ["kty", "use", "key_ops", "alg", "kid", "x5c", "x5t", "x5t#S256"];

fn type_members(kty: &str) -> &'static [&'static str] {
  match kty {
    "OKP" => &["crv", "x", "d"],
    "EC" => &["crv", "x", "y", "d"],
    "RSA" => &["n", "e", "d", "p", "q", "dp", "dq", "qi"],
    "oct" => &["k"],
    _ => &[],
  }
}

/// A JWK object that only uses registered members of its own key type with string (or string-array)
/// values: for these the library's JWK must serialise to exactly the encoded object.
fn is_plain_jwk(v: &Value) -> bool {
  let Some(obj) = v.as_object() else { return false };
  let Some(kty) = obj.get("kty").and_then(Value::as_str) else {
    return false;
  };
  let own = type_members(kty);
  obj.iter().all(|(k, val)| {
    let known = COMMON_MEMBERS.contains(&k.as_str()) || own.contains(&k.as_str());
    let shape = match k.as_str() {
      "key_ops" | "x5c" => val.as_array().is_some_and(|a| a.iter().all(Value::is_string)),
      _ => val.is_string(),
    };
    known && shape
  })
}

fn check_jwk(s: &str, obs: &mut Obs) -> CheckResult {
  let json = json_string(s);
  let routes: [(&str, Attempt<DIDJwk>); 6] = [
    ("DIDJwk::parse", attempt(|| DIDJwk::parse(s))),
    ("DIDJwk::from_str", attempt(|| DIDJwk::from_str(s))),
    ("DIDJwk::try_from(&str)", attempt(|| DIDJwk::try_from(s))),
    ("DIDJwk::from_json", attempt(|| DIDJwk::from_json(&json))),
    ("DIDJwk::from_json_value", attempt(|| DIDJwk::from_json_value(Value::String(s.to_string())))),
    // a CoreDID that was obtained independently, converted
    (
      "DIDJwk::try_from(CoreDID)",
      attempt(|| CoreDID::parse(s).map_err(|e| e.to_string()).and_then(|d| DIDJwk::try_from(d).map_err(|e| e.to_string()))),
    ),
  ];
  // Reference reading of the string: a plain DID of method "jwk" whose id is base64url of a JSON object with "kty".
  let reference: Option<Value> = syn::parse_did(s)
    .filter(|p| p.method == "jwk")
    .and_then(|p| util::b64url_decode_strict(p.method_id.as_bytes()))
    .and_then(|bytes| serde_json::from_slice::<Value>(&bytes).ok())
    .filter(|v| v.get("kty").is_some_and(Value::is_string));
  obs.label(if reference.is_some() { "ref-did-jwk" } else { "ref-not-did-jwk" });
  let mut accepted = false;
  for (via, r) in &routes {
    let did = match r {
      Attempt::Accepted(d) => d,
      Attempt::Rejected(_) => continue,
      Attempt::Panicked(m) => {
        obs.label("parse-panicked");
        vfail!(obs, parse_panic_signature(s), "{via}({s:?}) panicked: {m}");
        continue;
      }
    };
    accepted = true;
    let core: &CoreDID = did.as_ref();
    core_battery(core, s, via, obs)?;
    if has_blank_edge(s) {
      continue; // reported (and possibly tolerated) by the battery; the lexical split below would be off
    }
    vensure!(
      obs,
      did.to_string() == core.as_str() && String::from(did.clone()) == core.as_str(),
      "didjwk-string-form-differs",
      "{via}: DIDJwk prints {:?} but wraps {:?}",
      did.to_string(),
      core.as_str()
    );
    vensure!(obs, did.method() == "jwk", "didjwk-method-not-jwk", "{via}: accepted {s:?} with method {:?}", did.method());
    let jwk = match catch(|| did.jwk()) {
      Ok(j) => j,
      Err(p) => {
        vfail!(obs, "didjwk-jwk-panics", "{via}: jwk() of accepted {s:?} panicked: {}", p.msg);
        continue;
      }
    };
    // The method-specific id by the harness' own split of the input.
    let Some(parts) = syn::split(s) else { continue };
    let Some(bytes) = util::b64url_decode_lenient(parts.method_id.as_bytes()) else {
      obs.label("accepted-id-not-base64url-for-reference");
      continue;
    };
    let Ok(encoded) = serde_json::from_slice::<Value>(&bytes) else {
      obs.label("accepted-id-not-json-for-reference");
      continue;
    };
    let got = fixture!(serde_json::to_value(&jwk), "serialising the returned Jwk");
    let Some(got_obj) = got.as_object() else {
      vfail!(obs, "didjwk-jwk-differs-from-encoded", "{via}: jwk() of {s:?} serialises to a non-object {got}");
      continue;
    };
    // (1) nothing invented or altered: every member of the returned JWK is the encoded member.
    for (k, v) in got_obj {
      if k == "x5u" {
        continue; // URL values may be normalised; not compared
      }
      vensure!(
        obs,
        encoded.get(k) == Some(v),
        "didjwk-jwk-differs-from-encoded",
        "{via}: jwk() of {s:?} has {k}={v} but the encoded JSON has {:?}",
        encoded.get(k)
      );
    }
    // (2) nothing lost for JWKs made of registered members only.
    if is_plain_jwk(&encoded) {
      obs.label("accepted-plain-jwk");
      obs.nontrivial();
      vensure!(
        obs,
        got == encoded,
        "didjwk-jwk-differs-from-encoded",
        "{via}: jwk() of {s:?} is {got} but the encoded JSON is {encoded}"
      );
    }
  }
  obs.label(if accepted { "jwk-accepted" } else { "jwk-rejected" });
  if !accepted && reference.as_ref().is_some_and(is_plain_jwk) {
    obs.label("jwk-rejected-but-ref-plain");
  }
  Ok(())
}

pub fn check(case: &Case, obs: &mut Obs) -> CheckResult {
  match case {
    Case::Parse { s, url } => check_parse(s, *url, obs),
    Case::SetDid { base, op, value } => check_set_did(base, *op, value, obs),
    Case::SetUrl { base, op, value } => check_set_url(base, *op, value.as_deref(), obs),
    Case::Order { a, b, c } => check_order(a, b, c, obs),
    Case::Jwk { s } => check_jwk(s, obs),
  }
}

// ---------------------------------------------------------------------------------------------
// Enumerators
// ---------------------------------------------------------------------------------------------

/// Prefixes after which every short word is tried. The first gets the full depth, the others one less.
const MAIN_PREFIX: &str = "did:m:";
const OTHER_PREFIXES: [&str; 15] = [
  "DID:m:", "did::", " did:m:", "\tdid:m:", "did:M:", "did:", "did:m", "", "did:m:a", "did:m:%", "did:m:%4", "did:m:a/", "did:m:a?",
  "did:m:a#", "did:m:a/b?c#",
];

fn parse_grid(depth: u32) -> impl Iterator<Item = Case> {
  let main = gen::words(&gen::ALPHABET, depth).map(|w| format!("{MAIN_PREFIX}{w}"));
  let others = OTHER_PREFIXES
    .into_iter()
    .flat_map(move |p| gen::words(&gen::ALPHABET, depth - 1).map(move |w| format!("{p}{w}")));
  main
    .chain(others)
    .flat_map(|s| [Case::Parse { s: s.clone(), url: false }, Case::Parse { s, url: true }])
}

const DID_BASES: [&str; 2] = ["did:example:123", "did:m:a:b%3Ac"];
const URL_BASES: [&str; 2] = ["did:example:123", "did:m:a:b/p/q?x=1#f"];

fn set_grid(depth: u32) -> impl Iterator<Item = Case> {
  let did_cases = DID_BASES.into_iter().flat_map(move |base| {
    [DidOp::MethodName, DidOp::MethodId].into_iter().flat_map(move |op| {
      gen::words(&gen::ALPHABET, depth).map(move |value| Case::SetDid {
        base: base.to_string(),
        op,
        value,
      })
    })
  });
  let url_cases = URL_BASES.into_iter().flat_map(move |base| {
    URL_OPS.into_iter().flat_map(move |op| {
      std::iter::once(None)
        .chain(gen::words(&gen::ALPHABET, depth).map(Some))
        .map(move |value| Case::SetUrl {
          base: base.to_string(),
          op,
          value,
        })
    })
  });
  did_cases.chain(url_cases)
}

/// 2 DIDs × 3 paths × 3 queries × 2 fragments = 36 DID URLs; every ordered triple of them.
fn order_pool() -> Vec<String> {
  let mut pool = Vec::new();
  for did in ["did:a:1", "did:a:1:x"] {
    for path in ["", "/a", "/a/b"] {
      for query in ["", "?x", "?y=1"] {
        for fragment in ["", "#f"] {
          pool.push(format!("{did}{path}{query}{fragment}"));
        }
      }
    }
  }
  pool
}

/// DID URLs whose components differ textually although they decode alike (percent-encoding, an empty `=`, a
/// trailing `&`, `+` for a blank): equality, ordering and hashing all have to treat them as the distinct strings
/// they are (or all alike) — 1 DID × 2 paths × 6 queries × 2 fragments = 24 URLs, every ordered triple.
fn order_equivalents_pool() -> Vec<String> {
  let mut pool = Vec::new();
  for path in ["/a", "/%61"] {
    for query in ["?x", "?x=", "?x&", "?%78", "?a+b=1", "?a%20b=1"] {
      for fragment in ["#f", "#%66"] {
        pool.push(format!("did:a:1{path}{query}{fragment}"));
      }
    }
  }
  pool
}

/// DID URLs that differ only in letter case or in the case of percent-encoding hex digits — 3 DIDs × 4 paths ×
/// 2 queries × 2 fragments = 48 URLs, every ordered triple.
fn order_case_twins_pool() -> Vec<String> {
  let mut pool = Vec::new();
  for did in ["did:a:1", "did:a:1:x", "did:a:1:X"] {
    for path in ["/a", "/A", "/%3a", "/%3A"] {
      for query in ["?x", "?X"] {
        for fragment in ["#f", "#F"] {
          pool.push(format!("{did}{path}{query}{fragment}"));
        }
      }
    }
  }
  pool
}

fn order_case_twins_grid() -> impl Iterator<Item = Case> {
  let pool = order_case_twins_pool();
  let n = pool.len();
  (0..n * n * n).map(move |i| Case::Order {
    a: pool[i / (n * n)].clone(),
    b: pool[i / n % n].clone(),
    c: pool[i % n].clone(),
  })
}

fn order_equivalents_grid() -> impl Iterator<Item = Case> {
  let pool = order_equivalents_pool();
  let n = pool.len();
  (0..n * n * n).map(move |i| Case::Order {
    a: pool[i / (n * n)].clone(),
    b: pool[i / n % n].clone(),
    c: pool[i % n].clone(),
  })
}

fn order_grid() -> impl Iterator<Item = Case> {
  let pool = order_pool();
  let n = pool.len();
  (0..n * n * n).map(move |i| Case::Order {
    a: pool[i / (n * n)].clone(),
    b: pool[i / n % n].clone(),
    c: pool[i % n].clone(),
  })
}

// ---------------------------------------------------------------------------------------------
// Strategies
// ---------------------------------------------------------------------------------------------

fn parse_strategy() -> impl Strategy<Value = Case> {
  (gen::maybe_damaged(gen::did_url()), any::<bool>()).prop_map(|(s, url)| Case::Parse { s, url })
}

/// Values offered to the setters: members of every component language, relative references, short
/// adversarial words, damaged variants.
fn segment_strategy() -> impl Strategy<Value = String> {
  let relative = (
    gen::path(),
    prop::option::weighted(0.5, gen::query_body()),
    prop::option::weighted(0.5, gen::query_body()),
  )
    .prop_map(|(p, q, f)| {
      let mut s = p;
      if let Some(q) = q {
        s.push('?');
        s.push_str(&q);
      }
      if let Some(f) = f {
        s.push('#');
        s.push_str(&f);
      }
      s
    });
  let word = prop::collection::vec(prop::sample::select(gen::DAMAGE.to_vec()), 0..=5).prop_map(|v| v.into_iter().collect::<String>());
  gen::maybe_damaged(prop_oneof![
    2 => gen::method_name(),
    3 => gen::method_id(),
    3 => gen::path(),
    2 => gen::query_body(),
    2 => gen::query_body().prop_map(|q| format!("?{q}")),
    2 => gen::query_body().prop_map(|f| format!("#{f}")),
    3 => relative,
    1 => Just("/a/../b/./c".to_string()),
    1 => Just("/..".to_string()),
    2 => word,
  ])
}

/// Starting values for setter cases: mostly tamed (see `gen::tame`), one in five as generated.
fn base_strategy(raw: impl Strategy<Value = String>) -> impl Strategy<Value = String> {
  (raw, 0u8..5).prop_map(|(s, k)| if k == 0 { s } else { gen::tame(&s) })
}

fn set_did_strategy() -> impl Strategy<Value = Case> {
  (base_strategy(gen::did()), prop::sample::select(vec![DidOp::MethodName, DidOp::MethodId]), segment_strategy())
    .prop_map(|(base, op, value)| Case::SetDid { base, op, value })
}

fn set_url_strategy() -> impl Strategy<Value = Case> {
  (
    base_strategy(gen::did_url()),
    prop::sample::select(URL_OPS.to_vec()),
    prop::option::weighted(0.95, segment_strategy()),
  )
    .prop_map(|(base, op, value)| Case::SetUrl { base, op, value })
}

fn order_strategy() -> impl Strategy<Value = Case> {
  // Components from small pools so that equal and nearly-equal operands are frequent, plus free ones.
  let did = prop_oneof![3 => prop::sample::select(vec!["did:a:1", "did:a:2", "did:b:1", "did:a:1:x", "did:a:%31x"]).prop_map(str::to_string), 1 => gen::did()];
  let path = prop_oneof![3 => prop::sample::select(vec!["", "/", "/a", "/b", "/a/b", "/a/"]).prop_map(str::to_string), 1 => gen::path().prop_map(|p| gen::tame(&p))];
  let part = || prop_oneof![3 => prop::sample::select(vec!["x", "y", "x=1", "x?", "/"]).prop_map(str::to_string), 1 => gen::query_body().prop_map(|q| gen::tame(&format!("#{q}"))[1..].to_string())];
  let url = (did, path, prop::option::of(part()), prop::option::of(part())).prop_map(|(d, p, q, f)| {
    let mut s = format!("{d}{p}");
    if let Some(q) = q {
      s.push('?');
      s.push_str(&q);
    }
    if let Some(f) = f {
      s.push('#');
      s.push_str(&f);
    }
    s
  });
  let url = std::sync::Arc::new(url);
  (url.clone(), url.clone(), url, 0u8..8).prop_map(|(a, b, c, alias)| {
    // Force coincidences in some triples.
    let (b, c) = match alias {
      0 => (a.clone(), c),
      1 => (b, a.clone()),
      2 => (b.clone(), b),
      _ => (b, c),
    };
    Case::Order { a, b, c }
  })
}

fn b64_bytes(len: impl Into<prop::collection::SizeRange>) -> impl Strategy<Value = String> {
  prop::collection::vec(any::<u8>(), len).prop_map(|b| util::b64url(&b))
}

/// JSON text of a JWK made of registered members (plus, rarely, an unregistered one).
fn jwk_json_strategy() -> impl Strategy<Value = String> {
  let okp = (prop::sample::select(vec!["Ed25519", "X25519", "Ed448", "X448"]), b64_bytes(32), prop::option::weighted(0.2, b64_bytes(32))).prop_map(
    |(crv, x, d)| {
      let mut m = serde_json::Map::new();
      m.insert("kty".into(), "OKP".into());
      m.insert("crv".into(), crv.into());
      m.insert("x".into(), x.into());
      if let Some(d) = d {
        m.insert("d".into(), d.into());
      }
      m
    },
  );
  let ec = (
    prop::sample::select(vec![("P-256", 32usize), ("P-384", 48), ("P-521", 66), ("secp256k1", 32)]),
    any::<[u8; 32]>(),
    prop::option::weighted(0.2, b64_bytes(32)),
  )
    .prop_map(|((crv, len), seed, d)| {
      let coord = |salt: u8| util::b64url(&seed.iter().cycle().take(len).map(|b| b ^ salt).collect::<Vec<u8>>());
      let mut m = serde_json::Map::new();
      m.insert("kty".into(), "EC".into());
      m.insert("crv".into(), crv.into());
      m.insert("x".into(), coord(0).into());
      m.insert("y".into(), coord(0x5a).into());
      if let Some(d) = d {
        m.insert("d".into(), d.into());
      }
      m
    });
  let rsa = (b64_bytes(16..=64), prop::option::weighted(0.2, b64_bytes(16))).prop_map(|(n, d)| {
    let mut m = serde_json::Map::new();
    m.insert("kty".into(), "RSA".into());
    m.insert("n".into(), n.into());
    m.insert("e".into(), "AQAB".into());
    if let Some(d) = d {
      m.insert("d".into(), d.into());
    }
    m
  });
  let oct = b64_bytes(1..=48).prop_map(|k| {
    let mut m = serde_json::Map::new();
    m.insert("kty".into(), "oct".into());
    m.insert("k".into(), k.into());
    m
  });
  let extras = (
    prop::option::weighted(0.3, prop::sample::select(vec!["sig", "enc"])),
    prop::option::weighted(0.3, prop::sample::subsequence(vec!["sign", "verify", "encrypt", "decrypt", "wrapKey", "unwrapKey", "deriveKey", "deriveBits"], 0..=3)),
    prop::option::weighted(0.3, prop::sample::select(vec!["EdDSA", "ES256", "RS256", "HS256", "none"])),
    prop::option::weighted(0.3, "[a-zA-Z0-9#:é \"\\\\-]{0,12}"),
    prop::option::weighted(0.1, b64_bytes(20)),
    prop::option::weighted(0.05, Just(Value::from(7))),
  );
  (prop_oneof![okp, ec, rsa, oct], extras).prop_map(|(mut m, (use_, key_ops, alg, kid, x5t, unknown))| {
    if let Some(u) = use_ {
      m.insert("use".into(), u.into());
    }
    if let Some(ops) = key_ops {
      m.insert("key_ops".into(), Value::from(ops));
    }
    if let Some(a) = alg {
      m.insert("alg".into(), a.into());
    }
    if let Some(k) = kid {
      m.insert("kid".into(), k.into());
    }
    if let Some(t) = x5t {
      m.insert("x5t".into(), t.into());
    }
    if let Some(v) = unknown {
      m.insert("ext".into(), v);
    }
    Value::Object(m).to_string()
  })
}

fn jwk_strategy() -> impl Strategy<Value = Case> {
  let json = prop_oneof![
    8 => jwk_json_strategy(),
    1 => Just("{}".to_string()),
    1 => Just("[]".to_string()),
    1 => Just("{\"kty\":\"OKP\"}".to_string()),
    1 => Just("{\"kty\":\"nope\",\"x\":\"AA\"}".to_string()),
    1 => Just("{\"kty\":\"OKP\",\"crv\":\"Ed25519\",\"x\":\"AA\",\"x\":\"AQ\"}".to_string()),
    1 => Just("not json".to_string()),
    1 => "\\PC{0,20}",
  ];
  let id = (json, 0u8..16, any::<prop::sample::Index>()).prop_map(|(json, variant, idx)| {
    let b64 = util::b64url(json.as_bytes());
    match variant {
      0 => format!("{b64}="),
      1 => {
        // drop one character
        let i = idx.index(b64.len().max(1));
        b64.chars().enumerate().filter(|(k, _)| *k != i).map(|(_, c)| c).collect()
      }
      2 => {
        // standard alphabet instead of url-safe
        b64.replace('-', "+").replace('_', "/")
      }
      3 => format!("{b64}:"),
      4 => format!("{b64}#0"),
      5 => format!("{b64}?x"),
      _ => b64,
    }
  });
  (id, 0u8..20).prop_map(|(id, prefix)| {
    let s = match prefix {
      0 => format!("did:key:{id}"),
      1 => format!("did:JWK:{id}"),
      2 => format!(" did:jwk:{id}"),
      3 => format!("did:jwk:{id}\n"),
      4 => format!("did:jwk:x:{id}"),
      _ => format!("did:jwk:{id}"),
    };
    Case::Jwk { s }
  })
}

pub fn run(ctx: &mut Ctx) {
  let depth = ctx.pick(4, 5);
  ctx.rule = format!(
    "parse: every word over a 23-symbol adversarial alphabet up to length {depth} after 'did:m:' and up to length {} after 15 other prefixes \
     (mutated scheme/method, blanks, and prefixes that place the word inside the id after '%', the path, the query, the fragment), offered to 6 CoreDID and 4 DIDUrl routes; \
     grammar-built DID URLs (30 % with one damaged character or blank wrapping). setters/join: 2 bases × every word up to length {} × \
     set_method_name/set_method_id, 2 bases × 8 URL operations × (None + every word), and random (grammar base, component/relative-reference/garbage value) pairs. \
     order: every triple over 36 DID URLs and random triples with forced coincidences. did:jwk: base64url of generated JWK JSON and of garbage, with damaged ids/prefixes. \
     Oracle: independent did-core/RFC 3986 recogniser, string round trips, own base64url + serde_json::Value for did:jwk. \
     Non-trivial = accepted string whose id has '%' or >= 2 colons or that has a URL part; accepted though the reference rejects it; reference-valid DID URL that DIDUrl rejects; \
     setter/join that succeeds or whose value belongs to another component's language; order triple that is not three copies; accepted plain JWK. Distinct by case bytes.",
    depth - 1,
    depth - 1
  );
  ctx.assume("HEXDIG in pct-encoded is read case-insensitively (ABNF literals are; RFC 3986 §2.1 treats a-f and A-F as equivalent)");
  ctx.assume("'string form' = as_str / Display / Into<String> / AsRef<str> / serde; Debug output is not constrained");
  ctx.assume("a panic of a parse route is reported as a violation with its own signature (parse-panics...): strictly it is C05's subject, but the same panic breaks the C10 clause 'a set or joined value re-parses to itself' and would otherwise end the search; panics of setters, join, accessors and DIDJwk::jwk are C10 violations in their own right");
  ctx.assume("a successful setter/join is only required to produce a value that re-parses to itself (plus the accepted-string clauses for that re-parsed string); that the component equals the argument is not asserted");
  ctx.assume("did:jwk: every member of the returned JWK must equal the encoded member, and JWKs made only of registered members of their own key type must come back exactly; x5u is not compared (URL normalisation); ids the harness' lenient base64url decoder cannot read are only counted");

  ctx.exhaustive("grid", move || parse_grid(depth), check);
  ctx.exhaustive("set-grid", move || set_grid(depth - 1), check);
  ctx.exhaustive("order-grid", order_grid, check);
  ctx.exhaustive("order-equivalents", order_equivalents_grid, check);
  ctx.exhaustive("order-case-twins", order_case_twins_grid, check);
  ctx.proptest("strings", ctx.pick(300_000, 6_000_000), parse_strategy, check);
  ctx.proptest("set-did", ctx.pick(100_000, 2_000_000), set_did_strategy, check);
  ctx.proptest("set-url", ctx.pick(200_000, 4_000_000), set_url_strategy, check);
  ctx.proptest("order", ctx.pick(50_000, 1_000_000), order_strategy, check);
  ctx.proptest("jwk", ctx.pick(30_000, 600_000), jwk_strategy, check);

  ctx.require_class("grid:core-accepted", 1000);
  ctx.require_class("grid:url-accepted", 1000);
  ctx.require_class("grid:core-rejected", 1000);
  ctx.require_class("grid:ref-did-url", 1000);
  ctx.require_class("strings:url-accepted", 1000);
  ctx.require_class("strings:accepted-nontrivial", 1000);
  ctx.require_class("strings:url-rejected", 500);
  ctx.require_class("strings:core-accepted", 1000);
  ctx.require_class("set-grid:set-ok", 1000);
  ctx.require_class("set-grid:set-rejected", 1000);
  ctx.require_class("set-did:set-ok", 500);
  ctx.require_class("set-did:set-rejected", 500);
  ctx.require_class("set-url:set-ok", 1000);
  ctx.require_class("set-url:set-rejected", 1000);
  ctx.require_class("order-grid:some-pair-equal", 1000);
  ctx.require_class("order-grid:strict-chain", 1000);
  ctx.require_class("order:some-pair-equal", 500);
  ctx.require_class("jwk:accepted-plain-jwk", 500);
  ctx.require_class("jwk:jwk-rejected", 200);
  ctx.max_discard_pct(10);
}

pub fn replay(v: &serde_json::Value, obs: &mut Obs) -> Result<CheckResult, String> {
  replay_with::<Case>(v, obs, check)
}

/// libFuzzer entry: byte 0 selects the target type, the rest is the candidate string (lossy UTF-8).
pub fn fuzz_decode(data: &[u8]) -> Option<serde_json::Value> {
  let (sel, rest) = data.split_first()?;
  let s = String::from_utf8_lossy(rest).into_owned();
  let case = match sel % 3 {
    0 => Case::Parse { s, url: false },
    1 => Case::Parse { s, url: true },
    _ => Case::Jwk { s },
  };
  serde_json::to_value(case).ok()
}
