//! C17 — IOTA DIDs are normalised, decomposable, equal iff network and tag agree.
//!
//! Types under test: `identity_iota_core::{IotaDID, NetworkName}` and the two document routes that hand
//! out `&IotaDID` (`IotaDocument::id/controller`).
//! Oracle: the normal-form recogniser in `model::did_syntax` applied to the *value* (`as_str()`), its
//! (network, tag bytes) reading, and round trips. Only "accepted ⇒ …" is asserted.

use crate::engine::*;
use crate::fixture;
use crate::gen::did as gen;
use crate::model::did_syntax as syn;
use crate::vensure;
use crate::vfail;
use identity_core::convert::FromJson;
use identity_core::convert::ToJson;
use identity_did::BaseDIDUrl;
use identity_did::CoreDID;
use identity_did::DID;
use identity_document::document::CoreDocument;
use identity_iota_core::IotaDID;
use identity_iota_core::IotaDocument;
use identity_iota_core::NetworkName;
use identity_iota_core::StateMetadataDocument;
use proptest::prelude::*;
use serde::Deserialize;
use serde::Serialize;
use serde_json::json;
use serde_json::Value;
use std::cmp::Ordering;
use std::hash::Hash;
use std::hash::Hasher;
use std::str::FromStr;

#[derive(Debug, Clone, Copy, PartialEq, Eq, Serialize, Deserialize)]
pub enum NameRoute {
  /// `NetworkName::try_from(String)`.
  TryFrom,
  /// serde (`NetworkName::from_json`).
  Serde,
}

#[derive(Debug, Clone, Copy, PartialEq, Eq, Serialize, Deserialize)]
pub enum DocRoute {
  /// `IotaDocument::from_json`.
  FromJson,
  /// `StateMetadataDocument::unpack(..).into_iota_document(..)`.
  Unpack,
  /// `IotaDocument::from(CoreDocument)`.
  FromCoreDocument,
}

#[derive(Debug, Clone, Serialize, Deserialize)]
pub enum Case {
  /// Offer `s` to every route that yields an `IotaDID` from a string, a `CoreDID` or a `BaseDIDUrl`.
  Parse { s: String },
  /// Obtain a `NetworkName` for `network` by `route`, then `IotaDID::new(tag, name)` and `placeholder(name)`.
  /// `tag` is 64 hex digits.
  New { tag: String, network: String, route: NameRoute },
  /// `IotaDID::from_alias_id(alias, name)` with a well-formed alias id (`0x` + 64 hex digits, any case).
  AliasId { alias: String, network: String },
  /// Equality of two accepted DIDs against equality of their (network, tag bytes);
  /// `core_a`/`core_b` select the `TryFrom<CoreDID>` route instead of `parse`.
  Pair { a: String, b: String, core_a: bool, core_b: bool },
  /// A document whose id (and optionally controller) is spelled as given, read by `route`; the `&IotaDID`s it hands out.
  Document { id: String, controller: Option<String>, route: DocRoute },
  /// `String::from(IotaDID)` / `DID::into_string` on `IotaDID::parse(s)`. With `in_process: false` the
  /// conversion runs in a child process under a time limit (a conversion that never returns or overflows
  /// the stack cannot be observed from inside the process); the child re-enters with `in_process: true`.
  IntoString { s: String, in_process: bool },
}

// ---------------------------------------------------------------------------------------------
// Helpers
// ---------------------------------------------------------------------------------------------

enum Attempt<T> {
  Accepted(T),
  Rejected,
  Panicked(String),
}

fn attempt<T, E>(f: impl FnOnce() -> Result<T, E>) -> Attempt<T> {
  match catch(f) {
    Ok(Ok(v)) => Attempt::Accepted(v),
    Ok(Err(_)) => Attempt::Rejected,
    Err(p) => Attempt::Panicked(p.msg),
  }
}

fn hash_of<T: Hash>(t: &T) -> u64 {
  let mut h = std::collections::hash_map::DefaultHasher::new();
  t.hash(&mut h);
  h.finish()
}

fn json_string(s: &str) -> String {
  Value::String(s.to_string()).to_string()
}

fn has_blank_edge(s: &str) -> bool {
  let edge = |c: char| c.is_ascii_control() || c == ' ';
  s.chars().next().is_some_and(edge) || s.chars().last().is_some_and(edge)
}

/// Where an `IotaDID` value came from; selects the signature family for "not in normal form".
#[derive(Clone, Copy, PartialEq, Eq)]
enum Origin {
  /// parse / TryFrom / serde / constructors: classified by what is wrong with the value.
  Direct,
  /// `IotaDocument::from_json` or `unpack` + `into_iota_document`.
  Document,
  /// `IotaDocument::from(CoreDocument)`.
  CoreDocument,
}

fn not_normal_signature(text: &str, origin: Origin) -> &'static str {
  match origin {
    // The document routes validate without normalising (listed finding): what they hand out may be another spelling
    // of an IOTA DID (upper-case hex, explicit default network), but it has to be an IOTA DID.
    Origin::Document if lenient_reading(text).is_some() => "iota-did-via-document-not-normalised",
    Origin::Document => "iota-did-via-document-not-an-iota-did",
    Origin::CoreDocument => "iota-did-via-from-coredocument-unchecked",
    Origin::Direct => {
      if has_blank_edge(text) {
        "iota-did-surrounding-blank-accepted"
      } else if text.contains(['/', '?', '#']) {
        "iota-did-carries-url-part"
      } else if text.bytes().any(|b| b.is_ascii_uppercase()) {
        "iota-did-not-lowercase"
      } else if text.starts_with("did:iota:iota:") {
        "iota-did-default-network-not-omitted"
      } else {
        "iota-did-not-normal-form"
      }
    }
  }
}

/// Everything the statement promises about an `IotaDID` value, however it was obtained.
/// Returns the value's (network, tag) reading, or `None` when a tolerated known finding makes it unreadable.
fn battery(v: &IotaDID, via: &str, origin: Origin, obs: &mut Obs) -> Result<Option<syn::IotaParts>, Viol> {
  let text = v.as_str().to_string();
  let Some(parts) = syn::parse_iota_normal_form(&text) else {
    obs.fail(
      not_normal_signature(&text, origin),
      format!("{via}: IotaDID value {text:?} is not 'did:iota:' [1-6 lower-case alphanumerics other than \"iota\" ':'] '0x' 64 lower-case hex digits"),
    )?;
    return Ok(None);
  };
  let acc = match catch(|| {
    (
      v.method().to_string(),
      v.network_str().to_string(),
      v.tag_str().to_string(),
      v.to_string(),
      CoreDID::from(v.clone()).as_str().to_string(),
      v.to_json().map_err(|e| e.to_string()),
    )
  }) {
    Ok(a) => a,
    Err(p) => {
      vfail!(obs, "iota-did-accessor-panics", "{via}: accessor of {text:?} panicked: {}", p.msg);
      return Ok(None);
    }
  };
  // `String::from(IotaDID)` / `into_string()` are deliberately not called here: see `Case::IntoString`.
  let (method, network, tag, display, core, json) = acc;
  vensure!(
    obs,
    display == text && core == text && json.as_deref() == Ok(json_string(&text).as_str()),
    "iota-did-string-forms-disagree",
    "{via}: as_str={text:?} Display={display:?} CoreDID::from={core:?} json={json:?}"
  );
  let recomposed = if network == syn::IOTA_DEFAULT_NETWORK {
    format!("did:{method}:{tag}")
  } else {
    format!("did:{method}:{network}:{tag}")
  };
  vensure!(
    obs,
    method == syn::IOTA_METHOD && network == parts.network && tag == syn::encode_tag(&parts.tag) && recomposed == text,
    "iota-did-accessors-do-not-recompose",
    "{via}: {text:?} has method={method:?} network_str={network:?} tag_str={tag:?}"
  );
  match attempt(|| IotaDID::parse(&text)) {
    Attempt::Accepted(again) => vensure!(
      obs,
      &again == v && again.as_str() == text && again.cmp(v) == Ordering::Equal && hash_of(&again) == hash_of(v),
      "iota-did-reparse-differs",
      "{via}: parse(to_string()) of {text:?} gives {:?}",
      again.as_str()
    ),
    Attempt::Rejected => vfail!(obs, "iota-did-reparse-differs", "{via}: own string form {text:?} is rejected"),
    Attempt::Panicked(m) => vfail!(obs, "iota-did-reparse-differs", "{via}: parsing own string form {text:?} panicked: {m}"),
  }
  Ok(Some(parts))
}

/// Reads an input spelling the way the method specification intends it before normalisation: ASCII case
/// folded, the default network allowed to be explicit. `None` when the input is anything else.
fn lenient_reading(s: &str) -> Option<syn::IotaParts> {
  let lower = s.to_ascii_lowercase();
  let rest = lower.strip_prefix("did:iota:")?;
  let (network, tag) = match rest.split_once(':') {
    Some((n, t)) => (n, t),
    None => (syn::IOTA_DEFAULT_NETWORK, rest),
  };
  if !syn::is_network_name(network) {
    return None;
  }
  Some(syn::IotaParts {
    network: network.to_string(),
    tag: syn::decode_tag(tag, true)?,
  })
}

// ---------------------------------------------------------------------------------------------
// Parse
// ---------------------------------------------------------------------------------------------

fn check_parse(s: &str, obs: &mut Obs) -> CheckResult {
  let json = json_string(s);
  let routes: [(&str, Attempt<IotaDID>); 8] = [
    ("IotaDID::parse", attempt(|| IotaDID::parse(s))),
    ("IotaDID::from_str", attempt(|| IotaDID::from_str(s))),
    ("IotaDID::try_from(&str)", attempt(|| IotaDID::try_from(s))),
    ("IotaDID::try_from(String)", attempt(|| IotaDID::try_from(s.to_string()))),
    ("IotaDID::try_from(CoreDID)", attempt(|| CoreDID::parse(s).and_then(IotaDID::try_from))),
    ("IotaDID::try_from_core", attempt(|| CoreDID::parse(s).and_then(IotaDID::try_from_core))),
    (
      "IotaDID::try_from(BaseDIDUrl)",
      // the `BaseDIDUrl` comes from the dependency's own parser, called by the harness: its panic is not a route result
      match catch(|| BaseDIDUrl::parse(s)) {
        Err(_) | Ok(Err(_)) => Attempt::Rejected,
        Ok(Ok(b)) => attempt(|| IotaDID::try_from(b).map_err(|_| ())),
      },
    ),
    ("IotaDID::from_json", attempt(|| IotaDID::from_json(&json))),
  ];
  let expected = lenient_reading(s);
  obs.label(if expected.is_some() { "input-reads-as-iota-did" } else { "input-not-an-iota-did" });
  let mut accepted = false;
  let mut normalised = false;
  for (via, r) in &routes {
    match r {
      Attempt::Accepted(v) => {
        accepted = true;
        if v.as_str() != s {
          normalised = true;
        }
        let Some(parts) = battery(v, via, Origin::Direct, obs)? else { continue };
        if let Some(exp) = &expected {
          vensure!(
            obs,
            &parts == exp,
            "iota-did-value-differs-from-input",
            "{via}: {s:?} denotes network {:?} tag {} but the accepted value is {:?}",
            exp.network,
            syn::encode_tag(&exp.tag),
            v.as_str()
          );
        } else {
          obs.label("accepted-input-not-read-by-reference");
        }
      }
      Attempt::Panicked(_) => obs.label("parse-panicked"),
      Attempt::Rejected => {}
    }
  }
  if accepted {
    obs.label("accepted");
    if normalised {
      obs.label("accepted-needed-normalisation");
      obs.nontrivial();
    }
  } else {
    obs.label("rejected");
    if syn::is_did(s) {
      obs.label("rejected-valid-generic-did");
      obs.nontrivial();
    }
    if expected.is_some() {
      obs.label("rejected-but-reads-as-iota-did");
    }
  }
  Ok(())
}

// ---------------------------------------------------------------------------------------------
// Constructors
// ---------------------------------------------------------------------------------------------

fn network_name(network: &str, route: NameRoute) -> Attempt<NetworkName> {
  match route {
    NameRoute::TryFrom => attempt(|| NetworkName::try_from(network.to_string())),
    NameRoute::Serde => attempt(|| NetworkName::from_json(&json_string(network))),
  }
}

fn parse_tag(tag: &str) -> Option<[u8; 32]> {
  syn::decode_tag(&format!("0x{tag}"), false)
}

fn check_new(tag: &str, network: &str, route: NameRoute, obs: &mut Obs) -> CheckResult {
  let Some(tag) = parse_tag(tag) else {
    obs.discard("case-tag-malformed");
    return Ok(());
  };
  let valid = syn::is_network_name(network);
  obs.label(if valid { "name-ref-valid" } else { "name-ref-invalid" });
  let name = match network_name(network, route) {
    Attempt::Accepted(n) => n,
    Attempt::Rejected => {
      obs.label("name-rejected");
      if valid {
        obs.label("valid-name-rejected");
      }
      return Ok(());
    }
    Attempt::Panicked(m) => return obs.fail("networkname-construction-panics", format!("{route:?}({network:?}) panicked: {m}")),
  };
  obs.label("name-accepted");
  obs.nontrivial();
  if !syn::is_network_name(name.as_ref()) {
    let what = match catch(|| IotaDID::new(&tag, &name)) {
      Ok(did) => format!("IotaDID::new with it yields {:?} (network_str {:?})", did.as_str(), did.network_str()),
      Err(p) => format!("IotaDID::new with it panics: {}", p.msg),
    };
    let sig = match route {
      NameRoute::TryFrom => "networkname-try-from-accepts-invalid",
      NameRoute::Serde => "networkname-serde-accepts-invalid",
    };
    // Behind this finding `new` cannot meet the statement; nothing more to learn from the case.
    return obs.fail(sig, format!("a NetworkName {:?} was obtained via {route:?}; {what}", name.as_ref()));
  }
  vensure!(
    obs,
    name.as_ref() == network,
    "networkname-alters-input",
    "{route:?}({network:?}) yields the name {:?}",
    name.as_ref()
  );
  let want = syn::IotaParts {
    network: network.to_string(),
    tag,
  };
  let built: [(&str, [u8; 32], Result<IotaDID, PanicInfo>); 2] = [
    ("IotaDID::new", tag, catch(|| IotaDID::new(&tag, &name))),
    ("IotaDID::placeholder", [0; 32], catch(|| IotaDID::placeholder(&name))),
  ];
  for (via, tag, r) in built {
    let did = match r {
      Ok(d) => d,
      Err(p) => {
        vfail!(obs, "iota-did-new-panics", "{via} with network {network:?} panicked: {}", p.msg);
        continue;
      }
    };
    let want = syn::IotaParts { tag, ..want.clone() };
    let Some(parts) = battery(&did, via, Origin::Direct, obs)? else { continue };
    // the placeholder is the DID with the all-zero tag, on whichever network
    match catch(|| did.is_placeholder()) {
      Ok(p) => vensure!(
        obs,
        p == (tag == [0u8; 32]),
        "iota-did-is-placeholder-wrong",
        "{via}(tag {}, network {network:?}).is_placeholder() = {p}",
        syn::encode_tag(&tag)
      ),
      Err(p) => vfail!(obs, "iota-did-new-panics", "is_placeholder on {:?} panicked: {}", did.as_str(), p.msg),
    }
    vensure!(
      obs,
      parts == want && did.as_str() == want.normal_form(),
      "iota-did-new-does-not-expose-inputs",
      "{via}(tag {}, network {network:?}) yields {:?}",
      syn::encode_tag(&tag),
      did.as_str()
    );
  }
  Ok(())
}

fn check_alias_id(alias: &str, network: &str, obs: &mut Obs) -> CheckResult {
  let Some(tag) = syn::decode_tag(alias, false) else {
    obs.discard("case-alias-malformed");
    return Ok(());
  };
  if !syn::is_network_name(network) {
    obs.discard("case-network-invalid");
    return Ok(());
  }
  let name = fixture!(NetworkName::try_from(network.to_string()), "NetworkName::try_from of a valid name");
  obs.nontrivial();
  let did = match catch(|| IotaDID::from_alias_id(alias, &name)) {
    Ok(d) => d,
    Err(p) => return obs.fail("iota-did-from-alias-id-panics", format!("from_alias_id({alias:?}, {network:?}) panicked: {}", p.msg)),
  };
  obs.label("alias-ok");
  let Some(parts) = battery(&did, "IotaDID::from_alias_id", Origin::Direct, obs)? else {
    return Ok(());
  };
  vensure!(
    obs,
    parts.network == network && parts.tag == tag,
    "iota-did-new-does-not-expose-inputs",
    "from_alias_id({alias:?}, {network:?}) yields {:?}",
    did.as_str()
  );
  Ok(())
}

// ---------------------------------------------------------------------------------------------
// Equality
// ---------------------------------------------------------------------------------------------

fn check_pair(a: &str, b: &str, core_a: bool, core_b: bool, obs: &mut Obs) -> CheckResult {
  // While "TryFrom<CoreDID> keeps upper-case hex" is a listed finding, operands it would make unreadable
  // go through `parse` instead, so that the equality clauses are still exercised on them.
  let mut reroute = |s: &str, core: bool| {
    if core && s.bytes().any(|b| b.is_ascii_uppercase()) && obs.is_known("iota-did-not-lowercase") {
      obs.excluded("iota-did-not-lowercase");
      false
    } else {
      core
    }
  };
  let (core_a, core_b) = (reroute(a, core_a), reroute(b, core_b));
  let get = |s: &str, core: bool| {
    if core {
      attempt(|| CoreDID::parse(s).and_then(IotaDID::try_from))
    } else {
      attempt(|| IotaDID::parse(s))
    }
  };
  let (Attempt::Accepted(va), Attempt::Accepted(vb)) = (get(a, core_a), get(b, core_b)) else {
    obs.discard("operand-not-accepted");
    return Ok(());
  };
  let (Some(pa), Some(pb)) = (
    battery(&va, "pair operand a", Origin::Direct, obs)?,
    battery(&vb, "pair operand b", Origin::Direct, obs)?,
  ) else {
    obs.label("operand-excluded-by-known-finding");
    return Ok(());
  };
  if a != b {
    obs.nontrivial();
  }
  let same = pa == pb;
  obs.label(if same { "same-network-and-tag" } else { "different-network-or-tag" });
  let eq = va == vb;
  vensure!(
    obs,
    eq == same && (vb == va) == same,
    "iota-did-eq-differs-from-network-and-tag",
    "{:?} == {:?} is {eq}; networks {:?}/{:?}, tags {}/{}",
    va.as_str(),
    vb.as_str(),
    pa.network,
    pb.network,
    syn::encode_tag(&pa.tag),
    syn::encode_tag(&pb.tag)
  );
  let ord = va.cmp(&vb);
  vensure!(
    obs,
    (ord == Ordering::Equal) == eq && va.partial_cmp(&vb) == Some(ord) && vb.cmp(&va) == ord.reverse(),
    "iota-did-eq-ord-disagree",
    "{:?} vs {:?}: eq {eq}, cmp {ord:?}, reverse {:?}",
    va.as_str(),
    vb.as_str(),
    vb.cmp(&va)
  );
  vensure!(
    obs,
    !eq || hash_of(&va) == hash_of(&vb),
    "iota-did-eq-hash-disagree",
    "{:?} == {:?} but the hashes differ",
    va.as_str(),
    vb.as_str()
  );
  Ok(())
}

// ---------------------------------------------------------------------------------------------
// Documents
// ---------------------------------------------------------------------------------------------

const ORIGINAL_DID: &str = "did:iota:rms:0x1111111111111111111111111111111111111111111111111111111111111111";

fn check_document(id: &str, controller: Option<&str>, route: DocRoute, obs: &mut Obs) -> CheckResult {
  let mut doc = json!({ "id": id });
  if let Some(c) = controller {
    doc["controller"] = json!(c);
  }
  let wrapped = json!({ "doc": doc, "meta": {} }).to_string();
  let (result, origin): (Attempt<IotaDocument>, Origin) = match route {
    DocRoute::FromJson => (attempt(|| IotaDocument::from_json(&wrapped)), Origin::Document),
    DocRoute::Unpack => {
      let original = fixture!(IotaDID::parse(ORIGINAL_DID), "parsing the fixture DID");
      let Ok(len) = u16::try_from(wrapped.len()) else {
        obs.discard("document-too-long");
        return Ok(());
      };
      // [ "DID", version 1, encoding 0 (JSON), length u16 LE, payload ]
      let mut bytes = b"DID\x01\x00".to_vec();
      bytes.extend_from_slice(&len.to_le_bytes());
      bytes.extend_from_slice(wrapped.as_bytes());
      (
        attempt(|| StateMetadataDocument::unpack(&bytes).and_then(|d| d.into_iota_document(&original))),
        Origin::Document,
      )
    }
    DocRoute::FromCoreDocument => (
      attempt(|| CoreDocument::from_json(&doc.to_string()).map(IotaDocument::from)),
      Origin::CoreDocument,
    ),
  };
  let document = match result {
    Attempt::Accepted(d) => d,
    Attempt::Rejected => {
      obs.label("document-rejected");
      return Ok(());
    }
    Attempt::Panicked(_) => {
      obs.label("document-route-panicked");
      return Ok(());
    }
  };
  obs.label("document-accepted");
  obs.nontrivial();
  let via = format!("{route:?} id()");
  let handed_out: Vec<IotaDID> = match catch(|| std::iter::once(document.id().clone()).chain(document.controller().cloned()).collect()) {
    Ok(v) => v,
    Err(p) => return obs.fail("iota-document-id-panics", format!("{via} panicked: {}", p.msg)),
  };
  for (i, did) in handed_out.iter().enumerate() {
    let via = if i == 0 { via.clone() } else { format!("{route:?} controller()") };
    if let Some(parts) = battery(did, &via, origin, obs)? {
      let spelled = if i == 0 { id } else { controller.unwrap_or("") };
      // The placeholder "did:0:0" is replaced by the original DID on the unpack route.
      let expected = if route == DocRoute::Unpack && spelled == "did:0:0" { lenient_reading(ORIGINAL_DID) } else { lenient_reading(spelled) };
      if let Some(exp) = expected {
        vensure!(
          obs,
          parts == exp,
          "iota-did-value-differs-from-input",
          "{via}: document spells {spelled:?} but hands out {:?}",
          did.as_str()
        );
      }
    }
  }
  Ok(())
}

// ---------------------------------------------------------------------------------------------
// String::from(IotaDID) in a child process
// ---------------------------------------------------------------------------------------------

const INTO_STRING_SIG: &str = "iota-did-into-string-does-not-return";
const INTO_STRING_LIMIT_MS: u64 = 60_000;

fn check_into_string(s: &str, in_process: bool, obs: &mut Obs) -> CheckResult {
  let did = match attempt(|| IotaDID::parse(s)) {
    Attempt::Accepted(d) => d,
    _ => {
      obs.discard("operand-not-accepted");
      return Ok(());
    }
  };
  let text = did.as_str().to_string();
  if in_process {
    let a = String::from(did.clone());
    let b = did.into_string();
    vensure!(obs, a == text && b == text, "iota-did-into-string-differs", "String::from gives {a:?}, into_string {b:?}, as_str {text:?}");
    return Ok(());
  }
  if obs.is_known(INTO_STRING_SIG) {
    // The strict replay of the listed reproducer at the head of the run already spent the time limit once.
    obs.excluded(INTO_STRING_SIG);
    return Ok(());
  }
  obs.nontrivial();
  static COUNTER: std::sync::atomic::AtomicU64 = std::sync::atomic::AtomicU64::new(0);
  let n = COUNTER.fetch_add(1, std::sync::atomic::Ordering::Relaxed);
  let file = std::env::temp_dir().join(format!("vcheck-c17-into-string-{}-{n}.json", std::process::id()));
  let body = json!({ "case": { "IntoString": { "s": s, "in_process": true } } }).to_string();
  fixture!(std::fs::write(&file, body), "writing the child's case file");
  let exe = fixture!(std::env::current_exe(), "locating the harness executable");
  let spawned = std::process::Command::new(exe)
    .args(["C17", "--replay"])
    .arg(&file)
    .env("VCHECK_MALLOC_TUNED", "1")
    .stdin(std::process::Stdio::null())
    .stdout(std::process::Stdio::null())
    .stderr(std::process::Stdio::null())
    .spawn();
  let mut child = match spawned {
    Ok(c) => c,
    Err(e) => {
      let _ = std::fs::remove_file(&file);
      return Err(Viol::fixture(format!("spawning the child process: {e}")));
    }
  };
  let started = std::time::Instant::now();
  let status = loop {
    match child.try_wait() {
      Ok(Some(st)) => break Some(st),
      Ok(None) if started.elapsed().as_millis() as u64 >= INTO_STRING_LIMIT_MS => {
        let _ = child.kill();
        let _ = child.wait();
        break None;
      }
      Ok(None) => std::thread::sleep(std::time::Duration::from_millis(5)),
      Err(e) => {
        let _ = child.kill();
        let _ = std::fs::remove_file(&file);
        return Err(Viol::fixture(format!("waiting for the child process: {e}")));
      }
    }
  };
  let _ = std::fs::remove_file(&file);
  match status {
    None => obs.fail(
      INTO_STRING_SIG,
      format!("String::from(IotaDID) / into_string() on {text:?} did not return within {INTO_STRING_LIMIT_MS} ms (child process killed)"),
    ),
    Some(st) if st.code() == Some(0) => {
      obs.label("into-string-returns");
      Ok(())
    }
    Some(st) if st.code() == Some(1) => obs.fail("iota-did-into-string-differs", format!("String::from(IotaDID) on {text:?} differs from as_str() (see --replay with in_process: true)")),
    Some(st) if st.code().is_none() => obs.fail(
      INTO_STRING_SIG,
      format!("String::from(IotaDID) / into_string() on {text:?} ended the child process abnormally ({st}), e.g. by stack overflow"),
    ),
    Some(st) => Err(Viol::fixture(format!("child process ended with {st}"))),
  }
}

pub fn check(case: &Case, obs: &mut Obs) -> CheckResult {
  match case {
    Case::Parse { s } => check_parse(s, obs),
    Case::New { tag, network, route } => check_new(tag, network, *route, obs),
    Case::AliasId { alias, network } => check_alias_id(alias, network, obs),
    Case::Pair { a, b, core_a, core_b } => check_pair(a, b, *core_a, *core_b, obs),
    Case::Document { id, controller, route } => check_document(id, controller.as_deref(), *route, obs),
    Case::IntoString { s, in_process } => check_into_string(s, *in_process, obs),
  }
}

// ---------------------------------------------------------------------------------------------
// Enumerators
// ---------------------------------------------------------------------------------------------

/// Alphabet for the exhaustively enumerated network segment: valid characters, upper case, the segment
/// separator, non-alphanumerics, a blank, a non-ASCII letter and the Kelvin sign (lower-cases to `k`).
static NET_ALPHABET: [char; 11] = ['a', 'z', '0', '9', 'A', ':', '-', '%', ' ', 'é', '\u{212a}'];

const TAG_LOWER: &str = "00112233445566778899aabbccddeeff00112233445566778899aabbccddeeff";
const TAG_UPPER: &str = "00112233445566778899AABBCCDDEEFF00112233445566778899AABBCCDDEEFF";
const TAG_ZERO: &str = "0000000000000000000000000000000000000000000000000000000000000000";

fn net_grid() -> impl Iterator<Item = Case> {
  gen::words(&NET_ALPHABET, 3).flat_map(|net| {
    [TAG_LOWER, TAG_UPPER].into_iter().flat_map(move |tag| {
      let net = net.clone();
      ["", "#f"].into_iter().flat_map(move |suffix| {
        let with_net = Case::Parse {
          s: format!("did:iota:{net}:0x{tag}{suffix}"),
        };
        // the same word directly in front of the tag (no separator) and as the method
        let glued = Case::Parse {
          s: format!("did:iota:{net}0x{tag}{suffix}"),
        };
        let as_method = Case::Parse {
          s: format!("did:{net}:0x{tag}{suffix}"),
        };
        [with_net, glued, as_method]
      })
    })
  })
}

/// Tag shapes: every length from 60 to 68 digits × prefix × digit case, with and without a network.
fn tag_grid() -> impl Iterator<Item = Case> {
  (60usize..=68).flat_map(|len| {
    ["0x", "0X", "", "0y", "x0"].into_iter().flat_map(move |prefix| {
      ["ab", "AB", "aB", "0g", "00"].into_iter().flat_map(move |pair| {
        ["", "smr:", "iota:", "IOTA:", "a:b:"].into_iter().map(move |net| {
          let digits: String = pair.chars().cycle().take(len).collect();
          Case::Parse {
            s: format!("did:iota:{net}{prefix}{digits}"),
          }
        })
      })
    })
  })
}

fn new_grid() -> impl Iterator<Item = Case> {
  let names = gen::words(&NET_ALPHABET, 3).chain(
    [
      "iota", "main", "smr", "rms", "abc123", "1234567", "toolongname", "UPPER", "Iota", "a b", "atoi ", "iot", "iota1", "iotaa",
      "aiota", "iotai", "ota", "i", "iotaio",
    ]
      .into_iter()
      .map(str::to_string),
  );
  names.flat_map(|network| {
    [NameRoute::TryFrom, NameRoute::Serde].into_iter().flat_map(move |route| {
      let network = network.clone();
      [TAG_LOWER, TAG_ZERO, "ffffffffffffffffffffffffffffffffffffffffffffffffffffffffffffffff"]
        .into_iter()
        .map(move |tag| Case::New {
          tag: tag.to_string(),
          network: network.clone(),
          route,
        })
    })
  })
}

// ---------------------------------------------------------------------------------------------
// Strategies
// ---------------------------------------------------------------------------------------------

/// 64 hex digits in lower, upper or mixed case.
fn hex64() -> impl Strategy<Value = String> {
  (any::<[u8; 32]>(), 0u8..4, any::<u64>()).prop_map(|(bytes, style, mask)| {
    let lower: String = bytes.iter().map(|b| format!("{b:02x}")).collect();
    match style {
      0 | 1 => lower,
      2 => lower.to_uppercase(),
      _ => lower
        .chars()
        .enumerate()
        .map(|(i, c)| if mask >> (i % 64) & 1 == 1 { c.to_ascii_uppercase() } else { c })
        .collect(),
    }
  })
}

fn valid_network() -> impl Strategy<Value = String> {
  prop_oneof![
    3 => "[a-z0-9]{1,6}",
    2 => prop::sample::select(vec!["smr", "rms", "main", "dev", "a", "0", "atoi", "iota", "iot", "iota1", "iotaa", "aiota", "iotaio"]).prop_map(str::to_string),
  ]
}

fn any_network() -> impl Strategy<Value = String> {
  prop_oneof![
    6 => valid_network(),
    2 => Just("iota".to_string()),
    2 => prop::sample::select(vec!["IOTA", "Iota", "SMR", "Main", "rMs", "toolong", "1234567", "", "s-r", "s_r", "s.r", "s%72", "sm r", "\u{212a}", "smr\u{e9}", "a:b", "iota:iota"]).prop_map(str::to_string),
    1 => "[a-zA-Z0-9]{1,8}",
    1 => "\\PC{0,8}",
  ]
}

/// A candidate IOTA DID string assembled from independently varied pieces.
fn candidate() -> impl Strategy<Value = String> {
  let scheme = prop_oneof![12 => Just("did"), 1 => Just("DID"), 1 => Just("Did"), 1 => Just("dod")];
  let method = prop_oneof![12 => Just("iota"), 2 => Just("IOTA"), 1 => Just("Iota"), 1 => Just("iot"), 1 => Just("iotaa"), 1 => Just("example"), 1 => Just("")];
  let network = prop::option::weighted(0.65, any_network());
  let prefix = prop_oneof![14 => Just("0x"), 2 => Just("0X"), 1 => Just(""), 1 => Just("0y"), 1 => Just("x")];
  let digits = (hex64(), prop_oneof![12 => Just(64usize), 1 => Just(62), 1 => Just(63), 1 => Just(65), 1 => Just(66), 1 => Just(0), 1 => Just(32)]).prop_map(|(h, len)| {
    h.chars().cycle().take(len).collect::<String>()
  });
  let spoil = prop::option::weighted(0.1, (any::<prop::sample::Index>(), prop::sample::select(vec!['g', 'G', ':', '%', ' ', 'é', 'x', '-'])));
  let suffix = prop_oneof![
    12 => Just(""),
    4 => prop::sample::select(vec!["/p", "?q", "#f", "#", "?", " ", "\n", "\t", ":", "/", "?q#f", "#0x", "\0"]),
  ];
  let lead = prop_oneof![20 => Just(""), 1 => Just(" "), 1 => Just("\n")];
  (scheme, method, network, prefix, digits, spoil, suffix, lead).prop_map(|(scheme, method, network, prefix, digits, spoil, suffix, lead)| {
    let mut digits = digits;
    if let Some((idx, ch)) = spoil {
      let chars: Vec<char> = digits.chars().collect();
      if !chars.is_empty() {
        let i = idx.index(chars.len());
        digits = chars.iter().enumerate().map(|(k, c)| if k == i { ch } else { *c }).collect();
      }
    }
    let net = network.map(|n| format!("{n}:")).unwrap_or_default();
    format!("{lead}{scheme}:{method}:{net}{prefix}{digits}{suffix}")
  })
}

fn parse_strategy() -> impl Strategy<Value = Case> {
  prop_oneof![
    9 => candidate(),
    1 => gen::maybe_damaged(candidate()),
  ]
  .prop_map(|s| Case::Parse { s })
}

fn new_strategy() -> impl Strategy<Value = Case> {
  (
    hex64(),
    any_network(),
    prop::sample::select(vec![NameRoute::TryFrom, NameRoute::Serde]),
  )
    .prop_map(|(tag, network, route)| Case::New { tag, network, route })
}

fn alias_strategy() -> impl Strategy<Value = Case> {
  (hex64(), valid_network()).prop_map(|(h, network)| Case::AliasId {
    alias: format!("0x{h}"),
    network,
  })
}

/// Two spellings that agree or differ in network and/or tag, each in an arbitrary admissible case.
fn pair_strategy() -> impl Strategy<Value = Case> {
  // `upper`: 0 = as is, 1 = upper-case hex digits only (every route folds or keeps them), 2 = everything
  // after the "did:" scheme in upper case (only `parse` folds that).
  let spelling = |bytes: [u8; 32], network: String, explicit_default: bool, upper: u8| {
    let mut tag: String = bytes.iter().map(|b| format!("{b:02x}")).collect();
    if upper >= 1 {
      tag = tag.to_uppercase();
    }
    let s = if network == "iota" && !explicit_default {
      format!("iota:0x{tag}")
    } else {
      format!("iota:{network}:0x{tag}")
    };
    if upper >= 2 {
      format!("did:{}", s.to_uppercase())
    } else {
      format!("did:{s}")
    }
  };
  (
    any::<[u8; 32]>(),
    valid_network(),
    0u8..6,
    prop::sample::select(vec![0usize, 1, 31]),
    valid_network(),
    any::<[bool; 4]>(),
    (0u8..3, 0u8..3),
  )
    .prop_map(move |(tag, network, relation, flip_at, other_network, flags, (upper_a, upper_b))| {
      let [explicit_a, explicit_b, core_a, core_b] = flags;
      let mut tag_b = tag;
      let mut network_b = network.clone();
      match relation {
        0 | 1 => {}
        2 => tag_b[flip_at] ^= 1,
        3 => network_b = other_network,
        4 => {
          tag_b[flip_at] ^= 0x80;
          network_b = other_network;
        }
        _ => network_b = "iota".to_string(),
      }
      // The CoreDID route does not fold case: an upper-case method or network would just be rejected there.
      let upper_a = if core_a { upper_a.min(1) } else { upper_a };
      let upper_b = if core_b { upper_b.min(1) } else { upper_b };
      Case::Pair {
        a: spelling(tag, network, explicit_a, upper_a),
        b: spelling(tag_b, network_b, explicit_b, upper_b),
        core_a,
        core_b,
      }
    })
}

fn document_strategy() -> impl Strategy<Value = Case> {
  let spelled = || {
    prop_oneof![
      6 => (hex64(), prop::option::of(valid_network())).prop_map(|(h, n)| match n {
        Some(n) => format!("did:iota:{n}:0x{h}"),
        None => format!("did:iota:0x{h}"),
      }),
      2 => candidate(),
      1 => Just("did:0:0".to_string()),
      1 => Just("did:example:123".to_string()),
    ]
  };
  (
    spelled(),
    prop::option::weighted(0.3, spelled()),
    prop::sample::select(vec![DocRoute::FromJson, DocRoute::Unpack, DocRoute::FromCoreDocument]),
  )
    .prop_map(|(id, controller, route)| Case::Document { id, controller, route })
}

pub fn run(ctx: &mut Ctx) {
  ctx.rule = "strings: every word up to length 3 over an 11-symbol alphabet as network segment / glued to the tag / as method × lower- and upper-case tag × with and without '#f'; \
    tag lengths 60-68 × 5 prefixes × 5 digit styles × 5 network spellings; random candidates (scheme, method, network, 0x prefix, digit count and case, one spoiled digit, URL/blank suffixes) — \
    each offered to 8 routes (parse, FromStr, TryFrom<&str|String|CoreDID|BaseDIDUrl>, try_from_core, serde). constructors: every such word and some fixed names × {try_from, serde} × 3 tags for new/placeholder, \
    random tags × names, from_alias_id with well-formed ids in any case. pairs: same/different network (default spelled out or not) × same/different tag × case × route. \
    documents: id/controller spellings read by IotaDocument::from_json, StateMetadataDocument::unpack+into_iota_document, IotaDocument::from(CoreDocument). \
    Oracle: independent normal-form recogniser on the value's string, (network, tag bytes) reading of value and input, round trips. \
    Non-trivial = accepted input whose value is spelled differently (needed normalisation); rejected input that is a valid generic DID; constructor case whose NetworkName was obtained; \
    pair of different spellings; accepted document. Distinct by case bytes."
    .into();
  ctx.assume("the statement constrains the accepted value, not the input spelling: inputs are lower-cased by the library with Unicode rules, so e.g. a Kelvin sign may legitimately become 'k'");
  ctx.assume("'the value denotes what the input spelled' is asserted only for inputs that read as an IOTA DID after ASCII case folding with the default network allowed to be explicit");
  ctx.assume("from_alias_id is only given well-formed alias ids ('0x' + 64 hex digits); its panic on other input is a documented precondition, not a C17 matter");
  ctx.assume("a NetworkName value obtained through any public route must satisfy the 1-6 lower-case alphanumerics rule (otherwise IotaDID::new cannot expose 'exactly that name'); IotaDID::new is then not exercised with it");
  ctx.assume("a panic of a string route on an offered input is C05's subject and only counted (label parse-panicked)");
  ctx.assume("String::from(IotaDID) / DID::into_string are exercised only by two single cases run in a child process under a 5 s limit, never inside the batteries: on the current tree they recurse without end, which no in-process check can survive");

  for s in [format!("did:iota:0x{TAG_LOWER}"), format!("did:iota:smr:0x{TAG_ZERO}")] {
    ctx.single("into-string", &Case::IntoString { s, in_process: false }, check);
  }
  ctx.exhaustive("net-grid", net_grid, check);
  ctx.exhaustive("tag-grid", tag_grid, check);
  ctx.exhaustive("new-grid", new_grid, check);
  ctx.proptest("strings", ctx.pick(600_000, 15_000_000), parse_strategy, check);
  ctx.proptest("new", ctx.pick(100_000, 2_500_000), new_strategy, check);
  ctx.proptest("alias", ctx.pick(40_000, 1_000_000), alias_strategy, check);
  ctx.proptest("pairs", ctx.pick(150_000, 4_000_000), pair_strategy, check);
  ctx.proptest("documents", ctx.pick(80_000, 2_000_000), document_strategy, check);

  ctx.require_class("net-grid:accepted", 100);
  ctx.require_class("net-grid:rejected", 1000);
  ctx.require_class("tag-grid:accepted", 10);
  ctx.require_class("strings:accepted", 10_000);
  ctx.require_class("strings:accepted-needed-normalisation", 2_000);
  ctx.require_class("strings:rejected-valid-generic-did", 1_000);
  ctx.require_class("new-grid:name-rejected", 1000);
  ctx.require_class("new-grid:name-accepted", 100);
  ctx.require_class("new:name-accepted", 5_000);
  ctx.require_class("new:name-rejected", 1_000);
  ctx.require_class("alias:alias-ok", 10_000);
  ctx.require_class("pairs:same-network-and-tag", 2_000);
  ctx.require_class("pairs:different-network-or-tag", 2_000);
  ctx.require_class("documents:document-accepted", 5_000);
  ctx.require_class("documents:document-rejected", 500);
  ctx.max_discard_pct(10);
}

pub fn replay(v: &serde_json::Value, obs: &mut Obs) -> Result<CheckResult, String> {
  replay_with::<Case>(v, obs, check)
}

/// libFuzzer entry: the bytes are the candidate string (lossy UTF-8).
pub fn fuzz_decode(data: &[u8]) -> Option<serde_json::Value> {
  serde_json::to_value(Case::Parse { s: String::from_utf8_lossy(data).into_owned() }).ok()
}
