//! C08 — Every JWS the library produces decodes and verifies to what was signed.
//!
//! Part A drives the three encoders (the Ed25519 signature over the encoder's signing input is made by the
//! harness), takes the produced token apart with the harness' own splitter (`model::jws_ref`) and with the
//! library's decoder, and compares both with what was supplied. Part B signs through storage-backed DID
//! documents and checks `verify_jws` positively (mirrored options, every scope containing the method) and
//! negatively (other methods, nonces, excluding scopes).

use crate::engine::*;
use crate::fixture;
use crate::gen::jose_headers::build_jws_header;
use crate::gen::jose_headers::header_value;
use crate::gen::jose_headers::FIELD_NAMES;
use crate::model::jose_policy::b64_agreement;
use crate::model::jose_policy::effective_b64;
use crate::model::jose_policy::has_protected_alg;
use crate::model::jose_policy::header_rules;
use crate::model::jose_policy::B64Agreement;
use crate::model::jws_ref::*;
use crate::util::b64url;
use crate::util::EdKey;
use crate::vensure;
use crate::vfail;
use futures::executor::block_on;
use identity_core::common::Object;
use identity_core::common::Timestamp;
use identity_core::common::Url;
use identity_core::convert::FromJson;
use identity_credential::credential::Credential;
use identity_credential::credential::CredentialBuilder;
use identity_credential::credential::Jws;
use identity_credential::credential::Jwt;
use identity_credential::credential::Subject;
use identity_credential::presentation::JwtPresentationOptions;
use identity_credential::presentation::Presentation;
use identity_credential::presentation::PresentationBuilder;
use identity_did::CoreDID;
use identity_did::DIDUrl;
use identity_did::DID;
use identity_document::document::CoreDocument;
use identity_document::verifiable::JwsVerificationOptions;
use identity_eddsa_verifier::EdDSAJwsVerifier;
use identity_iota_core::IotaDocument;
use identity_iota_core::NetworkName;
use identity_jose::jwk::Jwk;
use identity_jose::jws::CharSet;
use identity_jose::jws::CompactJwsEncoder;
use identity_jose::jws::CompactJwsEncodingOptions;
use identity_jose::jws::DecodedJws;
use identity_jose::jws::Decoder;
use identity_jose::jws::FlattenedJwsEncoder;
use identity_jose::jws::GeneralJwsEncoder;
use identity_jose::jws::JwsAlgorithm;
use identity_jose::jws::JwsHeader;
use identity_jose::jws::JwsValidationItem;
use identity_jose::jws::Recipient;
use identity_storage::JwkDocumentExt;
use identity_storage::JwkMemStore;
use identity_storage::JwsSignatureOptions;
use identity_storage::KeyIdMemstore;
use identity_storage::Storage;
use identity_verification::MethodRelationship;
use identity_verification::MethodScope;
use proptest::prelude::*;
use serde::Deserialize;
use serde::Serialize;
use serde_json::json;
use serde_json::Value;

// ---------------------------------------------------------------------------------------------
// Cases
// ---------------------------------------------------------------------------------------------

/// A payload: `unit` repeated `repeat` times (keeps long payloads small in replay files).
#[derive(Debug, Clone, Serialize, Deserialize)]
pub struct PayloadSpec {
  pub unit: Vec<u8>,
  pub repeat: u16,
}

impl PayloadSpec {
  fn bytes(&self) -> Vec<u8> {
    self.unit.repeat(self.repeat.max(1) as usize)
  }
}

#[derive(Debug, Clone, Copy, PartialEq, Eq, Serialize, Deserialize)]
pub enum Form {
  Compact,
  Flattened,
  General,
}

impl Form {
  fn name(&self) -> &'static str {
    match self {
      Form::Compact => "compact",
      Form::Flattened => "flattened",
      Form::General => "general",
    }
  }
}

#[derive(Debug, Clone, Serialize, Deserialize)]
pub struct Recip {
  /// index of the harness-side Ed25519 key
  pub key: u8,
  pub protected: Option<Members>,
  pub unprotected: Option<Members>,
}

#[derive(Debug, Clone, Serialize, Deserialize)]
pub struct EncCase {
  pub form: Form,
  pub payload: PayloadSpec,
  pub detached: bool,
  /// compact form, attached payload: `CharSet::UrlSafe` instead of `CharSet::Default`
  pub url_safe: bool,
  /// exactly one for the compact and flattened forms, 1..=4 for the general form
  pub recipients: Vec<Recip>,
}

#[derive(Debug, Clone, Serialize, Deserialize)]
pub struct MethodSpec {
  /// 0 = `MethodScope::VerificationMethod`, 1..=5 = embedded in that relationship
  pub scope: u8,
  /// bit r: attach relationship r+1 by reference (only possible for scope 0)
  pub attach: u8,
  /// explicit fragment `key-<i>` instead of the generated key's kid
  pub explicit_fragment: bool,
}

#[derive(Debug, Clone, Serialize, Deserialize)]
pub enum KidSpec {
  /// no override: the library uses the method id
  Default,
  /// arbitrary text
  Literal(String),
  /// the id of another method of the same document (index among the others, scaled)
  OtherMethod(u16),
}

#[derive(Debug, Clone, Serialize, Deserialize)]
pub struct OptSpec {
  pub kid: KidSpec,
  pub attach_jwk: bool,
  pub b64: Option<bool>,
  pub typ: Option<String>,
  pub cty: Option<String>,
  pub url: Option<String>,
  pub nonce: Option<String>,
  pub detached: bool,
  pub custom: Members,
}

#[derive(Debug, Clone, Serialize, Deserialize)]
pub enum Signing {
  /// `create_jws`
  Jws(PayloadSpec),
  /// `create_credential_jwt` (subject property `n` and optional custom claim vary)
  Credential { n: i64, custom_claim: Option<String> },
  /// `create_presentation_jwt`
  Presentation { audience: bool, credentials: u8 },
}

#[derive(Debug, Clone, Serialize, Deserialize)]
pub struct DocCase {
  pub iota: bool,
  /// 2..=5 methods
  pub methods: Vec<MethodSpec>,
  /// index of the signing method (scaled)
  pub signer: u16,
  pub signing: Signing,
  pub opts: OptSpec,
  pub wrong_nonce: String,
}

#[derive(Debug, Clone, Serialize, Deserialize)]
pub enum Case {
  Enc(EncCase),
  Doc(DocCase),
}

// ---------------------------------------------------------------------------------------------
// Part A: encoders
// ---------------------------------------------------------------------------------------------

const KEY_FAMILY: u64 = 0xC08;
const SIG_UNDECODABLE_ESCAPES: &str = "json-form-unencoded-payload-with-escapes-not-decodable";

struct Built {
  protected: Option<JwsHeader>,
  unprotected: Option<JwsHeader>,
  p_model: Option<Value>,
  u_model: Option<Value>,
  key: EdKey,
  jwk: Jwk,
  other_jwk: Jwk,
  protected_alg: bool,
}

impl Built {
  fn recipient(&self) -> Recipient<'_> {
    Recipient {
      protected: self.protected.as_ref(),
      unprotected: self.unprotected.as_ref(),
    }
  }
}

fn jwk_of(key: &EdKey) -> Result<Jwk, String> {
  serde_json::from_value(key.public_jwk_json()).map_err(|e| e.to_string())
}

fn build_recipient(r: &Recip) -> Result<Built, String> {
  let key = EdKey::derive(KEY_FAMILY, r.key as u64);
  let other = EdKey::derive(KEY_FAMILY, r.key as u64 + 1000);
  Ok(Built {
    protected: r.protected.as_ref().map(build_jws_header).transpose()?,
    unprotected: r.unprotected.as_ref().map(build_jws_header).transpose()?,
    p_model: r.protected.as_ref().map(|m| members_value(m)),
    u_model: r.unprotected.as_ref().map(|m| members_value(m)),
    jwk: jwk_of(&key)?,
    other_jwk: jwk_of(&other)?,
    key,
    protected_alg: has_protected_alg(r.protected.as_deref()),
  })
}

/// What one encoder run produced.
struct Produced {
  token: String,
  signing_inputs: Vec<Vec<u8>>,
  signatures: Vec<[u8; 64]>,
}

/// The encoder declined (at which call, and why).
struct Refusal {
  at: &'static str,
  msg: String,
}

/// Headers are compared up to spellings that carry no information: an empty header object is no header, and a name
/// listed twice in `crit` is listed.
fn norm_hdr(h: &Option<Value>) -> Option<Value> {
  let mut v = h.clone()?;
  let o = v.as_object_mut()?;
  if o.is_empty() {
    return None;
  }
  if let Some(Value::Array(crit)) = o.get_mut("crit") {
    let mut seen: Vec<Value> = Vec::new();
    crit.retain(|c| {
      let fresh = !seen.contains(c);
      if fresh {
        seen.push(c.clone());
      }
      fresh
    });
  }
  Some(v)
}

fn refusal<E: std::fmt::Display>(at: &'static str) -> impl Fn(E) -> Refusal {
  move |e| Refusal { at, msg: e.to_string() }
}

fn run_encoder(c: &EncCase, payload: &[u8], built: &[Built]) -> Result<Produced, Refusal> {
  match c.form {
    Form::Compact => {
      let b = &built[0];
      let Some(protected) = b.protected.as_ref() else {
        return Err(Refusal {
          at: "generator",
          msg: "compact form without protected header".into(),
        });
      };
      let options = if c.detached {
        CompactJwsEncodingOptions::Detached
      } else {
        CompactJwsEncodingOptions::NonDetached {
          charset_requirements: if c.url_safe { CharSet::UrlSafe } else { CharSet::Default },
        }
      };
      let enc = CompactJwsEncoder::new_with_options(payload, protected, options).map_err(refusal("new"))?;
      let si = enc.signing_input().to_vec();
      let sig = b.key.sign(&si);
      Ok(Produced {
        token: enc.into_jws(&sig),
        signing_inputs: vec![si],
        signatures: vec![sig],
      })
    }
    Form::Flattened => {
      let b = &built[0];
      let enc = FlattenedJwsEncoder::new(payload, b.recipient(), c.detached).map_err(refusal("new"))?;
      let si = enc.signing_input().to_vec();
      let sig = b.key.sign(&si);
      Ok(Produced {
        token: enc.into_jws(&sig).map_err(refusal("into_jws"))?,
        signing_inputs: vec![si],
        signatures: vec![sig],
      })
    }
    Form::General => {
      let mut signing_inputs = Vec::new();
      let mut signatures = Vec::new();
      let mut processing = GeneralJwsEncoder::new(payload, built[0].recipient(), c.detached).map_err(refusal("new"))?;
      let mut i = 0;
      loop {
        let si = processing.signing_input().to_vec();
        let sig = built[i].key.sign(&si);
        let ready = processing.set_signature(&sig);
        signing_inputs.push(si);
        signatures.push(sig);
        i += 1;
        if i < built.len() {
          processing = ready
            .add_recipient(built[i].recipient())
            .map_err(refusal("add_recipient"))?;
        } else {
          return Ok(Produced {
            token: ready.into_jws().map_err(refusal("into_jws"))?,
            signing_inputs,
            signatures,
          });
        }
      }
    }
  }
}

fn payload_labels(obs: &mut Obs, payload: &[u8]) {
  match std::str::from_utf8(payload) {
    Err(_) => obs.label("payload:binary"),
    Ok(s) => {
      if s.contains('.') {
        obs.label("payload:utf8-with-period");
      }
      if needs_json_escape(s) {
        obs.label("payload:needs-json-escape");
      }
      if s.chars().all(|c| c.is_ascii_alphanumeric() || matches!(c, '-' | '_' | '~')) {
        obs.label("payload:url-safe-only");
      }
      if !s.is_ascii() {
        obs.label("payload:non-ascii-utf8");
      }
    }
  }
  if payload.len() > 1024 {
    obs.label("payload:long");
  }
}

/// Everything the statement promises about one signature of a token the library produced, as seen through the
/// library's decoder. `item` is the decoded signature `idx`.
#[allow(clippy::too_many_arguments)]
fn check_item(
  obs: &mut Obs,
  form: &str,
  idx: usize,
  item: JwsValidationItem<'_>,
  again: Option<JwsValidationItem<'_>>,
  b: &Built,
  signing_input: &[u8],
  signature: &[u8],
  payload: &[u8],
) -> CheckResult {
  vensure!(
    obs,
    item.signing_input() == signing_input,
    format!("{form}-decoded-signing-input-differs"),
    "signature {idx}: decoder's signing input {:?} differs from the encoder's {:?}",
    String::from_utf8_lossy(item.signing_input()),
    String::from_utf8_lossy(signing_input)
  );
  vensure!(
    obs,
    item.claims() == payload,
    format!("{form}-decoded-claims-differ"),
    "signature {idx}: decoded claims {:?} differ from the payload {:?}",
    short(&String::from_utf8_lossy(item.claims()), 200),
    short(&String::from_utf8_lossy(payload), 200)
  );
  vensure!(
    obs,
    item.decoded_signature() == signature,
    format!("{form}-decoded-signature-differs"),
    "signature {idx}: decoded signature differs from the one handed to the encoder"
  );
  let p_seen = fixture!(header_value(item.protected_header()), "serialise decoded protected header");
  let u_seen = fixture!(header_value(item.unprotected_header()), "serialise decoded unprotected header");
  vensure!(
    obs,
    norm_hdr(&p_seen) == norm_hdr(&b.p_model),
    format!("{form}-decoded-protected-header-differs"),
    "signature {idx}: decoded protected header {:?} differs from the supplied {:?}",
    p_seen,
    b.p_model
  );
  vensure!(
    obs,
    norm_hdr(&u_seen) == norm_hdr(&b.u_model),
    format!("{form}-decoded-unprotected-header-differs"),
    "signature {idx}: decoded unprotected header {:?} differs from the supplied {:?}",
    u_seen,
    b.u_model
  );
  if !b.protected_alg {
    // C11: verification without alg in the protected header is refused; nothing to verify for this recipient
    obs.label("enc:no-protected-alg-verify-skipped");
    return Ok(());
  }
  match catch(|| item.verify(&EdDSAJwsVerifier::default(), &b.jwk)) {
    Err(p) => vfail!(obs, format!("{form}-verify-panics"), "signature {idx}: verify panicked: {}", p.msg),
    Ok(Err(e)) => vfail!(
      obs,
      format!("{form}-own-token-does-not-verify"),
      "signature {idx}: verification with the signing key failed: {e}"
    ),
    Ok(Ok(decoded)) => {
      let DecodedJws {
        protected,
        unprotected,
        claims,
        ..
      } = decoded;
      let p_seen = fixture!(header_value(Some(&protected)), "serialise verified protected header");
      let u_seen = fixture!(header_value(unprotected.as_deref()), "serialise verified unprotected header");
      vensure!(
        obs,
        claims.as_ref() == payload && norm_hdr(&p_seen) == norm_hdr(&b.p_model) && norm_hdr(&u_seen) == norm_hdr(&b.u_model),
        format!("{form}-verified-token-differs"),
        "signature {idx}: DecodedJws returned by verify differs from what was signed"
      );
    }
  }
  if let Some(again) = again {
    match catch(|| again.verify(&EdDSAJwsVerifier::default(), &b.other_jwk)) {
      Err(p) => vfail!(obs, format!("{form}-verify-panics"), "signature {idx}: verify panicked: {}", p.msg),
      Ok(Ok(_)) => vfail!(
        obs,
        format!("{form}-verifies-under-other-key"),
        "signature {idx}: verification succeeded with a key that did not sign"
      ),
      Ok(Err(_)) => {}
    }
  }
  Ok(())
}

fn check_enc(c: &EncCase, obs: &mut Obs) -> CheckResult {
  let form = c.form.name();
  let payload = c.payload.bytes();
  if payload.is_empty() || c.recipients.is_empty() || (c.form != Form::General && c.recipients.len() != 1) {
    obs.discard("malformed-case");
    return Ok(());
  }
  // Generator soundness: every recipient lies in the accept region of the header policy (C11), recipients agree
  // on b64, and no custom name collides with a name the header types have a field for.
  let first_p = c.recipients[0].protected.as_deref();
  // Recipients that disagree on b64 form their own class: the encoder has to refuse them (C11); should it emit a
  // token all the same, C08 still demands that the library can decode what it produced.
  let mut mixed_b64 = false;
  for r in &c.recipients {
    let sound = header_rules(r.protected.as_deref(), r.unprotected.as_deref()).is_empty()
      && (r.protected.is_some() || r.unprotected.is_some());
    if !sound {
      obs.discard("headers-outside-accept-region");
      return Ok(());
    }
    mixed_b64 |= b64_agreement(first_p, r.protected.as_deref()) == B64Agreement::Disagree;
  }
  if mixed_b64 {
    obs.label("enc:general:mixed-b64-recipients");
  }
  let b64 = effective_b64(first_p);
  let built: Vec<Built> = {
    let mut v = Vec::new();
    for r in &c.recipients {
      v.push(fixture!(build_recipient(r), "build recipient headers"));
    }
    v
  };
  obs.label(format!("enc:{form}"));
  obs.label(format!(
    "enc:{form}:{}:{}",
    if b64 { "b64" } else { "unencoded" },
    if c.detached { "detached" } else { "attached" }
  ));
  payload_labels(obs, &payload);
  if c.form == Form::General {
    obs.label(format!("enc:general:recipients-{}", c.recipients.len()));
  }
  let utf8 = std::str::from_utf8(&payload).ok();
  let escapes = utf8.map(needs_json_escape).unwrap_or(false);
  if c.form != Form::Compact && (!b64 || c.recipients.len() >= 2 || escapes) {
    obs.nontrivial();
  }
  if c.form == Form::Compact && (!b64 || c.detached) {
    obs.nontrivial();
  }

  // ---- produce
  let produced = match catch(|| run_encoder(c, &payload, &built)) {
    Err(p) => {
      return obs.fail(
        format!("{form}-encoder-panics"),
        format!("encoder panicked: {} ({})", p.msg, p.sig()),
      )
    }
    Ok(Err(r)) => {
      obs.label(format!("enc:{form}:refused-at-{}", r.at));
      obs.label(format!("enc:refused:{}", short(&r.msg, 60)));
      return Ok(());
    }
    Ok(Ok(p)) => p,
  };
  let token = produced.token.as_str();
  if mixed_b64 {
    // the rest of the oracle presumes one b64 value per token; here only decodability is judged
    let detached_owned: Option<Vec<u8>> = if c.detached { Some(payload.clone()) } else { None };
    let outcome = catch(|| {
      Decoder::new()
        .decode_general_serialization(token.as_bytes(), detached_owned.as_deref())
        .map(|iter| iter.count())
    });
    return match outcome {
      Err(p) => obs.fail(format!("{form}-decoder-panics"), format!("decoder panicked: {}", p.msg)),
      Ok(Err(e)) => obs.fail(
        "general-encoder-emits-mixed-b64-token-the-decoder-rejects",
        format!("the general encoder accepted recipients that disagree on b64 and produced a token its own decoder rejects: {e}; token {}", short(token, 400)),
      ),
      Ok(Ok(_)) => {
        obs.label("enc:general:mixed-b64-token-decoded");
        Ok(())
      }
    };
  }

  // ---- independent view of the token
  let parsed = match c.form {
    Form::Compact => {
      // An attached unencoded payload is transmitted verbatim between the periods, so split at the first and
      // the last one (the encoder has to refuse payloads containing a period; checked below).
      match (token.find('.'), token.rfind('.')) {
        (Some(a), Some(z)) if a < z => Ok(RefJws {
          payload: Some(token[a + 1..z].to_string()).filter(|p| !p.is_empty()),
          signatures: vec![RefSignature {
            protected: Some(token[..a].to_string()),
            header: None,
            signature: token[z + 1..].to_string(),
          }],
        }),
        _ => Err("fewer than two periods".to_string()),
      }
    }
    Form::Flattened => split_flattened(token),
    Form::General => split_general(token),
  };
  let parsed = match parsed {
    Ok(p) => p,
    Err(e) => {
      return obs.fail(
        format!("{form}-token-malformed"),
        format!("the produced token is not a {form} JWS: {e}; token {}", short(token, 300)),
      )
    }
  };
  vensure!(
    obs,
    parsed.signatures.len() == built.len(),
    format!("{form}-token-signature-count"),
    "{} recipients but {} signatures in the token",
    built.len(),
    parsed.signatures.len()
  );
  let want_payload = if c.detached { None } else { transmitted_payload(&payload, b64) };
  vensure!(
    obs,
    c.detached || want_payload.is_some(),
    format!("{form}-attached-non-utf8-unencoded-payload"),
    "the encoder attached an unencoded payload that is not UTF-8"
  );
  vensure!(
    obs,
    parsed.payload == want_payload,
    format!("{form}-token-payload-differs"),
    "transmitted payload {:?}, expected {:?}",
    parsed.payload.as_deref().map(|p| short(p, 200)),
    want_payload.as_deref().map(|p| short(p, 200))
  );
  for (i, (s, b)) in parsed.signatures.iter().zip(&built).enumerate() {
    let p_seen = match s.protected.as_deref().map(decode_protected).transpose() {
      Ok(v) => v,
      Err(e) => return obs.fail(format!("{form}-token-malformed"), format!("signature {i}: {e}")),
    };
    vensure!(
      obs,
      norm_hdr(&p_seen) == norm_hdr(&b.p_model) && norm_hdr(&s.header) == norm_hdr(&b.u_model),
      format!("{form}-token-headers-differ"),
      "signature {i}: token carries protected {:?} / unprotected {:?}, supplied {:?} / {:?}",
      p_seen,
      s.header,
      b.p_model,
      b.u_model
    );
    vensure!(
      obs,
      s.signature == b64url(&produced.signatures[i]),
      format!("{form}-token-signature-differs"),
      "signature {i}: token carries {:?}",
      s.signature
    );
    let want_si = signing_input(s.protected.as_deref(), &payload, b64);
    vensure!(
      obs,
      produced.signing_inputs[i] == want_si,
      format!("{form}-signing-input-formula"),
      "signature {i}: encoder's signing input {:?} is not ASCII(protected) || '.' || payload form {:?}",
      short(&String::from_utf8_lossy(&produced.signing_inputs[i]), 200),
      short(&String::from_utf8_lossy(&want_si), 200)
    );
    vensure!(
      obs,
      !b.protected_alg || b.key.verify(&want_si, &produced.signatures[i]),
      "harness-signature-self-check",
      "harness signature does not verify (harness bug)"
    );
  }

  // ---- the library's own decoder
  // The decoder's `detached_payload` stands for the omitted payload member/segment, i.e. it is passed in
  // transmitted form (identity_storage tests::api::create_jws_detached passes encode_b64(payload) for b64=true).
  let detached_owned: Option<Vec<u8>> = c.detached.then(|| {
    if b64 {
      b64url(&payload).into_bytes()
    } else {
      payload.clone()
    }
  });
  let detached = detached_owned.as_deref();
  let decoder = Decoder::new();
  let known_escape_case = c.form != Form::Compact && !c.detached && !b64 && escapes;
  let not_decodable = |obs: &mut Obs, what: &str, e: &dyn std::fmt::Display| -> CheckResult {
    let sig = if known_escape_case {
      SIG_UNDECODABLE_ESCAPES.to_string()
    } else {
      format!("{form}-own-token-not-decodable")
    };
    obs.fail(
      sig,
      format!(
        "{what} rejects a token produced by the {form} encoder: {e}; token {}",
        short(token, 400)
      ),
    )
  };
  match c.form {
    Form::Compact | Form::Flattened => {
      let decode = |d: &Decoder| {
        if c.form == Form::Compact {
          d.decode_compact_serialization(token.as_bytes(), detached)
        } else {
          d.decode_flattened_serialization(token.as_bytes(), detached)
        }
      };
      let item = match catch(|| decode(&decoder)) {
        Err(p) => return obs.fail(format!("{form}-decoder-panics"), format!("decoder panicked: {}", p.msg)),
        Ok(Err(e)) => return not_decodable(obs, "decode", &e),
        Ok(Ok(item)) => item,
      };
      let again = catch(|| decode(&decoder)).ok().and_then(Result::ok);
      check_item(
        obs,
        form,
        0,
        item,
        again,
        &built[0],
        &produced.signing_inputs[0],
        &produced.signatures[0],
        &payload,
      )?;
    }
    Form::General => {
      let decode = |d: &Decoder| -> Result<Vec<Result<JwsValidationItem<'_>, identity_jose::error::Error>>, identity_jose::error::Error> {
        Ok(d.decode_general_serialization(token.as_bytes(), detached)?.collect())
      };
      let items = match catch(|| decode(&decoder)) {
        Err(p) => return obs.fail(format!("{form}-decoder-panics"), format!("decoder panicked: {}", p.msg)),
        Ok(Err(e)) => return not_decodable(obs, "decode", &e),
        Ok(Ok(items)) => items,
      };
      let mut agains = match catch(|| decode(&decoder)) {
        Ok(Ok(v)) => v,
        _ => Vec::new(),
      };
      agains.reverse();
      vensure!(
        obs,
        items.len() == built.len(),
        "general-decoded-signature-count",
        "{} recipients, decoder yields {} items",
        built.len(),
        items.len()
      );
      for (i, (item, b)) in items.into_iter().zip(&built).enumerate() {
        let again = agains.pop().and_then(Result::ok);
        match item {
          Err(e) => return not_decodable(obs, &format!("decode (signature {i})"), &e),
          Ok(item) => check_item(
            obs,
            form,
            i,
            item,
            again,
            b,
            &produced.signing_inputs[i],
            &produced.signatures[i],
            &payload,
          )?,
        }
      }
    }
  }
  obs.label(format!("enc:{form}:roundtrip-ok"));
  if !b64 && !c.detached {
    obs.label(format!("enc:{form}:roundtrip-ok-unencoded-attached"));
  }
  if c.detached && utf8.is_none() {
    obs.label(format!("enc:{form}:roundtrip-ok-detached-binary-b64-{b64}"));
  }
  Ok(())
}

// ---------------------------------------------------------------------------------------------
// Part B: storage-backed signing
// ---------------------------------------------------------------------------------------------

type MemStorage = Storage<JwkMemStore, KeyIdMemstore>;

enum Doc {
  Core(CoreDocument),
  Iota(IotaDocument),
}

fn scope_of(i: u8) -> MethodScope {
  match i {
    0 => MethodScope::VerificationMethod,
    n => MethodScope::VerificationRelationship(relationship_of(n)),
  }
}

fn relationship_of(i: u8) -> MethodRelationship {
  match i {
    1 => MethodRelationship::Authentication,
    2 => MethodRelationship::AssertionMethod,
    3 => MethodRelationship::KeyAgreement,
    4 => MethodRelationship::CapabilityDelegation,
    _ => MethodRelationship::CapabilityInvocation,
  }
}

impl Doc {
  fn core(&self) -> &CoreDocument {
    match self {
      Doc::Core(d) => d,
      Doc::Iota(d) => d.core_document(),
    }
  }
  fn generate(&mut self, storage: &MemStorage, fragment: Option<&str>, scope: MethodScope) -> Result<String, String> {
    let kt = JwkMemStore::ED25519_KEY_TYPE;
    match self {
      Doc::Core(d) => block_on(d.generate_method(storage, kt, JwsAlgorithm::EdDSA, fragment, scope)),
      Doc::Iota(d) => block_on(d.generate_method(storage, kt, JwsAlgorithm::EdDSA, fragment, scope)),
    }
    .map_err(|e| e.to_string())
  }
  fn attach(&mut self, id: &DIDUrl, rel: MethodRelationship) -> Result<bool, String> {
    match self {
      Doc::Core(d) => d.attach_method_relationship(id, rel).map_err(|e| e.to_string()),
      Doc::Iota(d) => d.attach_method_relationship(id, rel).map_err(|e| e.to_string()),
    }
  }
  fn verify<'a>(
    &self,
    jws: &'a Jws,
    detached: Option<&'a [u8]>,
    options: &JwsVerificationOptions,
  ) -> Result<DecodedJws<'a>, String> {
    let v = EdDSAJwsVerifier::default();
    match self {
      Doc::Core(d) => d.verify_jws(jws.as_str(), detached, &v, options).map_err(|e| e.to_string()),
      Doc::Iota(d) => d.verify_jws(jws, detached, &v, options).map_err(|e| e.to_string()),
    }
  }
}

fn credential_for(doc: &Doc, n: i64) -> Result<Credential, String> {
  let subject = Subject::from_json_value(json!({"id": "did:example:subject", "n": n, "name": "Al\"ice\\ \u{1}"}))
    .map_err(|e| e.to_string())?;
  CredentialBuilder::default()
    .id(Url::parse("https://example.edu/credentials/3732").map_err(|e| e.to_string())?)
    .issuer(Url::parse(doc.core().id().as_str()).map_err(|e| e.to_string())?)
    .type_("UniversityDegreeCredential")
    .subject(subject)
    .issuance_date(Timestamp::parse("2020-01-01T00:00:00Z").map_err(|e| e.to_string())?)
    .build()
    .map_err(|e| e.to_string())
}

fn presentation_for(doc: &Doc, credentials: u8) -> Result<Presentation<Jwt>, String> {
  let mut b = PresentationBuilder::new(
    Url::parse(doc.core().id().as_str()).map_err(|e| e.to_string())?,
    Object::new(),
  );
  for i in 0..credentials {
    b = b.credential(Jwt::new(format!("eyJhbGciOiJFZERTQSJ9.e30.c2ln{i}")));
  }
  b.build().map_err(|e| e.to_string())
}

/// Outcome of the signing call.
enum Signed {
  Token { jws: Jws, payload: Vec<u8> },
  Refused(String),
}

fn sign(doc: &Doc, storage: &MemStorage, fragment: &str, signing: &Signing, options: &JwsSignatureOptions) -> Result<Signed, Viol> {
  macro_rules! call {
    ($method:ident ( $($arg:expr),* )) => {
      match doc {
        Doc::Core(d) => block_on(d.$method($($arg),*)).map_err(|e| format!("{e}: {e:?}")),
        Doc::Iota(d) => block_on(d.$method($($arg),*)).map_err(|e| format!("{e}: {e:?}")),
      }
    };
  }
  Ok(match signing {
    Signing::Jws(p) => {
      let payload = p.bytes();
      match call!(create_jws(storage, fragment, &payload, options)) {
        Ok(jws) => Signed::Token { jws, payload },
        Err(e) => Signed::Refused(e),
      }
    }
    Signing::Credential { n, custom_claim } => {
      let credential = fixture!(credential_for(doc, *n), "build credential");
      let custom: Option<Object> = custom_claim
        .as_ref()
        .map(|v| Object::from([("x-claim".to_string(), json!(v))]));
      // the claims set is produced by the same public function create_credential_jwt documents it uses
      let payload = fixture!(credential.serialize_jwt(custom.clone()), "serialize_jwt").into_bytes();
      match call!(create_credential_jwt(&credential, storage, fragment, options, custom.clone())) {
        Ok(jwt) => Signed::Token {
          jws: Jws::new(jwt.as_str().to_string()),
          payload,
        },
        Err(e) => Signed::Refused(e),
      }
    }
    Signing::Presentation { audience, credentials } => {
      let presentation = fixture!(presentation_for(doc, *credentials), "build presentation");
      let popts = JwtPresentationOptions {
        expiration_date: Some(fixture!(Timestamp::parse("2030-01-01T00:00:00Z"), "timestamp")),
        // fixed: the default is the current time, which would make the expected payload time-dependent
        issuance_date: Some(fixture!(Timestamp::parse("2021-01-01T00:00:00Z"), "timestamp")),
        audience: if *audience {
          Some(fixture!(Url::parse("did:example:verifier"), "audience"))
        } else {
          None
        },
        custom_claims: None,
      };
      let payload = fixture!(presentation.serialize_jwt(&popts), "serialize_jwt").into_bytes();
      match call!(create_presentation_jwt(&presentation, storage, fragment, options, &popts)) {
        Ok(jwt) => Signed::Token {
          jws: Jws::new(jwt.as_str().to_string()),
          payload,
        },
        Err(e) => Signed::Refused(e),
      }
    }
  })
}

fn scaled(i: u16, len: usize) -> usize {
  (i as usize * len) >> 16
}

fn check_doc(c: &DocCase, obs: &mut Obs) -> CheckResult {
  if !(2..=5).contains(&c.methods.len())
    || c.opts.custom.iter().any(|(n, _)| FIELD_NAMES.contains(&n.as_str()))
    || c.methods.iter().any(|m| m.scope > 5)
  {
    obs.discard("malformed-case");
    return Ok(());
  }
  // ---- fixture: document, storage, methods
  let storage: MemStorage = Storage::new(JwkMemStore::new(), KeyIdMemstore::new());
  let mut doc = if c.iota {
    let network = fixture!(NetworkName::try_from("tst"), "network name");
    Doc::Iota(IotaDocument::new(&network))
  } else {
    let did = fixture!(CoreDID::parse("did:example:c08doc"), "did");
    Doc::Core(fixture!(CoreDocument::builder(Object::new()).id(did).build(), "document"))
  };
  let mut ids: Vec<DIDUrl> = Vec::new();
  let mut fragments: Vec<String> = Vec::new();
  let mut scopes: Vec<Vec<u8>> = Vec::new();
  for (i, m) in c.methods.iter().enumerate() {
    let explicit = format!("key-{i}");
    let fragment = fixture!(
      doc.generate(&storage, m.explicit_fragment.then_some(explicit.as_str()), scope_of(m.scope)),
      "generate_method"
    );
    let id = fixture!(doc.core().id().to_url().join(format!("#{fragment}")), "method id");
    let mut in_scopes = vec![m.scope];
    if m.scope == 0 {
      for r in 1..=5u8 {
        if m.attach >> (r - 1) & 1 == 1 {
          fixture!(doc.attach(&id, relationship_of(r)), "attach_method_relationship");
          in_scopes.push(r);
        }
      }
    }
    ids.push(id);
    fragments.push(fragment);
    scopes.push(in_scopes);
  }
  let signer = scaled(c.signer, c.methods.len());
  let others: Vec<usize> = (0..c.methods.len()).filter(|i| *i != signer).collect();

  // ---- signature options
  let o = &c.opts;
  let mut options = JwsSignatureOptions::new()
    .attach_jwk_to_header(o.attach_jwk)
    .detached_payload(o.detached);
  if let Some(b) = o.b64 {
    options = options.b64(b);
  }
  if let Some(v) = &o.typ {
    options = options.typ(v.clone());
  }
  if let Some(v) = &o.cty {
    options = options.cty(v.clone());
  }
  if let Some(v) = &o.url {
    options = options.url(fixture!(Url::parse(v), "url option"));
  }
  if let Some(v) = &o.nonce {
    options = options.nonce(v.clone());
  }
  let kid_override: Option<String> = match &o.kid {
    KidSpec::Default => None,
    KidSpec::Literal(s) => Some(s.clone()),
    KidSpec::OtherMethod(i) => Some(ids[others[scaled(*i, others.len())]].to_string()),
  };
  if let Some(k) = &kid_override {
    options = options.kid(k.clone());
  }
  if !o.custom.is_empty() {
    options = options.custom_header_parameters(o.custom.iter().cloned().collect::<Object>());
  }

  let kind = match &c.signing {
    Signing::Jws(_) => "create_jws",
    Signing::Credential { .. } => "create_credential_jwt",
    Signing::Presentation { .. } => "create_presentation_jwt",
  };
  obs.label(format!("doc:{kind}"));
  obs.label(format!("doc:methods-{}", c.methods.len()));
  if let Signing::Jws(p) = &c.signing {
    payload_labels(obs, &p.bytes());
  }

  // ---- sign
  let signed = match catch(|| sign(&doc, &storage, &fragments[signer], &c.signing, &options)) {
    Err(p) => return obs.fail(format!("{kind}-panics"), format!("{kind} panicked: {} ({})", p.msg, p.sig())),
    Ok(r) => r?,
  };
  let (jws, payload) = match signed {
    Signed::Refused(e) => {
      obs.label(format!("doc:{kind}:refused"));
      obs.label(format!("doc:refused:{}", short(&e, 60)));
      return Ok(());
    }
    Signed::Token { jws, payload } => (jws, payload),
  };
  let b64 = o.b64.unwrap_or(true);
  let detached_owned: Option<Vec<u8>> = o.detached.then(|| {
    if b64 {
      b64url(&payload).into_bytes()
    } else {
      payload.clone()
    }
  });
  let detached = detached_owned.as_deref();

  // ---- mirrored verification
  let mirrored = || {
    let mut v = JwsVerificationOptions::new();
    if let Some(n) = &o.nonce {
      v = v.nonce(n.clone());
    }
    if kid_override.is_some() {
      v = v.method_id(ids[signer].clone());
    }
    v
  };
  let verify = |options: &JwsVerificationOptions| catch(|| doc.verify(&jws, detached, options));
  match verify(&mirrored()) {
    Err(p) => vfail!(obs, "verify-jws-panics", "verify_jws panicked: {}", p.msg),
    Ok(Err(e)) => vfail!(
      obs,
      format!("{kind}-token-does-not-verify"),
      "verify_jws with mirrored options failed on the producing document: {e}; options {:?}; token {}",
      o,
      short(jws.as_str(), 300)
    ),
    Ok(Ok(decoded)) => {
      // The JWT calls serialise the claims themselves; `payload` is what the public `serialize_jwt` gives for the same
      // value. The two are the same claims set, which is a JSON value, not a byte string.
      let same_json = kind != "create_jws"
        && matches!(
          (serde_json::from_slice::<Value>(&decoded.claims), serde_json::from_slice::<Value>(&payload)),
          (Ok(a), Ok(b)) if a == b
        );
      vensure!(
        obs,
        decoded.claims.as_ref() == payload.as_slice() || same_json,
        format!("{kind}-verified-claims-differ"),
        "verify_jws returned claims {:?}, signed payload {:?}",
        short(&String::from_utf8_lossy(&decoded.claims), 200),
        short(&String::from_utf8_lossy(&payload), 200)
      );
      // the protected header the statement says is assembled from the options
      let mut want: Members = vec![
        ("alg".into(), json!("EdDSA")),
        ("kid".into(), json!(kid_override.clone().unwrap_or_else(|| ids[signer].to_string()))),
        ("typ".into(), json!(o.typ.clone().unwrap_or_else(|| "JWT".to_string()))),
      ];
      if let Some(v) = &o.cty {
        want.push(("cty".into(), json!(v)));
      }
      if let Some(v) = &o.url {
        want.push(("url".into(), json!(v)));
      }
      if let Some(v) = &o.nonce {
        want.push(("nonce".into(), json!(v)));
      }
      if o.b64 == Some(false) {
        want.push(("b64".into(), json!(false)));
        want.push(("crit".into(), json!(["b64"])));
      }
      if o.attach_jwk {
        let method = fixture!(
          doc.core().resolve_method(&ids[signer], None).ok_or("signer not resolvable"),
          "resolve signer"
        );
        let jwk = fixture!(method.data().try_public_key_jwk(), "method jwk");
        want.push(("jwk".into(), fixture!(serde_json::to_value(jwk), "jwk value")));
      }
      want.extend(o.custom.iter().cloned());
      let seen = fixture!(serde_json::to_value(&decoded.protected), "serialise protected header");
      let empty = serde_json::Map::new();
      let seen_members = seen.as_object().unwrap_or(&empty);
      // Every member the options ask for must be there with that value. Members beyond those (b64:true spelled
      // out with crit, or anything a later version adds) do not contradict the statement and are only counted.
      for (name, value) in &want {
        vensure!(
          obs,
          seen_members.get(name) == Some(value),
          format!("{kind}-header-differs-from-options"),
          "protected header member {name:?} is {:?}, the signature options ask for {value}; header {seen}",
          seen_members.get(name)
        );
      }
      vensure!(
        obs,
        o.b64 == Some(false) || seen_members.get("b64") != Some(&json!(false)),
        format!("{kind}-header-differs-from-options"),
        "protected header carries b64:false although the options did not ask for an unencoded payload; header {seen}"
      );
      if seen_members.len() != want.len() || decoded.unprotected.is_some() {
        obs.label("doc:header-has-members-beyond-options");
      }
    }
  }
  obs.label(format!("doc:{kind}:verified"));
  obs.label(if c.iota { "doc:iota-document" } else { "doc:core-document" });
  for (on, l) in [
    (o.b64 == Some(false), "unencoded"),
    (o.detached, "detached"),
    (o.attach_jwk, "attach-jwk"),
    (matches!(o.kid, KidSpec::Literal(_)), "kid-literal"),
    (!o.custom.is_empty(), "custom-parameters"),
    (o.url.is_some(), "url"),
    (o.typ.is_some(), "typ"),
    (o.cty.is_some(), "cty"),
  ] {
    if on {
      obs.label(format!("doc:verified-with:{l}"));
    }
  }
  if c.methods.len() >= 3 {
    obs.nontrivial();
  }

  // ---- (i) never under another method's key
  for &j in &others {
    let v = mirrored().method_id(ids[j].clone());
    match verify(&v) {
      Err(p) => vfail!(obs, "verify-jws-panics", "verify_jws panicked: {}", p.msg),
      Ok(Ok(_)) => vfail!(
        obs,
        "verifies-under-other-method",
        "token of method {} verifies with method_id {}",
        ids[signer],
        ids[j]
      ),
      Ok(Err(_)) => {}
    }
  }
  obs.label("doc:other-method-rejected");
  if let KidSpec::OtherMethod(_) = o.kid {
    // the kid names another method: without method_id the verifier resolves that method's key
    let mut v = JwsVerificationOptions::new();
    if let Some(n) = &o.nonce {
      v = v.nonce(n.clone());
    }
    match verify(&v) {
      Err(p) => vfail!(obs, "verify-jws-panics", "verify_jws panicked: {}", p.msg),
      Ok(Ok(_)) => vfail!(
        obs,
        "verifies-under-other-method",
        "token of method {} whose kid names another method verifies under that kid",
        ids[signer]
      ),
      Ok(Err(_)) => obs.label("doc:kid-of-other-method-rejected"),
    }
  }

  // ---- (ii) nonce
  let wrong = if Some(&c.wrong_nonce) == o.nonce.as_ref() {
    format!("{}x", c.wrong_nonce)
  } else {
    c.wrong_nonce.clone()
  };
  let mut nonce_variants = vec![("different", mirrored().nonce(wrong))];
  // near misses of the token's nonce: other case, a proper prefix, an extension, surrounding blanks, the empty string
  if let Some(n) = &o.nonce {
    let mut near: Vec<String> = vec![format!("{n} "), format!(" {n}"), format!("{n}{n}"), String::new()];
    if let Some((cut, _)) = n.char_indices().last() {
      near.push(n[..cut].to_string());
    }
    let flipped: String = n
      .chars()
      .map(|c| if c.is_ascii_lowercase() { c.to_ascii_uppercase() } else { c.to_ascii_lowercase() })
      .collect();
    near.push(flipped);
    for candidate in near {
      if candidate != *n {
        nonce_variants.push(("near-miss", mirrored().nonce(candidate)));
      }
    }
  } else {
    // a token without nonce under an expected empty nonce
    nonce_variants.push(("different", mirrored().nonce(String::new())));
  }
  if o.nonce.is_some() {
    let mut v = mirrored();
    v.nonce = None;
    nonce_variants.push(("missing", v));
  }
  for (what, v) in nonce_variants {
    match verify(&v) {
      Err(p) => vfail!(obs, "verify-jws-panics", "verify_jws panicked: {}", p.msg),
      Ok(Ok(_)) => vfail!(
        obs,
        format!("verifies-with-{what}-nonce"),
        "token with nonce {:?} verifies with expected nonce {:?}",
        o.nonce,
        v.nonce
      ),
      Ok(Err(_)) => obs.label(format!("doc:nonce-{what}-rejected")),
    }
  }

  // ---- (iii) scopes
  for s in 0..=5u8 {
    let v = mirrored().method_scope(scope_of(s));
    let contains = scopes[signer].contains(&s);
    match verify(&v) {
      Err(p) => vfail!(obs, "verify-jws-panics", "verify_jws panicked: {}", p.msg),
      Ok(Ok(_)) => {
        vensure!(
          obs,
          contains,
          "verifies-in-excluding-scope",
          "method {} lives in scopes {:?} but its token verifies under scope {}",
          ids[signer],
          scopes[signer],
          scope_of(s).as_str()
        );
        obs.label("doc:scope-containing-accepted");
      }
      Ok(Err(e)) => {
        vensure!(
          obs,
          !contains,
          "rejected-in-containing-scope",
          "method {} lives in scopes {:?} but verification under scope {} fails: {e}",
          ids[signer],
          scopes[signer],
          scope_of(s).as_str()
        );
        obs.label("doc:scope-excluding-rejected");
      }
    }
  }
  if scopes[signer].len() >= 2 {
    obs.label("doc:signer-in-several-scopes");
  }
  Ok(())
}

pub fn check(case: &Case, obs: &mut Obs) -> CheckResult {
  match case {
    Case::Enc(c) => check_enc(c, obs),
    Case::Doc(c) => check_doc(c, obs),
  }
}

// ---------------------------------------------------------------------------------------------
// Generators
// ---------------------------------------------------------------------------------------------

/// Text with the characters that matter to JSON writers, base64 and the compact form.
fn awkward_text(max: usize) -> impl Strategy<Value = String> {
  let chars = vec![
    'a', 'Z', '0', ' ', '.', '"', '\\', '/', '\n', '\t', '\r', '\u{0}', '\u{1f}', '\u{7f}', '~', '-', '_', '{', '}', ':',
    ',', 'é', 'ß', '✓', '\u{10348}', '\u{2028}',
  ];
  prop::collection::vec(prop::sample::select(chars), 1..=max).prop_map(|v| v.into_iter().collect())
}

fn text() -> impl Strategy<Value = String> {
  prop_oneof![
    3 => "[a-zA-Z0-9_-]{1,12}",
    1 => awkward_text(8),
  ]
}

fn payload_unit() -> impl Strategy<Value = Vec<u8>> {
  prop_oneof![
    // binary (made non-UTF-8 by a lone continuation byte)
    2 => prop::collection::vec(any::<u8>(), 0..40).prop_map(|mut v| { v.push(0x80); v }),
    // quotes, backslashes, control characters, periods, non-ASCII
    3 => awkward_text(24).prop_map(String::into_bytes),
    // URL-safe characters only
    2 => "[A-Za-z0-9_~-]{1,40}".prop_map(String::into_bytes),
    // printable ASCII without period (the compact form's default character set)
    2 => "[ -\\-/-~]{1,40}".prop_map(String::into_bytes),
    // with periods
    1 => "[a-z]{0,5}\\.[a-z.]{0,5}".prop_map(String::into_bytes),
    // a JSON claims set
    2 => (text(), any::<i64>()).prop_map(|(s, n)| json!({"iss": s, "exp": n, "nested": {"a": [1, 2]}}).to_string().into_bytes()),
  ]
}

fn payload_spec() -> impl Strategy<Value = PayloadSpec> {
  (payload_unit(), prop_oneof![8 => Just(1u16), 1 => 2u16..20, 1 => 200u16..600])
    .prop_map(|(unit, repeat)| PayloadSpec { unit, repeat })
}

fn custom_value() -> impl Strategy<Value = Value> {
  prop_oneof![
    3 => text().prop_map(Value::String),
    1 => any::<i64>().prop_map(|n| json!(n)),
    1 => any::<bool>().prop_map(Value::Bool),
    1 => Just(Value::Null),
    1 => prop::collection::vec(text(), 0..3).prop_map(|v| json!(v)),
    1 => (text(), any::<u32>()).prop_map(|(s, n)| json!({"k": s, "n": [n, null]})),
  ]
}

/// Names without a dedicated header field (the caller precondition for custom parameters).
const CUSTOM_NAMES: &[&str] = &[
  "x-custom",
  "ext",
  "http://example.com/claims/p",
  "a b",
  "ключ",
  "q\"uote\\",
  "B64",
  "ALG",
  "x5t#s256",
  "exp",
];

fn custom_members(max: usize) -> impl Strategy<Value = Members> {
  prop::sample::subsequence(CUSTOM_NAMES.to_vec(), 0..=max).prop_flat_map(|names| {
    let n = names.len();
    prop::collection::vec(custom_value(), n).prop_map(move |values| names.iter().map(|s| s.to_string()).zip(values).collect())
  })
}

const URLS: &[&str] = &[
  "https://example.com/",
  "https://example.com/acme/new-order?x=1#frag",
  "did:example:123",
];

/// Optional members with string values, by name.
fn optional_member(name: &'static str) -> BoxedStrategy<(String, Value)> {
  match name {
    "url" | "jku" | "x5u" => prop::sample::select(URLS.to_vec())
      .prop_map(move |u| (name.to_string(), json!(u)))
      .boxed(),
    "x5c" => prop::collection::vec("[A-Za-z0-9+/]{4,12}", 1..3)
      .prop_map(move |v| (name.to_string(), json!(v)))
      .boxed(),
    _ => text().prop_map(move |s| (name.to_string(), json!(s))).boxed(),
  }
}

const OPTIONAL_NAMES: &[&str] = &["kid", "typ", "cty", "nonce", "url", "jku", "x5u", "x5t", "x5t#S256", "x5c"];

/// One recipient from the accept region: every member name lands in at most one header; `b64` (with crit)
/// only in the protected header.
fn recip_strategy(form: Form, b64: Option<bool>) -> impl Strategy<Value = Recip> {
  let compact = form == Form::Compact;
  // 0 = absent, 1 = protected, 2 = unprotected
  let position = move || {
    if compact {
      prop_oneof![3 => Just(0u8), 2 => Just(1u8)].boxed()
    } else {
      prop_oneof![3 => Just(0u8), 2 => Just(1u8), 1 => Just(2u8)].boxed()
    }
  };
  let optionals: Vec<BoxedStrategy<(u8, (String, Value))>> = OPTIONAL_NAMES
    .iter()
    .map(|n| (position(), optional_member(n)).boxed())
    .collect();
  let customs = custom_members(3).prop_flat_map(move |m| {
    let n = m.len();
    (Just(m), prop::collection::vec(if compact { 1u8..=1 } else { 1u8..=2 }, n))
  });
  (
    0u8..4,
    if compact { Just(1u8).boxed() } else { prop_oneof![9 => Just(1u8), 1 => Just(2u8)].boxed() },
    optionals,
    customs,
    position(),     // jwk
    any::<bool>(),  // crit lists b64 twice
    any::<bool>(),  // an empty header is passed as Some(empty) rather than None
    any::<bool>(),  // member order reversed
  )
    .prop_map(move |(key, alg_pos, optionals, (customs, custom_pos), jwk_pos, crit_twice, keep_empty, rev)| {
      let mut p: Members = Vec::new();
      let mut u: Members = Vec::new();
      let mut put = |pos: u8, m: (String, Value)| match pos {
        1 => p.push(m),
        2 => u.push(m),
        _ => {}
      };
      put(alg_pos, ("alg".into(), json!("EdDSA")));
      if let Some(b) = b64 {
        put(1, ("b64".into(), json!(b)));
        put(1, ("crit".into(), if crit_twice { json!(["b64", "b64"]) } else { json!(["b64"]) }));
      }
      for (pos, m) in optionals {
        put(pos, m);
      }
      for (m, pos) in customs.into_iter().zip(custom_pos) {
        put(pos, m);
      }
      put(jwk_pos, ("jwk".into(), EdKey::derive(KEY_FAMILY, key as u64).public_jwk_json()));
      if rev {
        p.reverse();
        u.reverse();
      }
      let protected = if p.is_empty() && !(keep_empty || compact) { None } else { Some(p) };
      let unprotected = if u.is_empty() && !(keep_empty && !compact) { None } else { Some(u) };
      Recip { key, protected, unprotected }
    })
}

fn enc_strategy() -> impl Strategy<Value = Case> {
  let form = prop_oneof![2 => Just(Form::Compact), 3 => Just(Form::Flattened), 4 => Just(Form::General)];
  let b64 = prop_oneof![2 => Just(None), 1 => Just(Some(true)), 3 => Just(Some(false))];
  (form, b64, any::<bool>(), any::<bool>(), payload_spec()).prop_flat_map(|(form, b64, detached, url_safe, payload)| {
    let n = if form == Form::General { 1..=4usize } else { 1..=1usize };
    // recipients of one token: b64 agrees effectively; `true` may be spelled out or left out per recipient
    let agreeing = move || {
      any::<bool>().prop_flat_map(move |spell_out| {
        let literal = match b64 {
          Some(true) if !spell_out => None,
          other => other,
        };
        recip_strategy(form, literal)
      })
    };
    // one token in eight (general form only) gets a last recipient whose b64 disagrees with the others
    let deviating = move || {
      let other = match b64 {
        Some(false) => prop_oneof![Just(None), Just(Some(true))].boxed(),
        _ => Just(Some(false)).boxed(),
      };
      // half of the deviating recipients carry no protected header at all (only `alg` in the unprotected one)
      (other, any::<bool>(), 0u8..4).prop_flat_map(move |(literal, header_less, key)| {
        if header_less {
          Just(Recip {
            key,
            protected: None,
            unprotected: Some(vec![("alg".to_string(), json!("EdDSA"))]),
          })
          .boxed()
        } else {
          recip_strategy(form, literal).boxed()
        }
      })
    };
    let recips = (prop::collection::vec(agreeing(), n), prop_oneof![7 => Just(false), 1 => Just(true)], deviating()).prop_map(
      move |(mut list, mixed, odd)| {
        if mixed && form == Form::General {
          if list.len() >= 4 {
            list.pop();
          }
          list.push(odd);
        }
        list
      },
    );
    (recips, Just(payload)).prop_map(move |(recipients, payload)| {
      Case::Enc(EncCase {
        form,
        payload,
        detached,
        url_safe,
        recipients,
      })
    })
  })
}

fn method_spec() -> impl Strategy<Value = MethodSpec> {
  (prop_oneof![3 => Just(0u8), 3 => 1u8..=5], 0u8..32, any::<bool>()).prop_map(|(scope, attach, explicit_fragment)| MethodSpec {
    scope,
    attach,
    explicit_fragment,
  })
}

fn opt<T: std::fmt::Debug + Clone + 'static>(s: impl Strategy<Value = T> + 'static) -> BoxedStrategy<Option<T>> {
  prop_oneof![Just(None).boxed(), s.prop_map(Some).boxed()].boxed()
}

fn opt_spec() -> impl Strategy<Value = OptSpec> {
  (
    prop_oneof![
      3 => Just(KidSpec::Default),
      2 => prop_oneof![text(), Just("did:example:elsewhere#key".to_string()), Just("#key-0".to_string())].prop_map(KidSpec::Literal),
      2 => any::<u16>().prop_map(KidSpec::OtherMethod),
    ],
    any::<bool>(),
    prop_oneof![2 => Just(None), 1 => Just(Some(true)), 2 => Just(Some(false))],
    opt(text()),
    opt(text()),
    opt(prop::sample::select(URLS.to_vec()).prop_map(str::to_string)),
    // the empty string is a nonce like any other
    prop_oneof![8 => opt(text()).boxed(), 1 => Just(Some(String::new())).boxed()],
    any::<bool>(),
    custom_members(3),
  )
    .prop_map(|(kid, attach_jwk, b64, typ, cty, url, nonce, detached, custom)| OptSpec {
      kid,
      attach_jwk,
      b64,
      typ,
      cty,
      url,
      nonce,
      detached,
      custom,
    })
}

fn doc_strategy() -> impl Strategy<Value = Case> {
  let signing = prop_oneof![
    6 => payload_spec().prop_map(Signing::Jws),
    1 => (any::<i64>(), opt(text())).prop_map(|(n, custom_claim)| Signing::Credential { n, custom_claim }),
    1 => (any::<bool>(), 0u8..3).prop_map(|(audience, credentials)| Signing::Presentation { audience, credentials }),
  ];
  (
    any::<bool>(),
    prop::collection::vec(method_spec(), 2..=5),
    any::<u16>(),
    signing,
    opt_spec(),
    text(),
  )
    .prop_map(|(iota, methods, signer, signing, mut opts, wrong_nonce)| {
      // JWT entry points document that they refuse detached / unencoded payloads; keep most cases signable
      if !matches!(signing, Signing::Jws(_)) && signer % 8 != 0 {
        opts.detached = false;
        if opts.b64 == Some(false) {
          opts.b64 = None;
        }
      }
      Case::Doc(DocCase {
        iota,
        methods,
        signer,
        signing,
        opts,
        wrong_nonce,
      })
    })
}

pub fn run(ctx: &mut Ctx) {
  ctx.rule = "A: random encoder runs — form {compact, flattened, general with 1..4 recipients} × b64 {absent, true, false} × detached × \
    CharSet × payload classes {binary, quotes/backslash/control/period/non-ASCII text, URL-safe, printable ASCII, JSON claims; ×1, ×2..20, \
    ×200..600 repeats} × headers from the C11 accept region (alg in either header, kid/typ/cty/nonce/url/jku/x5u/x5t/x5t#S256/x5c/jwk and up \
    to 3 custom members with awkward names/values in either header, empty headers). Oracle: own splitter + RFC 7515/7797 signing-input formula \
    on the produced token, then the library decoder: signing input, claims, signature, both headers (as JSON values), EdDSAJwsVerifier with the \
    signing key (must pass) and with another key (must fail). Non-trivial (A) = JSON form with b64=false or >= 2 recipients or payload needing \
    JSON escapes, or compact form with b64=false or detached payload. B: documents (CoreDocument / IotaDocument) with 2..5 generated methods in \
    random scopes plus attached relationships; create_jws / create_credential_jwt / create_presentation_jwt with random JwsSignatureOptions; \
    verify_jws must succeed with mirrored options and for every scope containing the method and must fail for every other method_id, a kid \
    naming another method, a different/missing nonce and every scope not containing the method. Non-trivial (B) = verified token of a document \
    with >= 3 methods. Distinct by case bytes."
    .into();
  ctx.assume("headers without alg in the protected header are valid for encoding and decoding but cannot be verified (C11): for them everything except signature verification is checked");
  ctx.assume("the decoder's detached_payload argument stands for the omitted payload member, i.e. it is passed in transmitted form (base64url text when b64 is true), as identity_storage's own test create_jws_detached does");
  ctx.assume("equality of headers is equality of their JSON serialisation (the decoder materialises an empty custom map where the encoder's input had none)");
  ctx.assume("custom header parameter names never collide with names JwsHeader/JwtHeader have fields for (caller precondition)");
  ctx.assume("encoder / signing-call refusals are acceptable and counted; vacuity guards require round trips in every form");
  ctx.assume("part B: JwkMemStore generates keys from OS randomness; the checked outcome does not depend on the key values, so a replay re-runs the same logic with fresh keys");
  ctx.assume("part B: the protected header must carry every member the signature options ask for (alg of the method's key, kid = override or method id, typ = option or JWT, cty/url/nonce/jwk/custom when set, b64:false + crit when b64 is false); additional members (e.g. b64:true spelled out) are tolerated and counted");

  ctx.proptest("enc", ctx.pick(30_000, 750_000), enc_strategy, check);
  ctx.extra.insert("wall_after_enc_s".into(), json!(ctx.start.elapsed().as_secs_f64()));
  ctx.proptest("doc", ctx.pick(6_000, 200_000), doc_strategy, check);

  for form in ["compact", "flattened", "general"] {
    ctx.require_class(&format!("enc:enc:{form}:roundtrip-ok"), 500);
    ctx.require_class(&format!("enc:enc:{form}:roundtrip-ok-unencoded-attached"), 50);
    ctx.require_class(&format!("enc:enc:{form}:unencoded:detached"), 100);
    // a detached payload never enters the token: binary payloads have to get through under either b64 setting
    ctx.require_class(&format!("enc:enc:{form}:roundtrip-ok-detached-binary-b64-true"), 20);
    ctx.require_class(&format!("enc:enc:{form}:roundtrip-ok-detached-binary-b64-false"), 20);
  }
  for n in 2..=4 {
    ctx.require_class(&format!("enc:enc:general:recipients-{n}"), 100);
  }
  for p in ["binary", "needs-json-escape", "utf8-with-period", "url-safe-only", "long", "non-ascii-utf8"] {
    ctx.require_class(&format!("enc:payload:{p}"), 100);
  }
  ctx.require_class("enc:enc:no-protected-alg-verify-skipped", 50);
  for kind in ["create_jws", "create_credential_jwt", "create_presentation_jwt"] {
    ctx.require_class(&format!("doc:doc:{kind}:verified"), 50);
  }
  for l in [
    "other-method-rejected",
    "kid-of-other-method-rejected",
    "nonce-different-rejected",
    "nonce-missing-rejected",
    "scope-containing-accepted",
    "scope-excluding-rejected",
    "signer-in-several-scopes",
  ] {
    ctx.require_class(&format!("doc:doc:{l}"), 50);
  }
  for l in [
    "unencoded",
    "detached",
    "attach-jwk",
    "kid-literal",
    "custom-parameters",
    "url",
    "typ",
    "cty",
  ] {
    ctx.require_class(&format!("doc:doc:verified-with:{l}"), 50);
  }
  ctx.require_class("doc:doc:iota-document", 50);
  ctx.require_class("doc:doc:core-document", 50);
  ctx.max_discard_pct(5);
}

pub fn replay(v: &serde_json::Value, obs: &mut Obs) -> Result<CheckResult, String> {
  replay_with::<Case>(v, obs, check)
}
