use crate::engine::PropertyDef;

pub mod c13;

pub fn registry() -> Vec<PropertyDef> {
  vec![
    PropertyDef { id: "C13", run: c13::run, replay: c13::replay },
  ]
}
