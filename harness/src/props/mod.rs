use crate::engine::PropertyDef;
use crate::fuzzglue::FuzzDef;

pub mod c05;
pub mod c13;

pub fn registry() -> Vec<PropertyDef> {
  vec![
    PropertyDef { id: "C05", run: c05::run, replay: c05::replay },
    PropertyDef { id: "C13", run: c13::run, replay: c13::replay },
  ]
}

/// Properties that have a libFuzzer target (harness/fuzz/fuzz_targets/*.rs) and how bytes become cases.
pub fn fuzz_registry() -> Vec<FuzzDef> {
  vec![
    FuzzDef { id: "C05", decode: c05::fuzz_decode },
    FuzzDef { id: "C13", decode: c13::fuzz_decode },
  ]
}
