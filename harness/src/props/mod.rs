use crate::engine::PropertyDef;
use crate::fuzzglue::FuzzDef;

pub mod c13;

pub fn registry() -> Vec<PropertyDef> {
  vec![
    PropertyDef { id: "C13", run: c13::run, replay: c13::replay },
  ]
}

/// Properties that have a libFuzzer target (harness/fuzz/fuzz_targets/*.rs) and how bytes become cases.
pub fn fuzz_registry() -> Vec<FuzzDef> {
  vec![
    FuzzDef { id: "C13", decode: c13::fuzz_decode },
  ]
}
