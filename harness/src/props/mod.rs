use crate::engine::PropertyDef;
use crate::fuzzglue::FuzzDef;

pub mod c01;
pub mod c02;
pub mod c03;
pub mod c04;
pub mod c05;
pub mod c06;
pub mod c07;
pub mod c08;
pub mod c09;
pub mod c10;
pub mod c11;
pub mod c12;
pub mod c13;
pub mod c14;
pub mod c15;
pub mod c16;
pub mod c17;
pub mod c18;
pub mod c19;
pub mod c20;

pub fn registry() -> Vec<PropertyDef> {
  vec![
    PropertyDef { id: "C01", run: c01::run, replay: c01::replay },
    PropertyDef { id: "C02", run: c02::run, replay: c02::replay },
    PropertyDef { id: "C03", run: c03::run, replay: c03::replay },
    PropertyDef { id: "C04", run: c04::run, replay: c04::replay },
    PropertyDef { id: "C05", run: c05::run, replay: c05::replay },
    PropertyDef { id: "C06", run: c06::run, replay: c06::replay },
    PropertyDef { id: "C07", run: c07::run, replay: c07::replay },
    PropertyDef { id: "C08", run: c08::run, replay: c08::replay },
    PropertyDef { id: "C09", run: c09::run, replay: c09::replay },
    PropertyDef { id: "C10", run: c10::run, replay: c10::replay },
    PropertyDef { id: "C11", run: c11::run, replay: c11::replay },
    PropertyDef { id: "C12", run: c12::run, replay: c12::replay },
    PropertyDef { id: "C13", run: c13::run, replay: c13::replay },
    PropertyDef { id: "C14", run: c14::run, replay: c14::replay },
    PropertyDef { id: "C15", run: c15::run, replay: c15::replay },
    PropertyDef { id: "C16", run: c16::run, replay: c16::replay },
    PropertyDef { id: "C17", run: c17::run, replay: c17::replay },
    PropertyDef { id: "C18", run: c18::run, replay: c18::replay },
    PropertyDef { id: "C19", run: c19::run, replay: c19::replay },
    PropertyDef { id: "C20", run: c20::run, replay: c20::replay },
  ]
}

/// Properties that have a libFuzzer target (harness/fuzz/fuzz_targets/*.rs) and how bytes become cases.
pub fn fuzz_registry() -> Vec<FuzzDef> {
  vec![
    FuzzDef { id: "C01", decode: c01::fuzz_decode },
    FuzzDef { id: "C05", decode: c05::fuzz_decode },
    FuzzDef { id: "C10", decode: c10::fuzz_decode },
    FuzzDef { id: "C13", decode: c13::fuzz_decode },
    FuzzDef { id: "C14", decode: c14::fuzz_decode },
    FuzzDef { id: "C17", decode: c17::fuzz_decode },
  ]
}
