//! C19 — Ordered-set collections keep order and key-uniqueness over all op sequences.
//!
//! `OrderedSet` is driven by operation sequences next to the duplicate-free list model of
//! `model::ordered_list` (written from the rustdoc and the Infra "ordered set" definition the rustdoc points to);
//! `OneOrSet` / `OneOrMany` are built through every constructor, extended, mapped, serialised and deserialised.

use crate::engine::*;
use crate::fixture;
use crate::model::ordered_list::keys_unique;
use crate::model::ordered_list::Keyed;
use crate::model::ordered_list::OrderedList;
use crate::vensure;
use crate::vfail;
use identity_core::common::KeyComparable;
use identity_core::common::OneOrMany;
use identity_core::common::OneOrSet;
use identity_core::common::OrderedSet;
use identity_core::convert::FromJson;
use identity_core::convert::ToJson;
use proptest::prelude::*;
use serde::de::DeserializeOwned;
use serde::Deserialize;
use serde::Serialize;
use serde_json::json;
use serde_json::Value;
use std::fmt::Debug;

// ---------------------------------------------------------------------------------------------
// Cases
// ---------------------------------------------------------------------------------------------

/// Element type the collection is instantiated with.
#[derive(Debug, Clone, Copy, PartialEq, Eq, Serialize, Deserialize)]
pub enum ElemTy {
  /// `u8`: the key is the value (`v` of every `(k, v)` pair is ignored).
  U8,
  /// `String`: the key is the whole string (`str`); key `k` is spelled by `str_name(k)`.
  Str,
  /// `KV { key, val }`: the key is a projection.
  Kv,
}

#[derive(Debug, Clone, PartialEq, Eq, Serialize, Deserialize)]
pub enum Op {
  Append { k: u8, v: u8 },
  Prepend { k: u8, v: u8 },
  /// `replace(&cur, element(k, v))`
  Replace { cur: u8, k: u8, v: u8 },
  Update { k: u8, v: u8 },
  Remove { k: u8 },
}

impl Op {
  fn name(&self) -> &'static str {
    match self {
      Op::Append { .. } => "append",
      Op::Prepend { .. } => "prepend",
      Op::Replace { .. } => "replace",
      Op::Update { .. } => "update",
      Op::Remove { .. } => "remove",
    }
  }
}

#[derive(Debug, Clone, Copy, PartialEq, Eq, Serialize, Deserialize)]
pub enum Container {
  OrderedSet,
  OneOrSet,
  OneOrMany,
}

/// One JSON element offered for deserialisation.
#[derive(Debug, Clone, PartialEq, Eq, Serialize, Deserialize)]
pub enum ElemJ {
  /// canonical JSON of `element(k, v)`
  Good { k: u8, v: u8 },
  /// a JSON value that is not an element of the type (index into the per-type table of such values)
  Bad(u8),
}

#[derive(Debug, Clone, PartialEq, Eq, Serialize, Deserialize)]
pub enum Doc {
  Bare(ElemJ),
  Array(Vec<ElemJ>),
  /// `[[…]]`: an array whose only element is an array
  Nested(Vec<ElemJ>),
  Null,
}

#[derive(Debug, Clone, Serialize, Deserialize)]
pub enum Case {
  /// Operation sequence on an initially empty `OrderedSet`, checked after every step.
  Seq { ty: ElemTy, ops: Vec<Op> },
  /// Every constructor of the three collections fed with the same list.
  Build { ty: ElemTy, items: Vec<(u8, u8)> },
  /// `OneOrSet`: build from `init`, `append` each of `adds`, then `map`/`try_map` with `key -> key / div`
  /// (`try_map` fails on `fail_key`). `OneOrMany`: build from `init`, `push` each of `adds`.
  Wrap {
    ty: ElemTy,
    init: Vec<(u8, u8)>,
    adds: Vec<(u8, u8)>,
    div: u8,
    fail_key: Option<u8>,
  },
  /// A JSON document offered to `from_json` of one container.
  Json { ty: ElemTy, container: Container, doc: Doc },
}

// ---------------------------------------------------------------------------------------------
// Element types
// ---------------------------------------------------------------------------------------------

/// Element whose key is a projection of the value. It is read from a JSON object only: a derived `Deserialize`
/// would also take the two-element array `[key, val]`, and an element type whose JSON can be an array makes the
/// untagged one-or-many choice ambiguous by itself (out of scope, see the assumptions).
#[derive(Debug, Clone, PartialEq, Eq, Serialize, Deserialize)]
#[serde(try_from = "std::collections::BTreeMap<String, u8>")]
pub struct KV {
  pub key: u8,
  pub val: u8,
}

impl TryFrom<std::collections::BTreeMap<String, u8>> for KV {
  type Error = String;
  fn try_from(m: std::collections::BTreeMap<String, u8>) -> Result<KV, String> {
    match (m.get("key"), m.get("val"), m.len()) {
      (Some(key), Some(val), 2) => Ok(KV { key: *key, val: *val }),
      _ => Err(format!("expected exactly the members key and val, got {m:?}")),
    }
  }
}

impl KeyComparable for KV {
  type Key = u8;
  fn key(&self) -> &u8 {
    &self.key
  }
}

fn str_name(k: u8) -> String {
  match k {
    0 => String::new(),
    1 => "a".into(),
    2 => "b".into(),
    3 => "ab".into(),
    4 => "A".into(),
    n => format!("k{n}"),
  }
}

/// Bridge between a library element type, its model counterpart and its JSON spelling.
trait El: KeyComparable + Clone + Debug + PartialEq + Serialize + DeserializeOwned {
  /// Element of the reference model.
  type M: Keyed + Debug;
  /// A value carrying only a key: argument of `replace`/`remove`/`contains`.
  type Probe: KeyComparable<Key = <Self as KeyComparable>::Key>;
  fn make(k: u8, v: u8) -> Self;
  fn model(k: u8, v: u8) -> Self::M;
  fn to_model(&self) -> Self::M;
  /// Generator pair `(k, v)` with `make(k, v) == *self` (`v` is 0 for key-only types).
  fn pair(&self) -> (u8, u8);
  fn probe(k: u8) -> Self::Probe;
  fn model_key(k: u8) -> <Self::M as Keyed>::K;
  /// Canonical JSON of `make(k, v)`, written by the harness.
  fn json(k: u8, v: u8) -> Value;
  /// JSON values that are certainly not elements (none of them an array).
  fn bad(i: u8) -> Value;
}

impl El for u8 {
  type M = u8;
  type Probe = u8;
  fn make(k: u8, _: u8) -> u8 {
    k
  }
  fn model(k: u8, _: u8) -> u8 {
    k
  }
  fn to_model(&self) -> u8 {
    *self
  }
  fn pair(&self) -> (u8, u8) {
    (*self, 0)
  }
  fn probe(k: u8) -> u8 {
    k
  }
  fn model_key(k: u8) -> u8 {
    k
  }
  fn json(k: u8, _: u8) -> Value {
    json!(k)
  }
  fn bad(i: u8) -> Value {
    match i.min(4) {
      0 => json!(256),
      1 => json!(-1),
      2 => json!("1"),
      3 => json!({"key": 1, "val": 1}),
      _ => json!(true),
    }
  }
}

impl El for String {
  type M = String;
  type Probe = String;
  fn make(k: u8, _: u8) -> String {
    str_name(k)
  }
  fn model(k: u8, _: u8) -> String {
    str_name(k)
  }
  fn to_model(&self) -> String {
    self.clone()
  }
  fn pair(&self) -> (u8, u8) {
    ((0..=u8::MAX).find(|k| str_name(*k) == *self).unwrap_or(u8::MAX), 0)
  }
  fn probe(k: u8) -> String {
    str_name(k)
  }
  fn model_key(k: u8) -> String {
    str_name(k)
  }
  fn json(k: u8, _: u8) -> Value {
    Value::String(str_name(k))
  }
  fn bad(i: u8) -> Value {
    match i.min(2) {
      0 => json!(1),
      1 => json!({"a": "a"}),
      _ => json!(false),
    }
  }
}

impl El for KV {
  type M = (u8, u8);
  type Probe = u8;
  fn make(k: u8, v: u8) -> KV {
    KV { key: k, val: v }
  }
  fn model(k: u8, v: u8) -> (u8, u8) {
    (k, v)
  }
  fn to_model(&self) -> (u8, u8) {
    (self.key, self.val)
  }
  fn pair(&self) -> (u8, u8) {
    (self.key, self.val)
  }
  fn probe(k: u8) -> u8 {
    k
  }
  fn model_key(k: u8) -> u8 {
    k
  }
  fn json(k: u8, v: u8) -> Value {
    json!({"key": k, "val": v})
  }
  fn bad(i: u8) -> Value {
    match i.min(3) {
      0 => json!({"key": 1}),
      1 => json!(7),
      2 => json!({"key": "1", "val": 1}),
      _ => json!("kv"),
    }
  }
}

/// Keys probed by the accessor sweep (covers every key any generator uses).
const UNIVERSE: u8 = 9;

fn models<T: El>(items: &[T]) -> Vec<T::M> {
  items.iter().map(El::to_model).collect()
}

fn make_all<T: El>(items: &[(u8, u8)]) -> Vec<T> {
  items.iter().map(|(k, v)| T::make(*k, *v)).collect()
}

fn model_all<T: El>(items: &[(u8, u8)]) -> Vec<T::M> {
  items.iter().map(|(k, v)| T::model(*k, *v)).collect()
}

// ---------------------------------------------------------------------------------------------
// OrderedSet: operation sequences
// ---------------------------------------------------------------------------------------------

/// Library state against model state: content and order, key uniqueness, read accessors.
/// `at` describes the situation; it is only rendered when something is wrong.
fn compare_set<T: El>(
  set: &OrderedSet<T>,
  model: &OrderedList<T::M>,
  op: &str,
  at: &dyn Fn() -> String,
  obs: &mut Obs,
) -> CheckResult {
  let got = models(set.as_slice());
  vensure!(
    obs,
    keys_unique(&got),
    format!("{op}-duplicate-key"),
    "{}: the set holds two elements with one key: {got:?}",
    at()
  );
  vensure!(
    obs,
    got == model.items(),
    format!("{op}-content-or-order"),
    "{}: set is {got:?}, the list model says {:?}",
    at(),
    model.items()
  );
  let iterated: Vec<T::M> = set.iter().map(El::to_model).collect();
  // the owning routes out of the set keep the order as well
  let owned: Vec<T::M> = models(&set.clone().into_iter().collect::<Vec<T>>());
  let as_vec: Vec<T::M> = models(&set.clone().into_vec());
  let by_index: Vec<T::M> = (0..set.len()).filter_map(|i| set.get(i)).map(El::to_model).collect();
  let ok = set.len() == model.len()
    && owned == model.items()
    && as_vec == model.items()
    && by_index == model.items()
    && set.is_empty() == model.is_empty()
    && set.head().map(El::to_model).as_ref() == model.items().first()
    && set.tail().map(El::to_model).as_ref() == model.items().last()
    && iterated == model.items()
    && (0..UNIVERSE).all(|k| set.contains(&T::probe(k)) == model.contains_key(&T::model_key(k)));
  vensure!(
    obs,
    ok,
    "ordered-set-accessor-mismatch",
    "{}: len/is_empty/head/tail/iter/contains disagree with the content {got:?}",
    at()
  );
  Ok(())
}

/// Run one mutating library call. A panic inside it contradicts "every sequence of operations"; `None` means the
/// panic's signature is a tolerated known finding and the case ends there.
fn lib_call<R>(f: impl FnOnce() -> R, op: &str, at: &dyn Fn() -> String, obs: &mut Obs) -> Result<Option<R>, Viol> {
  match catch(f) {
    Ok(r) => Ok(Some(r)),
    Err(p) => {
      obs.fail(format!("{op}-panics"), format!("{}: panicked: {}", at(), p.msg))?;
      Ok(None)
    }
  }
}

fn check_seq<T: El>(ops: &[Op], obs: &mut Obs) -> CheckResult {
  let mut set: OrderedSet<T> = OrderedSet::new();
  let mut model: OrderedList<T::M> = OrderedList::new();
  let mut kinds: Vec<&'static str> = Vec::new();
  let mut merges = false;
  for (i, op) in ops.iter().enumerate() {
    let name = op.name();
    if !kinds.contains(&name) {
      kinds.push(name);
    }
    let at = || format!("last operation of {:?} (on an initially empty set)", &ops[..=i]);
    // (flag reported by the library, flag of the model); `remove` compares the returned element instead
    let (got, want): (Option<bool>, bool) = match *op {
      Op::Append { k, v } => {
        let want = model.append(T::model(k, v));
        obs.label(if want { "append-added" } else { "append-refused" });
        (lib_call(|| set.append(T::make(k, v)), name, &at, obs)?, want)
      }
      Op::Prepend { k, v } => {
        let want = model.prepend(T::model(k, v));
        obs.label(if want { "prepend-added" } else { "prepend-refused" });
        (lib_call(|| set.prepend(T::make(k, v)), name, &at, obs)?, want)
      }
      Op::Replace { cur, k, v } => {
        let cur_at = model.position(&T::model_key(cur));
        let new_at = model.position(&T::model_key(k));
        obs.label(match (cur_at, new_at) {
          (Some(a), Some(b)) if a != b => {
            merges = true;
            "replace-merges-two"
          }
          (Some(_), Some(_)) => "replace-same-key",
          (Some(_), None) => "replace-current-only",
          (None, Some(_)) => "replace-new-key-only",
          (None, None) => "replace-neither",
        });
        let want = model.replace(&T::model_key(cur), T::model(k, v));
        (lib_call(|| set.replace(&T::probe(cur), T::make(k, v)), name, &at, obs)?, want)
      }
      Op::Update { k, v } => {
        let want = model.update(T::model(k, v));
        obs.label(if want { "update-hit" } else { "update-miss" });
        (lib_call(|| set.update(T::make(k, v)), name, &at, obs)?, want)
      }
      Op::Remove { k } => {
        let want = model.remove(&T::model_key(k));
        obs.label(if want.is_some() { "remove-hit" } else { "remove-miss" });
        let Some(got) = lib_call(|| set.remove(&T::probe(k)), name, &at, obs)? else {
          return Ok(());
        };
        let got = got.map(|e| e.to_model());
        vensure!(
          obs,
          got == want,
          "remove-returned-element",
          "{}: remove returned {got:?}, the list model says {want:?}",
          at()
        );
        (Some(true), true)
      }
    };
    let Some(got) = got else {
      return Ok(());
    };
    vensure!(
      obs,
      got == want,
      format!("{name}-flag"),
      "{}: the operation returned {got}, the list model says {want}",
      at()
    );
    compare_set(&set, &model, name, &at, obs)?;
  }
  if merges || kinds.len() >= 3 {
    obs.nontrivial();
  }
  // the final state survives its own JSON
  let at = || format!("after {ops:?} (on an initially empty set), content {:?}", model.items());
  let text = fixture!(set.to_json(), "OrderedSet::to_json");
  match catch(|| OrderedSet::<T>::from_json(&text)) {
    Ok(Ok(back)) => vensure!(
      obs,
      back == set,
      "ordered-set-json-roundtrip",
      "{}: from_json({text}) gives {:?}",
      at(),
      models(back.as_slice())
    ),
    Ok(Err(e)) => vfail!(obs, "ordered-set-json-roundtrip", "{}: own JSON {text} is rejected: {e}", at()),
    Err(p) => vfail!(obs, "ordered-set-json-panics", "{}: from_json({text}) panicked: {}", at(), p.msg),
  }
  Ok(())
}

// ---------------------------------------------------------------------------------------------
// OneOrSet / OneOrMany batteries (for values built through constructors)
// ---------------------------------------------------------------------------------------------

/// `want` is the expected content (as generator pairs); `x` was built through constructors only.
fn one_or_set_battery<T: El>(x: &OneOrSet<T>, want: &[(u8, u8)], via: &str, obs: &mut Obs) -> CheckResult {
  let want_m = model_all::<T>(want);
  let got = models(x.as_slice());
  vensure!(obs, !got.is_empty() && x.len() >= 1, "one-or-set-empty", "{via}: the OneOrSet is empty");
  vensure!(
    obs,
    keys_unique(&got),
    "one-or-set-duplicate-key",
    "{via}: the OneOrSet holds two elements with one key: {got:?}"
  );
  vensure!(
    obs,
    got == want_m,
    "one-or-set-content-or-order",
    "{via}: content is {got:?}, expected {want_m:?}"
  );
  let iterated: Vec<T::M> = x.iter().map(El::to_model).collect();
  let by_index: Vec<T::M> = (0..x.len()).filter_map(|i| x.get(i)).map(El::to_model).collect();
  let as_set: OrderedSet<T> = OrderedSet::from(x.clone());
  let ok = x.len() == want_m.len()
    && iterated == want_m
    && by_index == want_m
    && x.get(x.len()).is_none()
    && models(&x.clone().into_vec()) == want_m
    && models(as_set.as_slice()) == want_m
    && (0..UNIVERSE).all(|k| x.contains(&T::probe(k)) == want_m.iter().any(|e| e.k() == T::model_key(k)));
  vensure!(
    obs,
    ok,
    "one-or-set-accessor-mismatch",
    "{via}: len/get/iter/into_vec/contains/OrderedSet::from disagree with the content {got:?}"
  );
  let value = fixture!(x.to_json_value(), "OneOrSet::to_json_value");
  if want.len() == 1 {
    obs.label("one-or-set-singleton");
    vensure!(
      obs,
      Value::eq(&value, &T::json(want[0].0, want[0].1)),
      "one-or-set-singleton-not-bare",
      "{via}: a singleton serialises as {value}, not as the bare element"
    );
  }
  let text = value.to_string();
  match catch(|| OneOrSet::<T>::from_json(&text)) {
    Ok(Ok(back)) => vensure!(
      obs,
      back == *x,
      "one-or-set-json-roundtrip",
      "{via}: from_json({text}) gives {back:?}, not the value serialised ({x:?})"
    ),
    Ok(Err(e)) => vfail!(obs, "one-or-set-json-roundtrip", "{via}: own JSON {text} is rejected: {e}"),
    Err(p) => vfail!(obs, "one-or-set-json-panics", "{via}: from_json({text}) panicked: {}", p.msg),
  }
  Ok(())
}

fn one_or_many_battery<T: El>(x: &OneOrMany<T>, want: &[(u8, u8)], via: &str, obs: &mut Obs) -> CheckResult {
  let want_m = model_all::<T>(want);
  let got = models(x.as_slice());
  vensure!(
    obs,
    got == want_m,
    "one-or-many-content-or-order",
    "{via}: content is {got:?}, expected {want_m:?}"
  );
  let iterated: Vec<T::M> = x.iter().map(El::to_model).collect();
  let by_index: Vec<T::M> = (0..x.len()).filter_map(|i| x.get(i)).map(El::to_model).collect();
  let owned: Vec<T::M> = x.clone().into_iter().map(|e| e.to_model()).collect();
  let ok = x.len() == want_m.len()
    && x.is_empty() == want_m.is_empty()
    && iterated == want_m
    && by_index == want_m
    && owned == want_m
    && x.get(x.len()).is_none()
    && models(&x.clone().into_vec()) == want_m
    && want.iter().all(|(k, v)| x.contains(&T::make(*k, *v)));
  vensure!(
    obs,
    ok,
    "one-or-many-accessor-mismatch",
    "{via}: len/is_empty/get/iter/into_iter/into_vec/contains disagree with the content {got:?}"
  );
  let value = fixture!(x.to_json_value(), "OneOrMany::to_json_value");
  if want.len() == 1 {
    obs.label("one-or-many-singleton");
    vensure!(
      obs,
      Value::eq(&value, &T::json(want[0].0, want[0].1)),
      "one-or-many-singleton-not-bare",
      "{via}: a singleton serialises as {value}, not as the bare element"
    );
  }
  let text = value.to_string();
  match catch(|| OneOrMany::<T>::from_json(&text)) {
    Ok(Ok(back)) => vensure!(
      obs,
      back == *x,
      "one-or-many-json-roundtrip",
      "{via}: from_json({text}) gives {back:?}, not the value serialised ({x:?})"
    ),
    Ok(Err(e)) => vfail!(obs, "one-or-many-json-roundtrip", "{via}: own JSON {text} is rejected: {e}"),
    Err(p) => vfail!(obs, "one-or-many-json-panics", "{via}: from_json({text}) panicked: {}", p.msg),
  }
  Ok(())
}

// ---------------------------------------------------------------------------------------------
// Constructors
// ---------------------------------------------------------------------------------------------

/// Iterator whose `size_hint` is chosen by the harness (`FromIterator` implementations read it).
struct Hinted<I> {
  inner: I,
  hint: (usize, Option<usize>),
}

impl<I: Iterator> Iterator for Hinted<I> {
  type Item = I::Item;
  fn next(&mut self) -> Option<I::Item> {
    self.inner.next()
  }
  fn size_hint(&self) -> (usize, Option<usize>) {
    self.hint
  }
}

/// The size hints an iterator of `n` items may legally report (`(0, Some(n))` with n >= 2 drives
/// `OneOrMany::from_iter` through its "upper bound was too small" correction loop as well).
fn hints(n: usize) -> Vec<(&'static str, (usize, Option<usize>))> {
  vec![
    ("exact", (n, Some(n))),
    ("filter-like", (0, Some(n))),
    ("unbounded", (0, None)),
    ("loose", (n.min(1), Some(n + 3))),
    // what `(0..usize::MAX).filter(..)` and chained iterators report: an upper bound far above what comes
    ("huge-upper", (0, Some(usize::MAX))),
  ]
}

/// Spelling of the first-occurrence de-duplication of `items` (by the model's key).
fn dedup_pairs<T: El>(items: &[(u8, u8)]) -> Vec<(u8, u8)> {
  let mut out: Vec<(u8, u8)> = Vec::new();
  for (k, v) in items {
    if !out.iter().any(|(k2, _)| T::model_key(*k2) == T::model_key(*k)) {
      out.push((*k, *v));
    }
  }
  out
}

fn check_build<T: El>(items: &[(u8, u8)], obs: &mut Obs) -> CheckResult {
  let m_items = model_all::<T>(items);
  let strict = OrderedList::from_list_strict(&m_items);
  let dedup = OrderedList::from_list_dedup(&m_items);
  let dedup_spelled = dedup_pairs::<T>(items);
  debug_assert_eq!(model_all::<T>(&dedup_spelled), dedup.items());
  obs.label(match (items.len(), strict.is_some()) {
    (0, _) => "list-empty",
    (1, _) => "list-singleton",
    (_, true) => "list-duplicate-free",
    (_, false) => "list-with-duplicates",
  });
  if strict.is_none() {
    obs.nontrivial();
  }

  // OrderedSet::try_from(Vec): duplicates are rejected, anything else is taken as is
  match (catch(|| OrderedSet::<T>::try_from(make_all::<T>(items))), &strict) {
    (Err(p), _) => vfail!(obs, "try-from-vec-panics", "OrderedSet::try_from({m_items:?}) panicked: {}", p.msg),
    (Ok(Ok(set)), Some(model)) => compare_set(&set, model, "try-from-vec", &|| format!("OrderedSet::try_from({m_items:?})"), obs)?,
    (Ok(Ok(set)), None) => vfail!(
      obs,
      "try-from-vec-accepts-duplicates",
      "OrderedSet::try_from({m_items:?}) is Ok({:?})",
      models(set.as_slice())
    ),
    (Ok(Err(e)), Some(_)) => vfail!(
      obs,
      "try-from-vec-rejects-duplicate-free-list",
      "OrderedSet::try_from({m_items:?}) fails: {e}"
    ),
    (Ok(Err(_)), None) => {}
  }

  // collect(): first occurrences, whatever the iterator's size hint
  for (hname, hint) in hints(items.len()) {
    let iter = Hinted {
      inner: make_all::<T>(items).into_iter(),
      hint,
    };
    match catch(|| iter.collect::<OrderedSet<T>>()) {
      Err(p) => vfail!(obs, "collect-panics", "collect of {m_items:?} (hint {hname}) panicked: {}", p.msg),
      Ok(set) => compare_set(&set, &dedup, "collect", &|| format!("collect of {m_items:?} (hint {hname})"), obs)?,
    }
  }

  // OneOrSet::try_from(Vec): additionally never empty
  let via = format!("OneOrSet::try_from({m_items:?})");
  match catch(|| OneOrSet::<T>::try_from(make_all::<T>(items))) {
    Err(p) => vfail!(obs, "one-or-set-constructor-panics", "{via} panicked: {}", p.msg),
    Ok(Ok(x)) => {
      vensure!(obs, !items.is_empty(), "one-or-set-empty", "{via} is Ok");
      vensure!(obs, strict.is_some(), "one-or-set-accepts-duplicates", "{via} is Ok({x:?})");
      one_or_set_battery(&x, items, &via, obs)?;
    }
    Ok(Err(e)) => vensure!(
      obs,
      items.is_empty() || strict.is_none(),
      "one-or-set-rejects-valid-list",
      "{via} fails: {e}"
    ),
  }

  // OneOrSet::new_set / TryFrom<OrderedSet> on the collected set
  for (name, build) in [
    ("OneOrSet::new_set", OneOrSet::<T>::new_set as fn(OrderedSet<T>) -> identity_core::Result<OneOrSet<T>>),
    ("OneOrSet::try_from(OrderedSet)", |s| OneOrSet::<T>::try_from(s)),
  ] {
    let via = format!("{name}(collect({m_items:?}))");
    let set: OrderedSet<T> = make_all::<T>(items).into_iter().collect();
    match catch(|| build(set)) {
      Err(p) => vfail!(obs, "one-or-set-constructor-panics", "{via} panicked: {}", p.msg),
      Ok(Ok(x)) => {
        vensure!(obs, !items.is_empty(), "one-or-set-empty", "{via} is Ok");
        one_or_set_battery(&x, &dedup_spelled, &via, obs)?;
      }
      Ok(Err(e)) => vensure!(obs, items.is_empty(), "one-or-set-rejects-valid-list", "{via} fails: {e}"),
    }
  }

  // OneOrSet::new_one / From<T>
  if let Some((k, v)) = items.first() {
    one_or_set_battery(&OneOrSet::new_one(T::make(*k, *v)), &items[..1], "OneOrSet::new_one", obs)?;
    one_or_set_battery(&OneOrSet::from(T::make(*k, *v)), &items[..1], "OneOrSet::from(T)", obs)?;
    one_or_many_battery(&OneOrMany::from(T::make(*k, *v)), &items[..1], "OneOrMany::from(T)", obs)?;
    one_or_many_battery(&OneOrMany::One(T::make(*k, *v)), &items[..1], "OneOrMany::One", obs)?;
  }

  // OneOrMany: From<Vec>, FromIterator under every size hint; duplicates and emptiness are fine
  let via = format!("OneOrMany::from({m_items:?})");
  match catch(|| OneOrMany::<T>::from(make_all::<T>(items))) {
    Err(p) => vfail!(obs, "one-or-many-constructor-panics", "{via} panicked: {}", p.msg),
    Ok(x) => one_or_many_battery(&x, items, &via, obs)?,
  }
  for (hname, hint) in hints(items.len()) {
    let via = format!("OneOrMany::from_iter({m_items:?}, hint {hname})");
    let iter = Hinted {
      inner: make_all::<T>(items).into_iter(),
      hint,
    };
    match catch(|| iter.collect::<OneOrMany<T>>()) {
      Err(p) => vfail!(obs, "one-or-many-constructor-panics", "{via} panicked: {}", p.msg),
      Ok(x) => one_or_many_battery(&x, items, &via, obs)?,
    }
  }
  if items.is_empty() {
    one_or_many_battery(&OneOrMany::<T>::default(), items, "OneOrMany::default()", obs)?;
  }
  Ok(())
}

// ---------------------------------------------------------------------------------------------
// OneOrSet::{append, map, try_map}, OneOrMany::push
// ---------------------------------------------------------------------------------------------

fn check_wrap<T: El>(init: &[(u8, u8)], adds: &[(u8, u8)], div: u8, fail_key: Option<u8>, obs: &mut Obs) -> CheckResult {
  let div = div.max(1);

  // ---- OneOrMany: default()/from(Vec) then push. The Vec a caller hands to `From<Vec<T>>` may own spare capacity
  // (`with_capacity`, a buffer that was filled and cleared); the value built from it is the same list.
  let starts: usize = 3;
  for start in 0..starts {
    let (mut many, how): (OneOrMany<T>, &str) = match start {
      0 if init.is_empty() => (OneOrMany::default(), "default()"),
      0 => (OneOrMany::from(make_all::<T>(init)), "from(Vec)"),
      1 => {
        let mut v: Vec<T> = Vec::with_capacity(init.len() + 4);
        v.extend(make_all::<T>(init));
        (OneOrMany::from(v), "from(Vec::with_capacity)")
      }
      _ => {
        let mut v: Vec<T> = make_all::<T>(adds);
        v.extend(make_all::<T>(init));
        v.clear();
        v.extend(make_all::<T>(init));
        (OneOrMany::from(v), "from(reused buffer)")
      }
    };
    let mut many_want: Vec<(u8, u8)> = init.to_vec();
    one_or_many_battery(&many, &many_want, &format!("OneOrMany start {how}"), obs)?;
    for (i, (k, v)) in adds.iter().enumerate() {
      let via = format!("{how}: push #{i} of {:?} onto {:?}", T::model(*k, *v), model_all::<T>(&many_want));
      if let Err(p) = catch(|| many.push(T::make(*k, *v))) {
        vfail!(obs, "one-or-many-push-panics", "{via} panicked: {}", p.msg);
        return Ok(());
      }
      many_want.push((*k, *v));
      if many_want.len() == 1 {
        obs.label(if start == 0 { "push-onto-empty" } else { "push-onto-empty-with-capacity" });
      }
      one_or_many_battery(&many, &many_want, &via, obs)?;
    }
  }

  // ---- OneOrSet: needs a non-empty duplicate-free start
  let start = dedup_pairs::<T>(init);
  if start.is_empty() {
    obs.label("wrap-many-only");
    return Ok(());
  }
  let mut x: OneOrSet<T> = fixture!(OneOrSet::try_from(make_all::<T>(&start)), "OneOrSet::try_from(duplicate-free Vec)");
  let mut model = fixture!(
    OrderedList::from_list_strict(&model_all::<T>(&start)).ok_or("duplicates"),
    "model of the start list"
  );
  let mut spelled = start.clone();
  one_or_set_battery(&x, &spelled, "OneOrSet start", obs)?;
  for (i, (k, v)) in adds.iter().enumerate() {
    let via = format!("append #{i} of {:?} onto {:?}", T::model(*k, *v), model.items());
    let want = model.append(T::model(*k, *v));
    if want {
      spelled.push((*k, *v));
    }
    obs.label(if want { "one-or-set-append-added" } else { "one-or-set-append-refused" });
    let got = match catch(|| x.append(T::make(*k, *v))) {
      Ok(f) => f,
      Err(p) => {
        vfail!(obs, "one-or-set-append-panics", "{via} panicked: {}", p.msg);
        return Ok(());
      }
    };
    vensure!(obs, got == want, "one-or-set-append-flag", "{via} returned {got}, the list model says {want}");
    one_or_set_battery(&x, &spelled, &via, obs)?;
  }
  obs.nontrivial();

  // ---- map / try_map with a key-collapsing function: key -> key / div
  let mapped: Vec<(u8, u8)> = spelled.iter().map(|(k, v)| (k / div, *v)).collect();
  let mapped_dedup = dedup_pairs::<T>(&mapped);
  if mapped_dedup.len() < spelled.len() {
    obs.label("map-collapses-keys");
  }
  let f = |e: T| -> T {
    let (k, v) = e.pair();
    T::make(k / div, v)
  };
  let via = format!("map(key -> key/{div}) of {:?}", model.items());
  match catch(|| x.clone().map(f)) {
    Err(p) => vfail!(obs, "one-or-set-map-panics", "{via} panicked: {}", p.msg),
    Ok(y) => one_or_set_battery(&y, &mapped_dedup, &via, obs)?,
  }
  let fails = fail_key.map(|fk| spelled.iter().any(|(k, _)| T::model_key(*k) == T::model_key(fk))).unwrap_or(false);
  let g = |e: T| -> Result<T, u8> {
    let (k, v) = e.pair();
    match fail_key {
      Some(fk) if T::model_key(fk) == T::model_key(k) => Err(k),
      _ => Ok(T::make(k / div, v)),
    }
  };
  let via = format!("try_map(key -> key/{div}, failing on {fail_key:?}) of {:?}", model.items());
  match catch(|| x.clone().try_map(g)) {
    Err(p) => vfail!(obs, "one-or-set-map-panics", "{via} panicked: {}", p.msg),
    Ok(Ok(y)) => {
      vensure!(obs, !fails, "try-map-swallows-error", "{via} is Ok although the function failed");
      one_or_set_battery(&y, &mapped_dedup, &via, obs)?;
    }
    Ok(Err(_)) => {
      obs.label("try-map-error");
      vensure!(obs, fails, "try-map-spurious-error", "{via} is Err although the function never failed");
    }
  }
  Ok(())
}

// ---------------------------------------------------------------------------------------------
// Deserialisation of offered JSON
// ---------------------------------------------------------------------------------------------

fn render_elem<T: El>(e: &ElemJ) -> Value {
  match e {
    ElemJ::Good { k, v } => T::json(*k, *v),
    ElemJ::Bad(i) => T::bad(*i),
  }
}

fn render_doc<T: El>(doc: &Doc) -> Value {
  match doc {
    Doc::Bare(e) => render_elem::<T>(e),
    Doc::Array(es) => Value::Array(es.iter().map(render_elem::<T>).collect()),
    Doc::Nested(es) => Value::Array(vec![Value::Array(es.iter().map(render_elem::<T>).collect())]),
    Doc::Null => Value::Null,
  }
}

enum Expect {
  /// must be rejected (reason names the clause)
  Reject(&'static str),
  /// the canonical JSON of a value reachable through constructors: must be accepted with this content
  Accept(Vec<(u8, u8)>),
  /// the statement does not say (singleton arrays for the wrappers); if accepted, this is the content
  Either(Vec<(u8, u8)>),
}

fn good_pairs(es: &[ElemJ]) -> Option<Vec<(u8, u8)>> {
  es.iter()
    .map(|e| match e {
      ElemJ::Good { k, v } => Some((*k, *v)),
      ElemJ::Bad(_) => None,
    })
    .collect()
}

fn expectation<T: El>(container: Container, doc: &Doc) -> Expect {
  match doc {
    // `null`: only the one-or-set wrapper may not be empty; for the other two an empty reading is as good as a refusal
    Doc::Null => match container {
      Container::OneOrSet => Expect::Reject("not-a-collection"),
      Container::OrderedSet | Container::OneOrMany => Expect::Either(Vec::new()),
    },
    Doc::Nested(_) => Expect::Reject("malformed-element"),
    Doc::Bare(ElemJ::Bad(_)) => Expect::Reject("malformed-element"),
    Doc::Bare(ElemJ::Good { k, v }) => match container {
      // a bare element offered to the plain set: the statement only speaks of lists; read as a one-element set or refused
      Container::OrderedSet => Expect::Either(vec![(*k, *v)]),
      Container::OneOrSet | Container::OneOrMany => Expect::Accept(vec![(*k, *v)]),
    },
    Doc::Array(es) => {
      let Some(pairs) = good_pairs(es) else {
        return Expect::Reject("malformed-element");
      };
      let unique = keys_unique(&model_all::<T>(&pairs));
      match container {
        Container::OrderedSet if !unique => Expect::Reject("duplicate-key"),
        Container::OrderedSet => Expect::Accept(pairs),
        Container::OneOrSet if pairs.is_empty() => Expect::Reject("empty"),
        Container::OneOrSet if !unique => Expect::Reject("duplicate-key"),
        Container::OneOrSet | Container::OneOrMany if pairs.len() == 1 => Expect::Either(pairs),
        Container::OneOrSet | Container::OneOrMany => Expect::Accept(pairs),
      }
    }
  }
}

/// What one container makes of a JSON text: content plus whether its own JSON reads back as an equal value.
struct Parsed<M> {
  content: Vec<M>,
  own_json: String,
  roundtrip: Result<bool, String>,
}

fn parse_with<T: El, C>(text: &str, slice: fn(&C) -> &[T]) -> Result<Result<Parsed<T::M>, String>, PanicInfo>
where
  C: FromJson + ToJson + PartialEq,
{
  catch(|| match C::from_json(text) {
    Err(e) => Err(e.to_string()),
    Ok(x) => {
      let own_json = x.to_json().unwrap_or_else(|e| format!("<to_json failed: {e}>"));
      let roundtrip = C::from_json(&own_json).map(|y| y == x).map_err(|e| e.to_string());
      Ok(Parsed {
        content: models(slice(&x)),
        own_json,
        roundtrip,
      })
    }
  })
}

fn check_json<T: El>(container: Container, doc: &Doc, obs: &mut Obs) -> CheckResult {
  let text = render_doc::<T>(doc).to_string();
  let expect = expectation::<T>(container, doc);
  let cname = match container {
    Container::OrderedSet => "ordered-set",
    Container::OneOrSet => "one-or-set",
    Container::OneOrMany => "one-or-many",
  };
  let outcome = match container {
    Container::OrderedSet => parse_with::<T, OrderedSet<T>>(&text, |x| x.as_slice()),
    Container::OneOrSet => parse_with::<T, OneOrSet<T>>(&text, |x| x.as_slice()),
    Container::OneOrMany => parse_with::<T, OneOrMany<T>>(&text, |x| x.as_slice()),
  };
  let outcome = match outcome {
    Ok(o) => o,
    Err(p) => return obs.fail(format!("{cname}-json-panics"), format!("from_json({text}) panicked: {}", p.msg)),
  };
  match (&outcome, &expect) {
    (Err(_), Expect::Reject(why)) => {
      obs.label(format!("rejected-{why}"));
      if matches!(*why, "duplicate-key" | "empty") {
        obs.nontrivial();
      }
    }
    (Err(_), Expect::Either(_)) => obs.label("singleton-array-rejected"),
    (Err(e), Expect::Accept(want)) => vfail!(
      obs,
      format!("{cname}-json-rejects-own-form"),
      "from_json({text}) fails ({e}) although this is the JSON form of the collection {:?}",
      model_all::<T>(want)
    ),
    (Ok(p), Expect::Reject(why)) => vfail!(
      obs,
      format!("{cname}-json-accepts-{why}"),
      "from_json({text}) is accepted with content {:?}",
      p.content
    ),
    (Ok(p), Expect::Accept(want) | Expect::Either(want)) => {
      obs.label(if matches!(expect, Expect::Either(_)) {
        "singleton-array-accepted"
      } else {
        "accepted"
      });
      obs.nontrivial();
      let want_m = model_all::<T>(want);
      vensure!(
        obs,
        p.content == want_m,
        format!("{cname}-json-content-or-order"),
        "from_json({text}) has content {:?}, the document lists {want_m:?}",
        p.content
      );
      match &p.roundtrip {
        Ok(true) => {}
        Ok(false) => vfail!(
          obs,
          format!("{cname}-json-roundtrip"),
          "from_json({text}) serialises as {} which reads back as a different value",
          p.own_json
        ),
        Err(e) => vfail!(
          obs,
          format!("{cname}-json-roundtrip"),
          "from_json({text}) serialises as {} which is rejected: {e}",
          p.own_json
        ),
      }
    }
  }
  Ok(())
}

// ---------------------------------------------------------------------------------------------
// check
// ---------------------------------------------------------------------------------------------

pub fn check(case: &Case, obs: &mut Obs) -> CheckResult {
  match case {
    Case::Seq { ty, ops } => match ty {
      ElemTy::U8 => check_seq::<u8>(ops, obs),
      ElemTy::Str => check_seq::<String>(ops, obs),
      ElemTy::Kv => check_seq::<KV>(ops, obs),
    },
    Case::Build { ty, items } => match ty {
      ElemTy::U8 => check_build::<u8>(items, obs),
      ElemTy::Str => check_build::<String>(items, obs),
      ElemTy::Kv => check_build::<KV>(items, obs),
    },
    Case::Wrap {
      ty,
      init,
      adds,
      div,
      fail_key,
    } => match ty {
      ElemTy::U8 => check_wrap::<u8>(init, adds, *div, *fail_key, obs),
      ElemTy::Str => check_wrap::<String>(init, adds, *div, *fail_key, obs),
      ElemTy::Kv => check_wrap::<KV>(init, adds, *div, *fail_key, obs),
    },
    Case::Json { ty, container, doc } => match ty {
      ElemTy::U8 => check_json::<u8>(*container, doc, obs),
      ElemTy::Str => check_json::<String>(*container, doc, obs),
      ElemTy::Kv => check_json::<KV>(*container, doc, obs),
    },
  }
}

// ---------------------------------------------------------------------------------------------
// Enumerators and strategies
// ---------------------------------------------------------------------------------------------

/// Every operation over `keys` keys and `vals` values.
fn op_table(keys: u8, vals: u8) -> Vec<Op> {
  let mut t = Vec::new();
  for k in 0..keys {
    for v in 0..vals {
      t.push(Op::Append { k, v });
      t.push(Op::Prepend { k, v });
      t.push(Op::Update { k, v });
      for cur in 0..keys {
        t.push(Op::Replace { cur, k, v });
      }
    }
    t.push(Op::Remove { k });
  }
  t
}

/// All sequences of 1..=max_len operations from `table` (shorter ones first).
fn sequences(ty: ElemTy, table: Vec<Op>, max_len: u32) -> impl Iterator<Item = Case> {
  let n = table.len();
  (1..=max_len).flat_map(move |len| {
    let table = table.clone();
    (0..n.pow(len)).map(move |mut code| {
      let mut ops = Vec::with_capacity(len as usize);
      for _ in 0..len {
        ops.push(table[code % n].clone());
        code /= n;
      }
      Case::Seq { ty, ops }
    })
  })
}

/// All lists of 0..=max_len elements from `alphabet`.
fn lists<E: Clone + 'static>(alphabet: Vec<E>, max_len: u32) -> impl Iterator<Item = Vec<E>> {
  let n = alphabet.len();
  (0..=max_len).flat_map(move |len| {
    let alphabet = alphabet.clone();
    (0..n.pow(len)).map(move |mut code| {
      let mut out = Vec::with_capacity(len as usize);
      for _ in 0..len {
        out.push(alphabet[code % n].clone());
        code /= n;
      }
      out
    })
  })
}

/// Elements over keys {0,1,2} (× values {0,1} for the projected-key type).
fn small_alphabet(ty: ElemTy) -> Vec<(u8, u8)> {
  match ty {
    ElemTy::Kv => (0..3).flat_map(|k| (0..2).map(move |v| (k, v))).collect(),
    ElemTy::U8 | ElemTy::Str => (0..3).map(|k| (k, 0)).collect(),
  }
}

const TYPES: [ElemTy; 3] = [ElemTy::U8, ElemTy::Str, ElemTy::Kv];

fn build_space(max_len: u32) -> impl Iterator<Item = Case> {
  TYPES
    .into_iter()
    .flat_map(move |ty| lists(small_alphabet(ty), max_len).map(move |items| Case::Build { ty, items }))
}

fn wrap_space() -> impl Iterator<Item = Case> {
  TYPES.into_iter().flat_map(|ty| {
    let adds: Vec<Vec<(u8, u8)>> = lists(small_alphabet(ty), 2).collect();
    lists(small_alphabet(ty), 2).flat_map(move |init| {
      let adds = adds.clone();
      adds.into_iter().flat_map(move |adds| {
        let init = init.clone();
        [(1u8, None), (2, None), (2, Some(0u8)), (3, Some(2))]
          .into_iter()
          .map(move |(div, fail_key)| Case::Wrap {
            ty,
            init: init.clone(),
            adds: adds.clone(),
            div,
            fail_key,
          })
      })
    })
  })
}

fn json_space(max_len: u32) -> impl Iterator<Item = Case> {
  let alphabet = vec![
    ElemJ::Good { k: 0, v: 0 },
    ElemJ::Good { k: 0, v: 1 },
    ElemJ::Good { k: 1, v: 0 },
    ElemJ::Good { k: 2, v: 1 },
    ElemJ::Bad(0),
  ];
  let singles: Vec<Doc> = alphabet
    .iter()
    .cloned()
    .map(Doc::Bare)
    .chain([ElemJ::Bad(1), ElemJ::Bad(2), ElemJ::Bad(3), ElemJ::Bad(4)].map(Doc::Bare))
    .chain([Doc::Null, Doc::Nested(vec![]), Doc::Nested(vec![ElemJ::Good { k: 1, v: 0 }])])
    .collect();
  let docs: Vec<Doc> = singles.into_iter().chain(lists(alphabet, max_len).map(Doc::Array)).collect();
  TYPES.into_iter().flat_map(move |ty| {
    let docs = docs.clone();
    [Container::OrderedSet, Container::OneOrSet, Container::OneOrMany]
      .into_iter()
      .flat_map(move |container| {
        docs.clone().into_iter().map(move |doc| Case::Json { ty, container, doc })
      })
  })
}

fn ty_strategy() -> impl Strategy<Value = ElemTy> {
  prop_oneof![Just(ElemTy::U8), Just(ElemTy::Str), Just(ElemTy::Kv)]
}

const RANDOM_KEYS: u8 = 8;
const RANDOM_VALS: u8 = 4;

fn op_strategy() -> impl Strategy<Value = Op> {
  let k = 0..RANDOM_KEYS;
  let v = 0..RANDOM_VALS;
  prop_oneof![
    3 => (k.clone(), v.clone()).prop_map(|(k, v)| Op::Append { k, v }),
    3 => (k.clone(), v.clone()).prop_map(|(k, v)| Op::Prepend { k, v }),
    4 => (k.clone(), k.clone(), v.clone()).prop_map(|(cur, k, v)| Op::Replace { cur, k, v }),
    2 => (k.clone(), v).prop_map(|(k, v)| Op::Update { k, v }),
    2 => k.prop_map(|k| Op::Remove { k }),
  ]
}

fn seq_strategy() -> impl Strategy<Value = Case> {
  (ty_strategy(), prop::collection::vec(op_strategy(), 0..=60)).prop_map(|(ty, ops)| Case::Seq { ty, ops })
}

fn pair_strategy() -> impl Strategy<Value = (u8, u8)> {
  (0..RANDOM_KEYS, 0..RANDOM_VALS)
}

fn build_strategy() -> impl Strategy<Value = Case> {
  (ty_strategy(), prop::collection::vec(pair_strategy(), 0..=14)).prop_map(|(ty, items)| Case::Build { ty, items })
}

fn wrap_strategy() -> impl Strategy<Value = Case> {
  (
    ty_strategy(),
    prop::collection::vec(pair_strategy(), 0..=5),
    prop::collection::vec(pair_strategy(), 0..=8),
    1u8..=4,
    prop::option::of(0..RANDOM_KEYS),
  )
    .prop_map(|(ty, init, adds, div, fail_key)| Case::Wrap {
      ty,
      init,
      adds,
      div,
      fail_key,
    })
}

fn json_strategy() -> impl Strategy<Value = Case> {
  let elem = || {
    prop_oneof![
      12 => pair_strategy().prop_map(|(k, v)| ElemJ::Good { k, v }),
      1 => (0u8..5).prop_map(ElemJ::Bad),
    ]
  };
  let doc = prop_oneof![
    2 => elem().prop_map(Doc::Bare),
    10 => prop::collection::vec(elem(), 0..=10).prop_map(Doc::Array),
    1 => prop::collection::vec(elem(), 0..=2).prop_map(Doc::Nested),
    1 => Just(Doc::Null),
  ];
  (
    ty_strategy(),
    prop_oneof![Just(Container::OrderedSet), Just(Container::OneOrSet), Just(Container::OneOrMany)],
    doc,
  )
    .prop_map(|(ty, container, doc)| Case::Json { ty, container, doc })
}

pub fn run(ctx: &mut Ctx) {
  let seq_len: u32 = ctx.pick(4, 5);
  ctx.rule = format!(
    "OrderedSet: every operation sequence of length 1..={seq_len} over append/prepend/replace(cur,new)/update/remove with keys {{0,1,2}} \
     for u8 (key = value) and keys {{0,1,2}} x values {{0,1}} for KV (key = projection), plus random sequences up to length 60 over 8 keys x 4 \
     values for u8/String/KV; after every step flag, content, order, key uniqueness and read accessors are compared with the \
     duplicate-free list model (Infra ordered-set semantics, as referenced by the rustdoc). Constructors: every list of length <= {} \
     over the small alphabets and random lists to length 14 through try_from(Vec), collect() under four size hints, OneOrSet::{{try_from, \
     new_set, new_one}}, OneOrMany::{{from, from_iter, default}}. Wrappers: append/push sequences, map/try_map with a key-collapsing \
     function. JSON: every array of length <= {} over four good and one malformed element, bare elements, null, nested arrays, for each \
     container x element type, plus random documents. Non-trivial = sequence with a replace that merges two present keys or with >= 3 \
     distinct operation kinds / list with duplicate keys / wrapper case reaching the OneOrSet stage / accepted JSON document or one \
     rejected for duplicates or emptiness; distinct by case bytes.",
    ctx.pick(5, 7),
    ctx.pick(4, 6)
  );
  ctx.assume(
    "replace(current, new) follows the Infra ordered-set definition the type's rustdoc refers to: if an element keyed `current` OR keyed \
     like `new` exists, the first such position receives `new` and every other such element is removed (flag true), otherwise nothing \
     changes (flag false)",
  );
  ctx.assume("a singleton JSON array offered to OneOrSet/OneOrMany may be accepted or rejected (it is not the JSON of any value built through constructors); if accepted its content and own-JSON round trip are checked");
  ctx.assume("'built through their constructors' excludes writing the public enum variant OneOrMany::Many(vec![x]) by hand");
  ctx.assume("element types are u8, String and a two-field struct; types whose own JSON is an array (or serde_json::Value) make the untagged One/Many choice inherently ambiguous and are out of scope");

  ctx.exhaustive("seq-u8", || sequences(ElemTy::U8, op_table(3, 1), seq_len), check);
  ctx.exhaustive("seq-kv", || sequences(ElemTy::Kv, op_table(3, 2), seq_len), check);
  ctx.proptest("seq-random", ctx.pick(30_000, 1_000_000), seq_strategy, check);
  let build_len = ctx.pick(5, 7);
  ctx.exhaustive("build", || build_space(build_len), check);
  ctx.proptest("build-random", ctx.pick(5_000, 200_000), build_strategy, check);
  ctx.exhaustive("wrap", wrap_space, check);
  ctx.proptest("wrap-random", ctx.pick(5_000, 200_000), wrap_strategy, check);
  let json_len = ctx.pick(4, 6);
  ctx.exhaustive("json", || json_space(json_len), check);
  ctx.proptest("json-random", ctx.pick(20_000, 500_000), json_strategy, check);

  for sub in ["seq-u8", "seq-kv", "seq-random"] {
    ctx.require_class(&format!("{sub}:replace-merges-two"), 100);
    ctx.require_class(&format!("{sub}:replace-new-key-only"), 100);
    ctx.require_class(&format!("{sub}:append-refused"), 100);
    ctx.require_class(&format!("{sub}:prepend-refused"), 100);
    ctx.require_class(&format!("{sub}:update-hit"), 100);
    ctx.require_class(&format!("{sub}:remove-hit"), 100);
  }
  ctx.require_class("build:list-with-duplicates", 100);
  ctx.require_class("build:list-duplicate-free", 50);
  ctx.require_class("build-random:list-duplicate-free", 100);
  ctx.require_class("build-random:list-with-duplicates", 100);
  ctx.require_class("build:one-or-set-singleton", 10);
  ctx.require_class("build:one-or-many-singleton", 10);
  ctx.require_class("wrap:map-collapses-keys", 50);
  ctx.require_class("wrap:try-map-error", 50);
  ctx.require_class("wrap:push-onto-empty", 10);
  ctx.require_class("wrap:one-or-set-append-refused", 50);
  ctx.require_class("json:accepted", 100);
  ctx.require_class("json:rejected-duplicate-key", 100);
  ctx.require_class("json:rejected-empty", 3);
  ctx.require_class("json-random:accepted", 100);
  ctx.require_class("json-random:rejected-duplicate-key", 100);
}

pub fn replay(v: &serde_json::Value, obs: &mut Obs) -> Result<CheckResult, String> {
  replay_with::<Case>(v, obs, check)
}
