// (included) tokens, packed formats, validators, and the registry of all entry points.

use crate::util::b64url;
use crate::util::EdKey;
use identity_credential::validator::FailFast;
use identity_credential::validator::JwtCredentialValidationOptions;
use identity_credential::validator::JwtCredentialValidator;
use identity_credential::validator::JwtPresentationValidationOptions;
use identity_credential::validator::JwtPresentationValidator;
use identity_credential::validator::StatusCheck;
use identity_credential::validator::SubjectHolderRelationship;
use identity_document::verifiable::JwsVerificationOptions;
use identity_eddsa_verifier::EdDSAJwsVerifier;

/// RFC 8037 key; its public part is `#key-1` of the fixed documents.
fn fixed_key() -> EdKey {
  let d = crate::util::b64url_decode_strict(b"nWGxne_9WmC6hEr0kuwsxERJxWl7MmkZcDusAxyuf2A").expect("constant");
  EdKey::from_seed(d.try_into().expect("32 bytes"))
}

fn fixed_jwk() -> Jwk {
  Jwk::from_json_value(fixed_key().public_jwk_json()).expect("constant jwk")
}

fn sweep_validation_item(item: identity_verification::jws::JwsValidationItem<'_>) -> bool {
  use_all!(
    item.protected_header().map(|h| h.to_json()),
    item.unprotected_header().map(|h| h.to_json()),
    item.nonce(),
    item.kid(),
    item.alg(),
    item.claims().len(),
    item.signing_input().len(),
    item.decoded_signature().len()
  );
  let key = fixed_jwk();
  let mut ok = false;
  // the item is consumed by verify: decode is cheap, so callers hand us fresh items per verifier
  match item.verify(&accepting_verifier(), &key) {
    Ok(d) => {
      ok = true;
      use_all!(d.claims.len(), d.protected.to_json(), d.unprotected.as_ref().map(|h| h.to_json()));
    }
    Err(e) => use_all!(e.to_string()),
  }
  ok
}

type DecodeFn = for<'a> fn(&Decoder, &'a [u8], Option<&'a [u8]>) -> identity_verification::jose::error::Result<identity_verification::jws::JwsValidationItem<'a>>;

/// `verify` consumes the decoded item, so it is decoded afresh for every verifier/key combination.
fn verify_variants(data: &[u8], decode: DecodeFn) {
  let dec = Decoder::new();
  let key = fixed_jwk();
  if let Ok(item) = decode(&dec, data, None) {
    let _ = item.verify(&rejecting_verifier(), &key);
  }
  if let Ok(item) = decode(&dec, data, None) {
    let _ = item.verify(&EdDSAJwsVerifier::default(), &key);
  }
  if let Ok(item) = decode(&dec, data, None) {
    let _ = item.verify(&identity_ecdsa_verifier::EcDSAJwsVerifier::default(), &key);
  }
  if let Ok(item) = decode(&dec, data, None) {
    let mut k2 = key.clone();
    k2.set_alg("ES256");
    let _ = item.verify(&accepting_verifier(), &k2);
  }
  // the same verifier handed over boxed and as a closure (the two adaptors the library ships)
  if let Ok(item) = decode(&dec, data, None) {
    let boxed: Box<dyn identity_verification::jws::JwsVerifier> = Box::new(EdDSAJwsVerifier::default());
    let _ = item.verify(&boxed, &key);
  }
  if let Ok(item) = decode(&dec, data, None) {
    let f = identity_verification::jws::JwsVerifierFn::from(
      |input: identity_verification::jws::VerificationInput, k: &Jwk| {
        identity_verification::jws::JwsVerifier::verify(&EdDSAJwsVerifier::default(), input, k)
      },
    );
    let _ = item.verify(&f, &key);
  }
  for jwk in JWK_SEEDS {
    if let (Ok(item), Ok(k)) = (decode(&dec, data, None), Jwk::from_json(jwk)) {
      let _ = item.verify(&EdDSAJwsVerifier::default(), &k);
    }
    if let (Ok(item), Ok(k)) = (decode(&dec, data, None), Jwk::from_json(jwk)) {
      let _ = item.verify(&identity_ecdsa_verifier::EcDSAJwsVerifier::default(), &k);
    }
  }
}

fn decode_compact_fn<'a>(d: &Decoder, data: &'a [u8], detached: Option<&'a [u8]>) -> identity_verification::jose::error::Result<identity_verification::jws::JwsValidationItem<'a>> {
  d.decode_compact_serialization(data, detached)
}

fn decode_flattened_fn<'a>(d: &Decoder, data: &'a [u8], detached: Option<&'a [u8]>) -> identity_verification::jose::error::Result<identity_verification::jws::JwsValidationItem<'a>> {
  d.decode_flattened_serialization(data, detached)
}

fn ep_decode_compact(data: &[u8]) -> Ep {
  let dec = Decoder::new();
  let mut acc = false;
  for detached in [None, Some(&b"detached payload"[..]), Some(&b""[..])] {
    if let Ok(item) = dec.decode_compact_serialization(data, detached) {
      sweep_validation_item(item);
      acc = true;
    }
  }
  verify_variants(data, decode_compact_fn);
  if acc {
    Ep::Accepted
  } else {
    late_if(data.iter().filter(|b| **b == b'.').count() == 2)
  }
}

fn ep_decode_flattened(data: &[u8]) -> Ep {
  let dec = Decoder::new();
  let mut acc = false;
  for detached in [None, Some(&b"detached payload"[..])] {
    if let Ok(item) = dec.decode_flattened_serialization(data, detached) {
      sweep_validation_item(item);
      acc = true;
    }
  }
  verify_variants(data, decode_flattened_fn);
  if acc {
    Ep::Accepted
  } else {
    late_if(serde_json::from_slice::<serde::de::IgnoredAny>(data).is_ok())
  }
}

fn ep_decode_general(data: &[u8]) -> Ep {
  let dec = Decoder::new();
  let mut acc = false;
  for detached in [None, Some(&b"detached payload"[..])] {
    if let Ok(iter) = dec.decode_general_serialization(data, detached) {
      for item in iter.flatten() {
        sweep_validation_item(item);
        acc = true;
      }
    }
  }
  if let Ok(iter) = dec.decode_general_serialization(data, None) {
    let key = fixed_jwk();
    for item in iter.flatten() {
      let _ = item.verify(&EdDSAJwsVerifier::default(), &key);
    }
  }
  if acc {
    Ep::Accepted
  } else {
    late_if(serde_json::from_slice::<serde::de::IgnoredAny>(data).is_ok())
  }
}

fn far_future() -> Timestamp {
  Timestamp::parse("9000-01-01T00:00:00Z").expect("constant")
}
fn far_past() -> Timestamp {
  Timestamp::parse("0100-01-01T00:00:00Z").expect("constant")
}

fn credential_options() -> Vec<JwtCredentialValidationOptions> {
  let holder = Url::parse("did:example:ebfeb1f712ebc6f1c276e12ec21").expect("constant");
  vec![
    JwtCredentialValidationOptions::default()
      .earliest_expiry_date(far_past())
      .latest_issuance_date(far_future()),
    JwtCredentialValidationOptions::default()
      .earliest_expiry_date(far_future())
      .latest_issuance_date(far_past())
      .status_check(StatusCheck::SkipUnsupported)
      .subject_holder_relationship(holder.clone(), SubjectHolderRelationship::AlwaysSubject)
      .verification_options(JwsVerificationOptions::default().nonce("n".to_string())),
    JwtCredentialValidationOptions::default()
      .earliest_expiry_date(far_past())
      .latest_issuance_date(far_future())
      .status_check(StatusCheck::SkipAll)
      .subject_holder_relationship(holder, SubjectHolderRelationship::SubjectOnNonTransferable)
      .verification_options(JwsVerificationOptions::default().method_scope(MethodScope::assertion_method())),
  ]
}

fn validate_credential_token(token: &str) -> bool {
  let doc = fixed_core_document();
  let jwt = Jwt::new(token.to_string());
  let v = JwtCredentialValidator::with_signature_verifier(EdDSAJwsVerifier::default());
  let mut acc = false;
  for o in credential_options() {
    for ff in [FailFast::FirstError, FailFast::AllErrors] {
      match v.validate::<_, Object>(&jwt, &doc, &o, ff) {
        Ok(d) => {
          acc = true;
          sweep_credential(&d.credential);
          use_all!(d.header.to_json(), d.custom_claims.as_ref().map(|c| c.len()));
        }
        Err(e) => use_all!(e.to_string(), format!("{e:?}")),
      }
    }
  }
  let docs = [doc];
  let _ = v.verify_signature::<_, Object>(&jwt, &docs, &JwsVerificationOptions::default());
  let _ = JwtCredentialValidator::with_signature_verifier(accepting_verifier()).verify_signature::<_, Object>(&jwt, &docs, &JwsVerificationOptions::default()).map(|d| sweep_credential(&d.credential));
  let _ = identity_credential::validator::JwtCredentialValidatorUtils::extract_issuer_from_jwt::<CoreDID>(&jwt);
  let _ = identity_credential::validator::JwtCredentialValidatorUtils::extract_issuer_from_jwt::<IotaDID>(&jwt);
  // the same token as a domain linkage credential, on its own and inside a DID configuration
  {
    use identity_credential::domain_linkage::DomainLinkageConfiguration;
    use identity_credential::domain_linkage::JwtDomainLinkageValidator;
    let dl = JwtDomainLinkageValidator::with_signature_verifier(EdDSAJwsVerifier::default());
    let doc = &docs[0];
    for domain in ["https://example.com", "https://example.com/path?q#f", "http://other.example:8080/"] {
      let Ok(domain) = Url::parse(domain) else { continue };
      for o in credential_options() {
        if let Err(e) = dl.validate_credential(doc, &jwt, &domain, &o) {
          use_all!(e.to_string(), format!("{e:?}"));
        }
        let configuration = DomainLinkageConfiguration::new(vec![jwt.clone(), jwt.clone()]);
        if let Err(e) = dl.validate_linkage(doc, &configuration, &domain, &o) {
          use_all!(e.to_string(), format!("{e:?}"));
        }
        let single = DomainLinkageConfiguration::new(vec![jwt.clone()]);
        let _ = dl.validate_linkage(doc, &single, &domain, &o);
      }
    }
  }
  acc
}

fn sign_with_fixed_key(claims: &str, header: &str) -> String {
  crate::util::sign_compact_ed25519(&fixed_key(), header, claims.as_bytes())
}

const CRED_HEADER: &str = r##"{"alg":"EdDSA","kid":"did:example:123#key-1","typ":"JWT"}"##;

/// raw token offered to the credential validator
fn ep_validate_credential_token(data: &[u8]) -> Ep {
  let Some(s) = text(data) else { return Ep::Rejected };
  if validate_credential_token(s) {
    Ep::Accepted
  } else {
    late_if(s.matches('.').count() == 2)
  }
}

/// claims JSON, signed by the harness with the issuer key (reaches the claim conversion and the validation units)
fn ep_validate_credential_claims(data: &[u8]) -> Ep {
  let Some((s, is_json)) = json_text(data) else { return Ep::Rejected };
  let tok = sign_with_fixed_key(s, CRED_HEADER);
  if validate_credential_token(&tok) {
    Ep::Accepted
  } else {
    late_if(is_json)
  }
}

/// header JSON for a fixed valid claims set, signed by the harness
fn ep_validate_credential_header(data: &[u8]) -> Ep {
  let Some((s, is_json)) = json_text(data) else { return Ep::Rejected };
  let tok = sign_with_fixed_key(CRED_CLAIMS, s);
  if validate_credential_token(&tok) {
    Ep::Accepted
  } else {
    late_if(is_json)
  }
}

fn validate_presentation_token(token: &str) -> bool {
  let doc = fixed_core_document();
  let jwt = Jwt::new(token.to_string());
  let v = JwtPresentationValidator::with_signature_verifier(EdDSAJwsVerifier::default());
  let opts = [
    JwtPresentationValidationOptions::default()
      .earliest_expiry_date(far_past())
      .latest_issuance_date(far_future()),
    JwtPresentationValidationOptions::default()
      .earliest_expiry_date(far_future())
      .latest_issuance_date(far_past())
      .presentation_verifier_options(JwsVerificationOptions::default().nonce("n".to_string())),
  ];
  let mut acc = false;
  for o in &opts {
    match v.validate::<_, Jwt, Object>(&jwt, &doc, o) {
      Ok(d) => {
        acc = true;
        sweep_presentation(&d.presentation);
        use_all!(d.header.to_json(), d.expiration_date, d.issuance_date, d.aud.as_ref().map(|a| a.to_string()), d.custom_claims.as_ref().map(|c| c.len()));
      }
      Err(e) => use_all!(e.to_string(), format!("{e:?}")),
    }
    let _ = v.validate::<_, Credential<Object>, Object>(&jwt, &doc, o);
  }
  let _ = identity_credential::validator::JwtPresentationValidatorUtils::extract_holder::<CoreDID>(&jwt);
  let _ = identity_credential::validator::JwtPresentationValidatorUtils::extract_holder::<IotaDID>(&jwt);
  acc
}

fn ep_validate_presentation_token(data: &[u8]) -> Ep {
  let Some(s) = text(data) else { return Ep::Rejected };
  if validate_presentation_token(s) {
    Ep::Accepted
  } else {
    late_if(s.matches('.').count() == 2)
  }
}

fn ep_validate_presentation_claims(data: &[u8]) -> Ep {
  let Some((s, is_json)) = json_text(data) else { return Ep::Rejected };
  let tok = sign_with_fixed_key(s, CRED_HEADER);
  if validate_presentation_token(&tok) {
    Ep::Accepted
  } else {
    late_if(is_json)
  }
}

const CRED_CLAIMS: &str = r##"{"iss":"did:example:123","nbf":1262373804,"exp":1893456000,"jti":"https://example.edu/credentials/3732","sub":"did:example:ebfeb1f712ebc6f1c276e12ec21","vc":{"@context":"https://www.w3.org/2018/credentials/v1","type":["VerifiableCredential","UniversityDegreeCredential"],"credentialSubject":{"degree":{"type":"BachelorDegree"}},"credentialStatus":{"id":"did:example:123?index=5#rev","type":"RevocationBitmap2022","revocationBitmapIndex":"5"},"nonTransferable":true},"custom":1}"##;
const CRED_CLAIMS_FULL: &str = r##"{"iss":"did:example:123","nbf":1262373804,"iat":1262373804,"exp":1893456000,"jti":"https://example.edu/credentials/3732","sub":"did:example:ebfeb1f712ebc6f1c276e12ec21","vc":{"@context":"https://www.w3.org/2018/credentials/v1","id":"https://example.edu/credentials/3732","type":["VerifiableCredential"],"issuer":"did:example:123","issuanceDate":"2010-01-01T19:23:24Z","expirationDate":"2030-01-01T00:00:00Z","credentialSubject":{"id":"did:example:ebfeb1f712ebc6f1c276e12ec21","a":1}}}"##;
const DOMAIN_LINKAGE_CLAIMS: &str = r##"{"iss":"did:example:123","sub":"did:example:123","nbf":1262373804,"exp":1893456000,"vc":{"@context":["https://www.w3.org/2018/credentials/v1","https://identity.foundation/.well-known/did-configuration/v1"],"type":["VerifiableCredential","DomainLinkageCredential"],"credentialSubject":{"origin":"https://example.com"}}}"##;
const PRES_CLAIMS: &str = r##"{"iss":"did:example:123","jti":"https://example.com/vp/1","nbf":1262373804,"iat":1262373804,"exp":1893456000,"aud":"https://aud.example/","vp":{"@context":"https://www.w3.org/2018/credentials/v1","type":"VerifiablePresentation","verifiableCredential":["eyJhbGciOiJFZERTQSJ9.e30.AAAA"]},"custom":{"a":1}}"##;
const PRES_CLAIMS_DUP: &str = r##"{"iss":"did:example:123","jti":"https://example.com/vp/1","exp":1893456000,"vp":{"@context":"https://www.w3.org/2018/credentials/v1","id":"https://example.com/vp/1","holder":"did:example:123","type":"VerifiablePresentation","verifiableCredential":[]}}"##;

// ---- SD-JWT ---------------------------------------------------------------------------------

fn sd_jwt_seed(with_kb: bool) -> String {
  use identity_credential::sd_jwt_payload::*;
  let claims: serde_json::Value = serde_json::from_str(CRED_CLAIMS).expect("constant");
  let mut enc = SdObjectEncoder::try_from(claims).expect("encoder");
  let mut disclosures = Vec::new();
  for path in ["/vc/credentialSubject/degree", "/custom"] {
    if let Ok(d) = enc.conceal(path, Some("c2FsdHNhbHRzYWx0c2FsdA".to_string())) {
      disclosures.push(d.to_string());
    }
  }
  enc.add_sd_alg_property();
  let payload = enc.try_to_string().expect("encode");
  let jwt = sign_with_fixed_key(&payload, CRED_HEADER);
  let kb = if with_kb {
    let hasher = Sha256Hasher::new();
    let digest = hasher.encoded_digest(&SdJwt::new(jwt.clone(), disclosures.clone(), None).presentation());
    let kb_claims = serde_json::json!({"iat": 1577836800, "aud": "https://aud.example/", "nonce": "n", "sd_hash": digest});
    let header = serde_json::json!({"alg": "EdDSA", "typ": KeyBindingJwtClaims::KB_JWT_HEADER_TYP, "kid": "did:example:123#key-1"});
    Some(sign_with_fixed_key(&kb_claims.to_string(), &header.to_string()))
  } else {
    None
  };
  SdJwt::new(jwt, disclosures, kb).presentation()
}

fn ep_sd_jwt(data: &[u8]) -> Ep {
  use identity_credential::sd_jwt_payload::*;
  use identity_credential::validator::KeyBindingJWTValidationOptions;
  use identity_credential::validator::SdJwtCredentialValidator;
  let Some(s) = text(data) else { return Ep::Rejected };
  let sd = match SdJwt::parse(s) {
    Ok(sd) => sd,
    Err(_) => return late_if(s.contains('~')),
  };
  use_all!(sd.presentation(), sd.jwt.len(), sd.disclosures.len(), sd.key_binding_jwt.as_ref().map(|k| k.len()));
  for d in &sd.disclosures {
    let _ = Disclosure::parse(d.clone()).map(|d| (d.to_string(), d.salt.len(), d.claim_name.clone()));
  }
  let doc = fixed_core_document();
  let mut acc = false;
  for verifier_kind in 0..2 {
    let decoder = SdObjectDecoder::new_with_sha256();
    let opts = credential_options();
    let kb_opts = [
      KeyBindingJWTValidationOptions::new(),
      KeyBindingJWTValidationOptions::new()
        .nonce("n")
        .aud("https://aud.example/")
        .earliest_issuance_date(far_past())
        .latest_issuance_date(far_future())
        .jws_verifier_options(JwsVerificationOptions::default()),
    ];
    if verifier_kind == 0 {
      let v = SdJwtCredentialValidator::with_signature_verifier(EdDSAJwsVerifier::default(), decoder);
      for o in &opts {
        if let Ok(d) = v.validate_credential::<_, Object>(&sd, &doc, o, FailFast::AllErrors) {
          acc = true;
          sweep_credential(&d.credential);
        }
      }
      let _ = v.verify_signature::<_, Object>(&sd, std::slice::from_ref(&doc), &JwsVerificationOptions::default());
      for k in &kb_opts {
        acc |= v.validate_key_binding_jwt(&sd, &doc, k).is_ok();
      }
    } else {
      let v = SdJwtCredentialValidator::with_signature_verifier(accepting_verifier(), decoder);
      for o in &opts {
        if let Ok(d) = v.validate_credential::<_, Object>(&sd, &doc, o, FailFast::FirstError) {
          acc = true;
          sweep_credential(&d.credential);
        }
      }
      for k in &kb_opts {
        acc |= v.validate_key_binding_jwt(&sd, &doc, k).is_ok();
      }
    }
  }
  if acc {
    Ep::Accepted
  } else {
    Ep::RejectedLate
  }
}

fn ep_sd_jwt_vc(data: &[u8]) -> Ep {
  use identity_credential::sd_jwt_v2::Sha256Hasher;
  use identity_credential::sd_jwt_vc::SdJwtVc;
  let Some(s) = text(data) else { return Ep::Rejected };
  let _ = SdJwtVc::from_str(s);
  let vc = match SdJwtVc::parse(s) {
    Ok(v) => v,
    Err(_) => return late_if(s.contains('~')),
  };
  let hasher = Sha256Hasher::new();
  let c = vc.claims();
  use_all!(
    c.iss.to_string(),
    c.vct.to_string(),
    c.nbf,
    c.exp,
    c.iat,
    c.sub.as_ref().map(|s| s.to_string()),
    c.status.is_some(),
    format!("{c:?}"),
    vc.to_string(),
    format!("{vc:?}")
  );
  let key = fixed_jwk();
  let _ = vc.verify_signature(&EdDSAJwsVerifier::default(), &key);
  let _ = vc.verify_signature(&accepting_verifier(), &key);
  let _ = vc.verify_key_binding(&EdDSAJwsVerifier::default(), &key);
  let _ = vc.verify_key_binding(&accepting_verifier(), &key);
  let _ = vc.validate_claims_disclosability(&[]);
  if let Ok(cm) = identity_credential::sd_jwt_vc::metadata::ClaimMetadata::from_json(r#"{"path":["name"],"sd":"always"}"#) {
    let _ = vc.validate_claims_disclosability(&[cm]);
  }
  let _ = vc.clone().into_disclosed_object(&hasher).map(|o| o.len());
  let _ = vc.clone().into_presentation(&hasher).map(|b| b.conceal("/name").and_then(|b| b.finish()).map(|(t, d)| (t.to_string(), d.len())));
  let resolver = StubResolver;
  let _ = futures::executor::block_on(vc.issuer_metadata(&resolver));
  let _ = futures::executor::block_on(vc.type_metadata(&resolver));
  let _ = futures::executor::block_on(vc.issuer_jwk(&resolver));
  let _ = futures::executor::block_on(vc.validate(&resolver, &accepting_verifier(), &hasher));
  Ep::Accepted
}

/// Resolver stub for SD-JWT VC metadata: returns canned bytes depending on the URL's last character.
struct StubResolver;

#[async_trait::async_trait]
impl identity_credential::sd_jwt_vc::Resolver<Url, Vec<u8>> for StubResolver {
  async fn resolve(&self, input: &Url) -> Result<Vec<u8>, identity_credential::sd_jwt_vc::resolver::Error> {
    let s = input.as_str();
    let body: &str = match s.len() % 5 {
      0 => r#"{"issuer":"https://example.com","jwks":{"keys":[{"kty":"OKP","crv":"Ed25519","kid":"k","x":"11qYAYKxCrfVS_7TyWQHOg7hcvPapiMlrwIaaPcHURo"}]}}"#,
      1 => r#"{"name":"n","claims":[{"path":["name"],"sd":"always"}],"schema":{"type":"object"}}"#,
      2 => r#"{"issuer":"https://example.com","jwks_uri":"https://example.com/jwks"}"#,
      3 => "not json",
      _ => r#"{"keys":[{"kty":"OKP","crv":"Ed25519","x":"11qYAYKxCrfVS_7TyWQHOg7hcvPapiMlrwIaaPcHURo"}]}"#,
    };
    if s.contains("missing") {
      Err(identity_credential::sd_jwt_vc::resolver::Error::NotFound(s.to_string()))
    } else {
      Ok(body.as_bytes().to_vec())
    }
  }
}

#[async_trait::async_trait]
impl identity_credential::sd_jwt_vc::Resolver<identity_core::common::StringOrUrl, Vec<u8>> for StubResolver {
  async fn resolve(&self, input: &identity_core::common::StringOrUrl) -> Result<Vec<u8>, identity_credential::sd_jwt_vc::resolver::Error> {
    match Url::parse(input.to_string()) {
      Ok(u) => <Self as identity_credential::sd_jwt_vc::Resolver<Url, Vec<u8>>>::resolve(self, &u).await,
      Err(_) => Ok(br#"{"name":"n","claims":[{"path":["name"],"sd":"never"}]}"#.to_vec()),
    }
  }
}

#[async_trait::async_trait]
impl identity_credential::sd_jwt_vc::Resolver<Url, serde_json::Value> for StubResolver {
  async fn resolve(&self, input: &Url) -> Result<serde_json::Value, identity_credential::sd_jwt_vc::resolver::Error> {
    let bytes = <Self as identity_credential::sd_jwt_vc::Resolver<Url, Vec<u8>>>::resolve(self, input).await?;
    serde_json::from_slice(&bytes).map_err(|e| identity_credential::sd_jwt_vc::resolver::Error::ParsingFailure(e.into()))
  }
}

fn sd_jwt_vc_seed() -> String {
  let claims = serde_json::json!({
    "iss": "https://example.com", "vct": "https://example.com/education_credential", "iat": 1683000000, "exp": 1883000000,
    "sub": "did:example:1", "name": "x", "cnf": {"jwk": fixed_key().public_jwk_json()},
    "status": {"status_list": {"idx": 1, "uri": "https://example.com/status"}}, "_sd_alg": "sha-256"
  });
  let header = r#"{"alg":"EdDSA","typ":"vc+sd-jwt","kid":"k"}"#;
  format!("{}~", sign_with_fixed_key(&claims.to_string(), header))
}

// ---- packed formats -------------------------------------------------------------------------

fn ep_state_metadata_unpack(data: &[u8]) -> Ep {
  use identity_iota_core::StateMetadataDocument;
  use identity_iota_core::StateMetadataEncoding;
  match StateMetadataDocument::unpack(data) {
    Ok(doc) => {
      use_all!(format!("{doc:?}"));
      let did = IotaDID::new(&[1; 32], &NetworkName::try_from("rms").expect("constant"));
      let mut acc = false;
      if let Ok(d) = StateMetadataDocument::unpack(data).and_then(|d| d.into_iota_document(&did)) {
        sweep_iota_document(&d);
        acc = true;
      }
      let _ = doc.pack(StateMetadataEncoding::Json).map(|b| StateMetadataDocument::unpack(&b).is_ok());
      if acc {
        Ep::Accepted
      } else {
        Ep::RejectedLate
      }
    }
    Err(_) => late_if(data.starts_with(b"DID")),
  }
}

fn state_metadata_seeds() -> Vec<Vec<u8>> {
  use identity_iota_core::StateMetadataDocument;
  use identity_iota_core::StateMetadataEncoding;
  let mut v = Vec::new();
  for j in [IOTA_DOC_JSON, r#"{"doc":{"id":"did:iota:0xaaaaaaaaaaaaaaaaaaaaaaaaaaaaaaaaaaaaaaaaaaaaaaaaaaaaaaaaaaaaaaaa"},"meta":{}}"#] {
    if let Ok(d) = IotaDocument::from_json(j) {
      if let Ok(b) = StateMetadataDocument::from(d).pack(StateMetadataEncoding::Json) {
        v.push(b);
      }
    }
  }
  v.push(b"DID\x01\x00\x02\x00{}".to_vec());
  v.push(b"DID\x01\x00\xff\xff{}".to_vec());
  v
}

fn ep_method_digest_unpack(data: &[u8]) -> Ep {
  match identity_storage::MethodDigest::unpack(data.to_vec()) {
    Ok(d) => {
      use_all!(d.pack(), format!("{d:?}"), hash_of(&d));
      Ep::Accepted
    }
    Err(_) => late_if(data.len() == 9),
  }
}

fn ep_status_list_decode(data: &[u8]) -> Ep {
  use identity_credential::revocation::status_list_2021::StatusList2021;
  let Some(s) = text(data) else { return Ep::Rejected };
  if s.len() > 8192 {
    return Ep::Rejected; // cap: a short base64 text cannot inflate past the documented assumption
  }
  match StatusList2021::try_from_encoded_str(s) {
    Ok(mut l) => {
      use_all!(l.len(), l.get(0).is_ok(), l.get(usize::MAX).is_ok(), l.get(l.len()).is_ok());
      let _ = l.set(0, true);
      let _ = l.set(l.len().saturating_sub(1), true);
      let _ = l.set(l.len(), true);
      let e = l.clone().into_encoded_str();
      let _ = StatusList2021::try_from_encoded_str(&e);
      use_all!(format!("{l:?}"));
      Ep::Accepted
    }
    Err(_) => late_if(s.starts_with("H4sI")),
  }
}

fn ep_revocation_endpoint(data: &[u8]) -> Ep {
  let Some(s) = text(data) else { return Ep::Rejected };
  if s.len() > 8192 {
    return Ep::Rejected;
  }
  let svc = serde_json::json!({"id": "did:example:123#rev", "type": "RevocationBitmap2022", "serviceEndpoint": s});
  let Ok(service) = Service::from_json_value(svc) else {
    return Ep::Rejected;
  };
  match identity_credential::revocation::RevocationBitmap::try_from(&service) {
    Ok(b) => {
      use_all!(b.len(), b.is_revoked(5), format!("{b:?}"));
      Ep::Accepted
    }
    Err(_) => late_if(s.starts_with("data:")),
  }
}

fn token_entry_points() -> Vec<EntryPoint> {
  let k = fixed_key();
  let _ = k;
  let e = |name: &'static str, kind: Kind, f: fn(&[u8]) -> Ep, seeds: fn() -> Vec<Vec<u8>>, prefixes: &'static [&'static str]| EntryPoint {
    name,
    kind,
    f,
    seeds,
    prefixes,
    must_accept: true,
  };
  vec![
    e("Decoder::decode_compact", Kind::Token, ep_decode_compact, || {
      let k = fixed_key();
      vec![
        crate::util::sign_compact_ed25519(&k, r#"{"alg":"EdDSA"}"#, b"hello").into_bytes(),
        crate::util::sign_compact_ed25519(&k, r##"{"alg":"EdDSA","kid":"did:example:123#key-1","nonce":"n"}"##, b"{}").into_bytes(),
        {
          let p = b64url(br#"{"alg":"EdDSA","b64":false,"crit":["b64"]}"#);
          let sig = k.sign(format!("{p}.hello").as_bytes());
          format!("{p}.hello.{}", b64url(&sig)).into_bytes()
        },
        {
          let p = b64url(br#"{"alg":"EdDSA"}"#);
          let sig = k.sign(format!("{p}.").as_bytes());
          format!("{p}..{}", b64url(&sig)).into_bytes()
        },
        b"eyJhbGciOiJFUzI1NiJ9.e30.AAAA".to_vec(),
      ]
    }, &[""]),
    e("Decoder::decode_flattened", Kind::Json, ep_decode_flattened, || {
      let k = fixed_key();
      let p = b64url(br#"{"alg":"EdDSA"}"#);
      let pl = b64url(b"hello");
      let sig = b64url(&k.sign(format!("{p}.{pl}").as_bytes()));
      vec![
        format!(r#"{{"payload":"{pl}","protected":"{p}","signature":"{sig}"}}"#).into_bytes(),
        format!(r#"{{"payload":"{pl}","protected":"{p}","header":{{"kid":"x"}},"signature":"{sig}"}}"#).into_bytes(),
        format!(r#"{{"protected":"{p}","signature":"{sig}"}}"#).into_bytes(),
        format!(r#"{{"payload":"{pl}","header":{{"alg":"EdDSA"}},"signature":"{sig}"}}"#).into_bytes(),
      ]
    }, &[""]),
    e("Decoder::decode_general", Kind::Json, ep_decode_general, || {
      let k = fixed_key();
      let p = b64url(br#"{"alg":"EdDSA"}"#);
      let p2 = b64url(br#"{"alg":"EdDSA","b64":false,"crit":["b64"]}"#);
      let pl = b64url(b"hello");
      let sig = b64url(&k.sign(format!("{p}.{pl}").as_bytes()));
      vec![
        format!(r#"{{"payload":"{pl}","signatures":[{{"protected":"{p}","signature":"{sig}"}},{{"protected":"{p2}","header":{{"kid":"x"}},"signature":"{sig}"}}]}}"#).into_bytes(),
        format!(r#"{{"signatures":[{{"protected":"{p}","signature":"{sig}"}}]}}"#).into_bytes(),
        format!(r#"{{"payload":"{pl}","signatures":[]}}"#).into_bytes(),
      ]
    }, &[""]),
    e("JwtCredentialValidator::validate(token)", Kind::Token, ep_validate_credential_token, || {
      vec![sign_with_fixed_key(CRED_CLAIMS, CRED_HEADER).into_bytes(), sign_with_fixed_key(CRED_CLAIMS_FULL, CRED_HEADER).into_bytes()]
    }, &[""]),
    e("JwtCredentialValidator::validate(claims)", Kind::Json, ep_validate_credential_claims, || sv(&[CRED_CLAIMS, CRED_CLAIMS_FULL, DOMAIN_LINKAGE_CLAIMS]), &[""]),
    e("JwtCredentialValidator::validate(header)", Kind::Json, ep_validate_credential_header, || {
      sv(&[CRED_HEADER, r##"{"alg":"EdDSA","kid":"did:example:123#key-1","nonce":"n","b64":true,"custom":[1]}"##, r##"{"alg":"EdDSA","kid":"#key-1"}"##])
    }, &[""]),
    e("JwtPresentationValidator::validate(token)", Kind::Token, ep_validate_presentation_token, || {
      vec![sign_with_fixed_key(PRES_CLAIMS, CRED_HEADER).into_bytes()]
    }, &[""]),
    e("JwtPresentationValidator::validate(claims)", Kind::Json, ep_validate_presentation_claims, || sv(&[PRES_CLAIMS, PRES_CLAIMS_DUP]), &[""]),
    e("SdJwt::parse+validators", Kind::Token, ep_sd_jwt, || vec![sd_jwt_seed(false).into_bytes(), sd_jwt_seed(true).into_bytes()], &[""]),
    e("SdJwtVc::parse", Kind::Token, ep_sd_jwt_vc, || vec![sd_jwt_vc_seed().into_bytes()], &[""]),
    e("StateMetadataDocument::unpack", Kind::Bytes, ep_state_metadata_unpack, state_metadata_seeds, &[""]),
    e("MethodDigest::unpack", Kind::Bytes, ep_method_digest_unpack, || vec![vec![0u8; 9], vec![0, 1, 2, 3, 4, 5, 6, 7, 8], vec![1u8; 9], vec![0u8; 8]], &[""]),
    e("StatusList2021::try_from_encoded_str", Kind::Text, ep_status_list_decode, || {
      sv(&["H4sIAAAAAAAAA-3BMQEAAADCoPVPbQwfoAAAAAAAAAAAAAAAAAAAAIC3AYbSVKsAQAAA", "H4sIAAAAAAAAAwMAAAAAAAAAAAA", "AAAA"])
    }, &["", "H4sI", "H4sIAAAAAAAAA"]),
    e("RevocationBitmap::try_from(endpoint)", Kind::Text, ep_revocation_endpoint, || {
      sv(&["data:application/octet-stream;base64,eJyzMmAAAwADKABr", "data:application/octet-stream;base64,ZUp5ek1tQUFBd0FES0FCcg==", "data:,x", "https://example.com/"])
    }, &["", "data:", "data:application/octet-stream;base64,", "data:application/octet-stream;base64,eJy"]),
  ]
}

/// JWK JSON (any JSON text) wrapped into a did:jwk identifier by the harness, so that structural JSON mutation
/// reaches `DIDJwk::parse`, `jwk()` and the did:jwk document expansion.
fn ep_did_jwk_from_json(data: &[u8]) -> Ep {
  let did = format!("did:jwk:{}", b64url(data));
  ep_did_jwk_parse(did.as_bytes())
}

pub fn entry_points() -> Vec<EntryPoint> {
  let mut v = text_entry_points();
  v.extend(json_entry_points());
  v.extend(token_entry_points());
  v.push(EntryPoint {
    name: "DIDJwk::parse(b64url(json))",
    kind: Kind::Json,
    f: ep_did_jwk_from_json,
    seeds: || sv(JWK_SEEDS),
    prefixes: &[""],
    must_accept: true,
  });
  v
}
