//! C11 — JOSE header policy (crit, b64, disjointness, alg) is enforced fail-closed.
//!
//! The decision table of the statement is enumerated completely and every row is presented to every encoder
//! entry point (headers built through the public setters) and — rendered by the harness as compact,
//! flattened and general serialisation — to every decoder entry point followed by `verify` with a verifier that
//! accepts any signature. The expected verdict comes from `model::jose_policy`, a clause-by-clause
//! transcription of the statement.

use crate::engine::*;
use crate::fixture;
use crate::gen::jose_headers::build_jws_header;
use crate::model::jose_policy::*;
use crate::model::jws_ref::*;
use crate::util::b64url;
use crate::util::EdKey;
use crate::vensure;
use crate::vfail;
use identity_jose::jwk::Jwk;
use identity_jose::jws::CharSet;
use identity_jose::jws::CompactJwsEncoder;
use identity_jose::jws::CompactJwsEncodingOptions;
use identity_jose::jws::Decoder;
use identity_jose::jws::FlattenedJwsEncoder;
use identity_jose::jws::GeneralJwsEncoder;
use identity_jose::jws::JwsHeader;
use identity_jose::jws::JwsValidationItem;
use identity_jose::jws::JwsVerifierFn;
use identity_jose::jws::Recipient;
use identity_jose::jws::SignatureVerificationError;
use identity_jose::jws::VerificationInput;
use proptest::prelude::*;
use serde::Deserialize;
use serde::Serialize;
use serde_json::json;
use serde_json::Value;

// ---------------------------------------------------------------------------------------------
// The decision table
// ---------------------------------------------------------------------------------------------

#[derive(Debug, Clone, Copy, PartialEq, Eq, Serialize, Deserialize)]
pub enum B64 {
  Absent,
  True,
  False,
}

#[derive(Debug, Clone, Copy, PartialEq, Eq, Serialize, Deserialize)]
pub enum Crit {
  Absent,
  /// `[]`
  Empty,
  /// `["b64"]`
  B64,
  /// `["b64","b64"]`
  B64Twice,
  /// `["alg"]` — a registered header parameter
  Alg,
  /// `["exp"]` — not a header parameter of any implemented extension, and absent from the headers
  Exp,
  /// `["x-unknown"]` without such a member
  UnknownAbsent,
  /// `["x-unknown"]` with a member `"x-unknown":1` in the same header (isolates "not implemented" from "absent")
  UnknownPresent,
  /// `["b64","exp"]` — a violation behind a harmless first entry
  B64AndExp,
  /// `["B64"]` with a member `"B64":true` — differs from the implemented extension name only in letter case
  UpperB64Present,
  /// `["b64","B64"]` with a member `"B64":true`
  B64AndUpperB64,
}

const B64S: [B64; 3] = [B64::Absent, B64::True, B64::False];
const CRITS: [Crit; 11] = [
  Crit::Absent,
  Crit::Empty,
  Crit::B64,
  Crit::B64Twice,
  Crit::Alg,
  Crit::Exp,
  Crit::UnknownAbsent,
  Crit::UnknownPresent,
  Crit::B64AndExp,
  Crit::UpperB64Present,
  Crit::B64AndUpperB64,
];

/// One header of a row.
#[derive(Debug, Clone, Copy, PartialEq, Eq, Serialize, Deserialize)]
pub struct Hdr {
  pub alg: bool,
  pub b64: B64,
  pub crit: Crit,
}

/// A parameter name present in both headers.
#[derive(Debug, Clone, Copy, PartialEq, Eq, Serialize, Deserialize)]
pub enum Shared {
  None,
  /// registered: `kid`
  Kid,
  /// custom: `x-shared`
  Custom,
  /// registered parameter `REGISTERED_SHARED[i]` (one per field of the header types)
  Registered(u8),
}

/// Registered header parameters other than alg / b64 / crit / kid, with a value their setters accept.
fn registered_shared(i: u8) -> (String, Value) {
  let table: [(&str, Value); 10] = [
    ("typ", json!("JWT")),
    ("cty", json!("text/plain")),
    ("nonce", json!("n-1")),
    ("url", json!("https://example.com/u")),
    ("jku", json!("https://example.com/jwks.json")),
    ("x5u", json!("https://example.com/cert.pem")),
    ("x5c", json!(["AQ=="])),
    ("x5t", json!("dGh1bWI")),
    ("x5t#S256", json!("dGh1bWI")),
    ("jwk", json!({"kty": "OKP", "crv": "Ed25519", "x": "11qYAYKxCrfVS_7TyWQHOg7hcvPapiMlrwIaaPcHURo"})),
  ];
  let (n, v) = &table[i as usize % table.len()];
  (n.to_string(), v.clone())
}
const REGISTERED_SHARED: u8 = 10;

#[derive(Debug, Clone, Copy, PartialEq, Eq, Serialize, Deserialize)]
pub struct Row {
  pub protected: Option<Hdr>,
  pub unprotected: Option<Hdr>,
  pub shared: Shared,
}

/// The second recipient of two-recipient general tokens: a protected header from the accept region.
#[derive(Debug, Clone, Copy, PartialEq, Eq, Serialize, Deserialize)]
pub enum Fixed {
  /// `{"alg":"EdDSA"}`
  Plain,
  /// `{"alg":"EdDSA","b64":false,"crit":["b64"]}`
  B64False,
  /// `{"alg":"EdDSA","b64":true,"crit":["b64"]}`
  B64True,
  /// No protected header at all, unprotected `{"alg":"EdDSA","kid":"k2"}` (decode entries only): its b64 reading is
  /// the default `true`, and it can never be verified (no protected alg).
  HeaderOnly,
}

const FIXED: [Fixed; 3] = [Fixed::Plain, Fixed::B64False, Fixed::B64True];

#[derive(Debug, Clone, Copy, PartialEq, Eq, Serialize, Deserialize)]
pub enum Entry {
  /// `CompactJwsEncoder::new_with_options`
  CompactEncode,
  /// `FlattenedJwsEncoder::new`
  FlattenedEncode,
  /// `GeneralJwsEncoder::new`
  GeneralEncodeNew,
  /// `GeneralJwsEncoder::new(first)` + `set_signature` + `add_recipient(row)`
  GeneralEncodeAdd { first: Fixed },
  /// `decode_compact_serialization` + `verify`
  CompactDecode,
  /// `decode_flattened_serialization` + `verify`
  FlattenedDecode,
  /// `decode_general_serialization` of a token with the row as only signature, + `verify`
  GeneralDecode1,
  /// `decode_general_serialization` of a token with two signatures (row and `fixed`), + `verify` of both
  GeneralDecode2 { fixed: Fixed, row_first: bool },
}

/// Harmless decoration of a row: extra members and member order.
#[derive(Debug, Clone, Copy, PartialEq, Eq, Serialize, Deserialize)]
pub struct Deco {
  /// bit i set: extra member i of `EXTRAS` goes into the protected header (if the row has one)
  pub p_extras: u16,
  /// bit i set (and not set in `p_extras`): extra member i goes into the unprotected header
  pub u_extras: u16,
  pub p_rot: u8,
  pub p_rev: bool,
  pub u_rot: u8,
  pub u_rev: bool,
  /// rotation of the top-level members of the flattened form / payload after signatures in the general form
  pub top_rot: u8,
}

#[derive(Debug, Clone, Serialize, Deserialize)]
pub struct Case {
  pub entry: Entry,
  pub row: Row,
  pub deco: Option<Deco>,
}

/// Members the rules do not object to (never shared; `exp` is named by some crit rows, which stay rejected
/// because no extension of that name is implemented — the oracle works on the decorated members).
fn extras() -> Vec<(String, Value)> {
  vec![
    ("typ".into(), json!("JWT")),
    ("cty".into(), json!("text/plain")),
    ("kid".into(), json!("key-1")),
    ("nonce".into(), json!("n-0")),
    ("url".into(), json!("https://example.com/x")),
    ("x5t".into(), json!("dGh1bWI")),
    ("jku".into(), json!("https://example.com/jwks.json")),
    ("x-a".into(), json!(1)),
    ("x-b".into(), json!({"n": [1, 2, null], "s": "ü\"\\"})),
    ("exp".into(), json!(1700000000)),
  ]
}

impl Hdr {
  fn members(&self, shared: Shared) -> Members {
    let mut m: Members = Vec::new();
    if self.alg {
      m.push(("alg".into(), json!("EdDSA")));
    }
    match self.b64 {
      B64::Absent => {}
      B64::True => m.push(("b64".into(), json!(true))),
      B64::False => m.push(("b64".into(), json!(false))),
    }
    let crit = match self.crit {
      Crit::Absent => None,
      Crit::Empty => Some(json!([])),
      Crit::B64 => Some(json!(["b64"])),
      Crit::B64Twice => Some(json!(["b64", "b64"])),
      Crit::Alg => Some(json!(["alg"])),
      Crit::Exp => Some(json!(["exp"])),
      Crit::UnknownAbsent | Crit::UnknownPresent => Some(json!(["x-unknown"])),
      Crit::B64AndExp => Some(json!(["b64", "exp"])),
      Crit::UpperB64Present => Some(json!(["B64"])),
      Crit::B64AndUpperB64 => Some(json!(["b64", "B64"])),
    };
    if let Some(c) = crit {
      m.push(("crit".into(), c));
    }
    if self.crit == Crit::UnknownPresent {
      m.push(("x-unknown".into(), json!(1)));
    }
    if matches!(self.crit, Crit::UpperB64Present | Crit::B64AndUpperB64) {
      m.push(("B64".into(), json!(true)));
    }
    match shared {
      Shared::None => {}
      Shared::Kid => m.push(("kid".into(), json!("shared-kid"))),
      Shared::Custom => m.push(("x-shared".into(), json!("v"))),
      Shared::Registered(i) => m.push(registered_shared(i)),
    }
    m
  }
}

impl Fixed {
  fn members(&self) -> Members {
    let b64 = match self {
      Fixed::Plain | Fixed::HeaderOnly => B64::Absent,
      Fixed::B64False => B64::False,
      Fixed::B64True => B64::True,
    };
    let crit = if b64 == B64::Absent { Crit::Absent } else { Crit::B64 };
    Hdr { alg: true, b64, crit }.members(Shared::None)
  }
}

fn reorder(m: &mut Members, rot: u8, rev: bool) {
  if m.is_empty() {
    return;
  }
  let k = rot as usize % m.len();
  m.rotate_left(k);
  if rev {
    m.reverse();
  }
}

impl Case {
  /// The two headers of the row as member lists, decoration applied.
  fn headers(&self) -> (Option<Members>, Option<Members>) {
    let row = &self.row;
    // a name can only be shared when both headers exist
    let shared = if row.protected.is_some() && row.unprotected.is_some() {
      row.shared
    } else {
      Shared::None
    };
    let mut p = row.protected.map(|h| h.members(shared));
    let mut u = row.unprotected.map(|h| h.members(shared));
    if let Some(d) = &self.deco {
      for (i, (name, value)) in extras().into_iter().enumerate() {
        // never decorate with a name the row already uses (kid when it is the shared name)
        let used = |h: &Option<Members>| h.as_ref().map(|m| m.iter().any(|(n, _)| *n == name)).unwrap_or(false);
        if used(&p) || used(&u) {
          continue;
        }
        if d.p_extras >> i & 1 == 1 {
          if let Some(m) = p.as_mut() {
            m.push((name, value));
            continue;
          }
        }
        if d.u_extras >> i & 1 == 1 {
          if let Some(m) = u.as_mut() {
            m.push((name, value));
          }
        }
      }
      if let Some(m) = p.as_mut() {
        reorder(m, d.p_rot, d.p_rev);
      }
      if let Some(m) = u.as_mut() {
        reorder(m, d.u_rot, d.u_rev);
      }
    }
    (p, u)
  }
}

impl Entry {
  fn name(&self) -> String {
    match self {
      Entry::CompactEncode => "compact-encode".into(),
      Entry::FlattenedEncode => "flattened-encode".into(),
      Entry::GeneralEncodeNew => "general-encode-new".into(),
      Entry::GeneralEncodeAdd { .. } => "general-add-recipient".into(),
      Entry::CompactDecode => "compact-decode".into(),
      Entry::FlattenedDecode => "flattened-decode".into(),
      Entry::GeneralDecode1 => "general-decode".into(),
      Entry::GeneralDecode2 { .. } => "general-decode-2".into(),
    }
  }
  fn is_compact(&self) -> bool {
    matches!(self, Entry::CompactEncode | Entry::CompactDecode)
  }
}

// ---------------------------------------------------------------------------------------------
// Calling the library
// ---------------------------------------------------------------------------------------------

/// The payload every row is encoded with; as *transmitted* payload `aGVsbG8` is valid under both values of b64
/// (it is base64url of `hello` and it is a string of printable characters without a period), so that no row is
/// rejected for a reason other than its headers.
const PAYLOAD: &[u8] = b"aGVsbG8";
const SIGNATURE: [u8; 64] = [0x5a; 64];

fn accept_any(_input: VerificationInput, _key: &Jwk) -> Result<(), SignatureVerificationError> {
  Ok(())
}

fn verification_key() -> Result<Jwk, String> {
  serde_json::from_value(EdKey::derive(0xC11, 0).public_jwk_json()).map_err(|e| e.to_string())
}

/// How a decoder entry point treated one signature.
#[derive(Debug, Clone, PartialEq, Eq)]
enum Dec {
  RejectedAtDecode(String),
  RejectedAtVerify(String),
  Accepted { claims: Vec<u8> },
}

fn verify_item(item: Result<JwsValidationItem<'_>, identity_jose::error::Error>, key: &Jwk) -> Dec {
  match item {
    Err(e) => Dec::RejectedAtDecode(e.to_string()),
    Ok(item) => match item.verify(&JwsVerifierFn::from(accept_any), key) {
      Err(e) => Dec::RejectedAtVerify(e.to_string()),
      Ok(decoded) => Dec::Accepted {
        claims: decoded.claims.to_vec(),
      },
    },
  }
}

fn sig_parts(p: &Option<Members>, u: &Option<Members>) -> SigParts {
  SigParts {
    protected: p.as_ref().map(|m| protected_segment(m)),
    header_json: u.as_ref().map(|m| render_object(m)),
    signature: b64url(&SIGNATURE),
  }
}

fn build(h: &Option<Members>) -> Result<Option<JwsHeader>, Viol> {
  match h {
    None => Ok(None),
    Some(m) => build_jws_header(m).map(Some).map_err(Viol::fixture),
  }
}

fn recipient<'a>(p: &'a Option<JwsHeader>, u: &'a Option<JwsHeader>) -> Recipient<'a> {
  Recipient {
    protected: p.as_ref(),
    unprotected: u.as_ref(),
  }
}

fn rules_text(rules: &[&str]) -> String {
  rules.join("+")
}

fn panic_viol(obs: &mut Obs, entry: &str, p: PanicInfo) -> CheckResult {
  obs.fail(format!("{entry}-panics"), format!("{entry} panicked: {} ({})", p.msg, p.sig()))
}

// ---------------------------------------------------------------------------------------------
// The check
// ---------------------------------------------------------------------------------------------

/// Verdict for an encoder entry point. `extra_reject` carries the token-level b64 rule of `add_recipient`.
fn judge_encoder(
  obs: &mut Obs,
  entry: &str,
  rules: &[&str],
  no_headers: bool,
  outcome: Result<(), String>,
  desc: &str,
) -> CheckResult {
  if no_headers {
    // A recipient without any header is not a "header set" the statement speaks about; the encoders refuse it.
    obs.label(format!("{entry}:no-headers-either"));
    return Ok(());
  }
  if rules.is_empty() {
    obs.label(format!("{entry}:accept"));
    if let Err(e) = outcome {
      vfail!(
        obs,
        format!("{entry}-rejects-valid-headers"),
        "{entry} rejected {desc}, which violates none of the rules: {e}"
      );
    }
  } else {
    obs.label(format!("{entry}:reject"));
    for r in rules {
      obs.label(format!("rule:{r}"));
    }
    vensure!(
      obs,
      outcome.is_err(),
      format!("{entry}-accepts-{}", rules_text(rules)),
      "{entry} accepted {desc}, which violates [{}]",
      rules_text(rules)
    );
  }
  Ok(())
}

/// Verdict for one signature presented to a decoder entry point and then verified with an accepting verifier.
fn judge_decoder(obs: &mut Obs, entry: &str, rules: &[&str], alg_ok: bool, outcome: &Dec, desc: &str) -> CheckResult {
  if !rules.is_empty() {
    obs.label(format!("{entry}:reject"));
    for r in rules {
      obs.label(format!("rule:{r}"));
    }
    match outcome {
      Dec::RejectedAtDecode(_) => {}
      // With an alg in the protected header the (accept-all) verifier is reached, so a refusal by `verify` is the
      // library's own refusal of the headers: the token is rejected, one call later.
      Dec::RejectedAtVerify(_) if alg_ok => obs.label(format!("{entry}:rejected-by-verify")),
      // Without it `verify` fails anyway (no algorithm to verify with): the refusal proves nothing about the rule.
      Dec::RejectedAtVerify(e) => vfail!(
        obs,
        format!("{entry}-late-reject-{}", rules_text(rules)),
        "{entry} decoded {desc} (violating [{}]) into a validation item; only verify refused, as it does for every \
         header set without protected alg: {e}",
        rules_text(rules)
      ),
      Dec::Accepted { claims } => vfail!(
        obs,
        format!("{entry}-accepts-{}", rules_text(rules)),
        "{entry}+verify accepted {desc}, which violates [{}] (claims {:?})",
        rules_text(rules),
        String::from_utf8_lossy(claims)
      ),
    }
  } else if !alg_ok {
    obs.label(format!("{entry}:reject-no-protected-alg"));
    obs.label("rule:no-protected-alg");
    if let Dec::Accepted { .. } = outcome {
      vfail!(
        obs,
        format!("{entry}-verifies-without-protected-alg"),
        "{entry}+verify accepted {desc} although the protected header has no alg"
      );
    }
  } else {
    obs.label(format!("{entry}:accept"));
    match outcome {
      Dec::Accepted { .. } => {}
      Dec::RejectedAtDecode(e) | Dec::RejectedAtVerify(e) => vfail!(
        obs,
        format!("{entry}-rejects-valid-headers"),
        "{entry}+verify rejected {desc}, which violates none of the rules: {e}"
      ),
    }
  }
  Ok(())
}

pub fn check(case: &Case, obs: &mut Obs) -> CheckResult {
  let entry = case.entry.name();
  let (p, u) = case.headers();
  if case.entry.is_compact() && (p.is_none() || u.is_some()) {
    obs.label(format!("{entry}:skip-inexpressible"));
    return Ok(());
  }
  obs.nontrivial();
  let rules = header_rules(p.as_deref(), u.as_deref());
  let alg_ok = has_protected_alg(p.as_deref());
  let no_headers = p.is_none() && u.is_none();
  let desc = format!(
    "protected={} unprotected={}",
    p.as_ref().map(|m| render_object(m)).unwrap_or_else(|| "-".into()),
    u.as_ref().map(|m| render_object(m)).unwrap_or_else(|| "-".into())
  );
  let key = fixture!(verification_key(), "verification key");
  let top_rot = case.deco.map(|d| d.top_rot).unwrap_or(0);

  match case.entry {
    Entry::CompactEncode => {
      let ph = build(&p)?;
      let Some(ph) = ph.as_ref() else { return Ok(()) };
      let out = catch(|| {
        CompactJwsEncoder::new_with_options(
          PAYLOAD,
          ph,
          CompactJwsEncodingOptions::NonDetached {
            charset_requirements: CharSet::Default,
          },
        )
        .map(|_| ())
        .map_err(|e| e.to_string())
      });
      match out {
        Ok(o) => judge_encoder(obs, &entry, &rules, no_headers, o, &desc),
        Err(pn) => panic_viol(obs, &entry, pn),
      }
    }
    Entry::FlattenedEncode => {
      let (ph, uh) = (build(&p)?, build(&u)?);
      let out = catch(|| {
        FlattenedJwsEncoder::new(PAYLOAD, recipient(&ph, &uh), false)
          .map(|_| ())
          .map_err(|e| e.to_string())
      });
      match out {
        Ok(o) => judge_encoder(obs, &entry, &rules, no_headers, o, &desc),
        Err(pn) => panic_viol(obs, &entry, pn),
      }
    }
    Entry::GeneralEncodeNew => {
      let (ph, uh) = (build(&p)?, build(&u)?);
      let out = catch(|| {
        GeneralJwsEncoder::new(PAYLOAD, recipient(&ph, &uh), false)
          .map(|_| ())
          .map_err(|e| e.to_string())
      });
      match out {
        Ok(o) => judge_encoder(obs, &entry, &rules, no_headers, o, &desc),
        Err(pn) => panic_viol(obs, &entry, pn),
      }
    }
    Entry::GeneralEncodeAdd { first } => {
      let fm = Some(first.members());
      let fh = build(&fm)?;
      let (ph, uh) = (build(&p)?, build(&u)?);
      let out = catch(|| {
        let enc = match GeneralJwsEncoder::new(PAYLOAD, recipient(&fh, &None), false) {
          Ok(e) => e,
          Err(e) => return Err(e.to_string()),
        };
        Ok(
          enc
            .set_signature(&SIGNATURE)
            .add_recipient(recipient(&ph, &uh))
            .map(|_| ())
            .map_err(|e| e.to_string()),
        )
      });
      let outcome = match out {
        Err(pn) => return panic_viol(obs, &entry, pn),
        Ok(Err(e)) => {
          return obs.fail(
            "general-encode-new-rejects-valid-headers",
            format!("GeneralJwsEncoder::new rejected first recipient {:?}: {e}", first),
          )
        }
        Ok(Ok(o)) => o,
      };
      if no_headers {
        return judge_encoder(obs, &entry, &rules, true, outcome, &desc);
      }
      match (rules.is_empty(), b64_agreement(fm.as_deref(), p.as_deref())) {
        (true, B64Agreement::Disagree) => {
          obs.label(format!("{entry}:reject-b64-disagreement"));
          obs.label("rule:b64-disagreement");
          vensure!(
            obs,
            outcome.is_err(),
            "general-add-recipient-accepts-b64-disagreement",
            "add_recipient accepted {desc} after a first recipient {}",
            render_object(&first.members())
          );
          Ok(())
        }
        (true, B64Agreement::AbsentVersusTrue) => {
          obs.label(format!("{entry}:b64-absent-vs-true-either"));
          Ok(())
        }
        // agreeing recipients, or a row that must be rejected whatever its b64 says
        _ => judge_encoder(obs, &entry, &rules, false, outcome, &desc),
      }
    }
    Entry::CompactDecode => {
      let Some(pm) = p.as_ref() else { return Ok(()) };
      let token = render_compact(
        &protected_segment(pm),
        std::str::from_utf8(PAYLOAD).unwrap_or_default(),
        &b64url(&SIGNATURE),
      );
      let out = catch(|| {
        let decoder = Decoder::new();
        verify_item(decoder.decode_compact_serialization(token.as_bytes(), None), &key)
      });
      match out {
        Ok(o) => judge_decoder(obs, &entry, &rules, alg_ok, &o, &desc),
        Err(pn) => panic_viol(obs, &entry, pn),
      }
    }
    Entry::FlattenedDecode => {
      let token = render_flattened(
        Some(std::str::from_utf8(PAYLOAD).unwrap_or_default()),
        &sig_parts(&p, &u),
        top_rot as usize,
      );
      let out = catch(|| {
        let decoder = Decoder::new();
        verify_item(decoder.decode_flattened_serialization(token.as_bytes(), None), &key)
      });
      match out {
        Ok(o) => judge_decoder(obs, &entry, &rules, alg_ok, &o, &desc),
        Err(pn) => panic_viol(obs, &entry, pn),
      }
    }
    Entry::GeneralDecode1 => {
      let token = render_general(
        Some(std::str::from_utf8(PAYLOAD).unwrap_or_default()),
        &[sig_parts(&p, &u)],
        top_rot & 1 == 1,
      );
      let out = catch(|| decode_general(&token, &key));
      match out {
        Err(pn) => panic_viol(obs, &entry, pn),
        Ok(Err(e)) => judge_decoder(obs, &entry, &rules, alg_ok, &Dec::RejectedAtDecode(e), &desc),
        Ok(Ok(items)) => {
          vensure!(
            obs,
            items.len() == 1,
            "general-decode-item-count",
            "token with one signature decoded to {} items",
            items.len()
          );
          match items.first() {
            Some(o) => judge_decoder(obs, &entry, &rules, alg_ok, o, &desc),
            None => Ok(()),
          }
        }
      }
    }
    Entry::GeneralDecode2 { fixed, row_first } => {
      let header_only = fixed == Fixed::HeaderOnly;
      let fm = (!header_only).then(|| fixed.members());
      let row_sig = sig_parts(&p, &u);
      let fixed_sig = if header_only {
        sig_parts(&None, &Some(vec![("alg".into(), json!("EdDSA")), ("kid".into(), json!("k2"))]))
      } else {
        sig_parts(&fm, &None)
      };
      let (sigs, row_at) = if row_first {
        (vec![row_sig, fixed_sig], 0)
      } else {
        (vec![fixed_sig, row_sig], 1)
      };
      let token = render_general(
        Some(std::str::from_utf8(PAYLOAD).unwrap_or_default()),
        &sigs,
        top_rot & 1 == 1,
      );
      let items = match catch(|| decode_general(&token, &key)) {
        Err(pn) => return panic_viol(obs, &entry, pn),
        Ok(r) => r,
      };
      let agreement = b64_agreement(fm.as_deref(), p.as_deref());
      let row_ok = rules.is_empty() && alg_ok;
      let items = match items {
        // Refusing the whole token is a rejection of every signature in it.
        Err(e) => {
          match (row_ok, agreement) {
            (true, B64Agreement::Agree) => {
              obs.label(format!("{entry}:accept"));
              vfail!(
                obs,
                format!("{entry}-rejects-valid-headers"),
                "decode_general_serialization refused a token of two valid, agreeing recipients ({desc}): {e}"
              );
            }
            (true, B64Agreement::Disagree) => {
              obs.label(format!("{entry}:reject-b64-disagreement"));
              obs.label("rule:b64-disagreement");
            }
            (true, B64Agreement::AbsentVersusTrue) => obs.label(format!("{entry}:b64-absent-vs-true-either")),
            (false, _) => {
              // same labels as the per-item path; a refused token rejects the row's signature at decode
              judge_decoder(obs, &entry, &rules, alg_ok, &Dec::RejectedAtDecode(e), &desc)?;
            }
          }
          return Ok(());
        }
        Ok(items) => items,
      };
      vensure!(
        obs,
        items.len() == 2,
        "general-decode-item-count",
        "token with two signatures decoded to {} items",
        items.len()
      );
      let (Some(row_out), Some(fixed_out)) = (items.get(row_at), items.get(1 - row_at)) else {
        return Ok(());
      };
      if !row_ok {
        // The row's own signature must be rejected; what happens to the valid neighbour is not stated.
        return judge_decoder(obs, &entry, &rules, alg_ok, row_out, &desc);
      }
      match agreement {
        B64Agreement::Disagree => {
          obs.label(format!("{entry}:reject-b64-disagreement"));
          obs.label("rule:b64-disagreement");
          // A recipient without protected header can never be verified (no protected alg), so its failing `verify`
          // says nothing about b64: with such a neighbour the disagreement has to surface while decoding.
          if let (true, Dec::Accepted { claims: a }, Dec::RejectedAtVerify(_)) = (header_only, row_out, fixed_out) {
            vfail!(
              obs,
              "general-decode-accepts-b64-disagreement",
              "{desc} (b64 false) was decoded and verified with claims {:?} next to a recipient without protected \
               header (b64 true by default), and that recipient was decoded as well",
              String::from_utf8_lossy(a)
            );
          }
          if let (Dec::Accepted { claims: a }, Dec::Accepted { claims: b }) = (row_out, fixed_out) {
            vfail!(
              obs,
              "general-decode-accepts-b64-disagreement",
              "both signatures of one general-serialization token were decoded and verified although their \
               recipients disagree on b64: {desc} gives claims {:?}, {} gives claims {:?}",
              String::from_utf8_lossy(a),
              render_object(&fixed.members()),
              String::from_utf8_lossy(b)
            );
          }
          Ok(())
        }
        B64Agreement::AbsentVersusTrue => {
          obs.label(format!("{entry}:b64-absent-vs-true-either"));
          Ok(())
        }
        B64Agreement::Agree => {
          judge_decoder(obs, &entry, &rules, alg_ok, row_out, &desc)?;
          let neighbour_ok = if header_only {
            !matches!(fixed_out, Dec::RejectedAtDecode(_))
          } else {
            matches!(fixed_out, Dec::Accepted { .. })
          };
          if !neighbour_ok {
            vfail!(
              obs,
              format!("{entry}-rejects-valid-headers"),
              "the valid neighbour {} of the valid, agreeing {desc} was rejected: {fixed_out:?}",
              render_object(&fixed.members())
            );
          }
          Ok(())
        }
      }
    }
  }
}

fn decode_general(token: &str, key: &Jwk) -> Result<Vec<Dec>, String> {
  let decoder = Decoder::new();
  let iter = decoder
    .decode_general_serialization(token.as_bytes(), None)
    .map_err(|e| e.to_string())?;
  Ok(iter.map(|item| verify_item(item, key)).collect())
}

// ---------------------------------------------------------------------------------------------
// Enumeration and decoration
// ---------------------------------------------------------------------------------------------

fn hdrs() -> impl Iterator<Item = Option<Hdr>> + Clone {
  std::iter::once(None).chain([false, true].into_iter().flat_map(|alg| {
    B64S
      .into_iter()
      .flat_map(move |b64| CRITS.into_iter().map(move |crit| Some(Hdr { alg, b64, crit })))
  }))
}

fn rows() -> impl Iterator<Item = Row> + Clone {
  hdrs().flat_map(|protected| {
    hdrs().flat_map(move |unprotected| {
      let plain = |h: Option<Hdr>| h.is_some_and(|h| h.b64 == B64::Absent && h.crit == Crit::Absent);
      let mut shareds: Vec<Shared> = if protected.is_some() && unprotected.is_some() {
        vec![Shared::None, Shared::Kid, Shared::Custom]
      } else {
        vec![Shared::None]
      };
      // every other registered parameter as the shared name, on the header pairs that have nothing else wrong
      if plain(protected) && plain(unprotected) {
        shareds.extend((0..REGISTERED_SHARED).map(Shared::Registered));
      }
      shareds.into_iter().map(move |shared| Row {
        protected,
        unprotected,
        shared,
      })
    })
  })
}

fn entries() -> Vec<Entry> {
  let mut e = vec![
    Entry::CompactEncode,
    Entry::FlattenedEncode,
    Entry::GeneralEncodeNew,
    Entry::CompactDecode,
    Entry::FlattenedDecode,
    Entry::GeneralDecode1,
  ];
  for f in FIXED {
    e.push(Entry::GeneralEncodeAdd { first: f });
    e.push(Entry::GeneralDecode2 {
      fixed: f,
      row_first: false,
    });
    e.push(Entry::GeneralDecode2 {
      fixed: f,
      row_first: true,
    });
  }
  for row_first in [false, true] {
    e.push(Entry::GeneralDecode2 {
      fixed: Fixed::HeaderOnly,
      row_first,
    });
  }
  e
}

fn table() -> impl Iterator<Item = Case> {
  entries()
    .into_iter()
    .flat_map(|entry| rows().map(move |row| Case { entry, row, deco: None }))
}

/// Number of clause (1)–(8) violations of an undecorated row (used to balance the random extension only).
fn violations_of(row: &Row) -> usize {
  let case = Case {
    entry: Entry::FlattenedEncode,
    row: *row,
    deco: None,
  };
  let (p, u) = case.headers();
  header_rules(p.as_deref(), u.as_deref()).len()
}

/// Decorated rows: one third from the accept region, one third violating exactly one clause (the rows that
/// flip when a single rule is dropped), one third uniformly from the whole table.
fn decorated_strategy() -> impl Strategy<Value = Case> {
  let all_rows: Vec<Row> = rows().collect();
  let accept_rows: Vec<Row> = all_rows.iter().copied().filter(|r| violations_of(r) == 0).collect();
  let single_rows: Vec<Row> = all_rows.iter().copied().filter(|r| violations_of(r) == 1).collect();
  let row = prop_oneof![
    prop::sample::select(accept_rows),
    prop::sample::select(single_rows),
    prop::sample::select(all_rows),
  ];
  let deco = (
    0u16..1024,
    0u16..1024,
    any::<u8>(),
    any::<bool>(),
    any::<u8>(),
    any::<bool>(),
    any::<u8>(),
  )
    .prop_map(|(p_extras, u_extras, p_rot, p_rev, u_rot, u_rev, top_rot)| Deco {
      p_extras,
      u_extras,
      p_rot,
      p_rev,
      u_rot,
      u_rev,
      top_rot,
    });
  (prop::sample::select(entries()), row, deco).prop_map(|(entry, row, deco)| Case {
    entry,
    row,
    deco: Some(deco),
  })
}

pub fn run(ctx: &mut Ctx) {
  ctx.level = "exploration";
  ctx.rule = "complete decision table: protected and unprotected header each in {absent} ∪ {alg absent/EdDSA} × {b64 absent/true/false} × \
    {crit absent, [], [b64], [b64,b64], [alg], [exp], [x-unknown] without/with such a member, [b64,exp]}; shared name {none, kid, x-shared} \
    when both headers exist (8857 rows) × 15 entry points (3 encoder constructors, add_recipient after 3 first recipients, 3 decoders + verify \
    with an accepting verifier, two-signature general tokens with 3 valid neighbours in both orders); plus randomly decorated rows (extra \
    members the rules do not mention, member order). Oracle: clause-by-clause transcription of the statement (model::jose_policy). \
    Non-trivial = every row the entry point can express; distinct by construction."
    .into();
  ctx.assume("'registered header parameter' = names defined by RFC 7515 §4.1, RFC 7516 §4.1 and RFC 7518 §4 (b64 is an implemented extension, not one of them)");
  ctx.assume("a recipient without any header is not a header set in the sense of the statement: encoders may refuse it (they do); decoding + verification must reject it (no protected alg)");
  ctx.assume("violations of the crit/b64/disjointness clauses must be rejected by the encoder constructor resp. by decode_* (a validation item must not be produced); the missing-protected-alg clause may be enforced by decode_* or by verify");
  ctx.assume("'disagree on b64' is decided on the effective value (absent = true, RFC 7797 §3); one recipient omitting b64 while the other states b64:true may be accepted or rejected");
  ctx.assume("general serialization, two signatures: a signature whose own headers violate a rule must be rejected (or the whole token); whether its valid neighbour is still accepted is not stated; for a b64 disagreement between two individually valid signatures at least one of them (or the whole token) must be rejected");
  ctx.assume("compact serialization cannot express an absent protected or a present unprotected header: those rows are skipped and counted for the compact entry points");

  ctx.exhaustive("table", table, check);
  ctx.proptest("decorated", ctx.pick(150_000, 4_000_000), decorated_strategy, check);

  for e in [
    "compact-encode",
    "flattened-encode",
    "general-encode-new",
    "general-add-recipient",
    "compact-decode",
    "flattened-decode",
    "general-decode",
    "general-decode-2",
  ] {
    ctx.require_class(&format!("table:{e}:accept"), 3);
    ctx.require_class(&format!("table:{e}:reject"), 30);
    ctx.require_class(&format!("decorated:{e}:accept"), 100);
    ctx.require_class(&format!("decorated:{e}:reject"), 100);
  }
  for r in [
    R_CRIT_UNPROTECTED,
    R_CRIT_EMPTY,
    R_CRIT_REGISTERED,
    R_CRIT_UNIMPLEMENTED,
    R_CRIT_ABSENT_PARAM,
    R_B64_UNPROTECTED,
    R_B64_NOT_IN_CRIT,
    R_SHARED_NAME,
    "no-protected-alg",
    "b64-disagreement",
  ] {
    ctx.require_class(&format!("table:rule:{r}"), 10);
  }
  ctx.require_class("table:general-add-recipient:reject-b64-disagreement", 3);
  ctx.require_class("table:general-decode-2:reject-b64-disagreement", 3);
  ctx.require_class("table:flattened-decode:reject-no-protected-alg", 3);
}

pub fn replay(v: &serde_json::Value, obs: &mut Obs) -> Result<CheckResult, String> {
  replay_with::<Case>(v, obs, check)
}
