//! C09 — Storage-backed method generation/purge is all-or-nothing under storage faults.
//!
//! `JwkDocumentExt::{generate_method, purge_method}` are driven against fault-injecting wrappers
//! (`model::faulty_store`) around the shipped in-memory stores. A case is a document shape, a list of
//! operations and a *fault plan*: `plan[n]` says whether the n-th storage call of the whole history
//! (both stores, in call order) fails without touching the inner store; calls past the plan succeed.
//!
//! The decision tree "does the n-th call fail?" is enumerated exhaustively by systematic re-execution:
//! a run under an explicit decision prefix reports how many storage calls were made, every call past
//! the prefix is a new branch point (`tree_iter`). Random histories with random plans go on top.
//!
//! The oracle only looks at the document and at the *inner* stores (never at what the operation says
//! it did): see `judge`.

use crate::engine::*;
use crate::fixture;
use crate::model::faulty_store::*;
use crate::util::b64url_decode_strict;
use crate::util::hex;
use crate::util::EdKey;
use crate::vensure;
use crate::vfail;
use crypto::signatures::ed25519::PublicKey;
use crypto::signatures::ed25519::Signature;
use futures::executor::block_on;
use identity_core::convert::FromJson;
use identity_core::convert::ToJson;
use identity_did::DIDUrl;
use identity_document::document::CoreDocument;
use identity_document::verifiable::JwsVerificationOptions;
use identity_eddsa_verifier::EdDSAJwsVerifier;
use identity_iota_core::IotaDocument;
use identity_storage::JwkDocumentExt;
use identity_storage::JwkMemStore;
use identity_storage::JwkStorage;
use identity_storage::JwkStorageDocumentError;
use identity_storage::JwsSignatureOptions;
use identity_storage::KeyIdMemstore;
use identity_storage::KeyIdStorage;
use identity_storage::MethodDigest;
use identity_storage::Storage;
use identity_verification::jose::jwk::Jwk;
use identity_verification::jose::jws::JwsAlgorithm;
use identity_verification::MethodRef;
use identity_verification::MethodRelationship;
use identity_verification::MethodScope;
use proptest::prelude::*;
use serde::Deserialize;
use serde::Serialize;
use serde_json::json;
use serde_json::Value;
use std::collections::BTreeMap;
use std::collections::BTreeSet;

// ---------------------------------------------------------------------------------------------
// Case
// ---------------------------------------------------------------------------------------------

#[derive(Debug, Clone, Copy, PartialEq, Eq, Serialize, Deserialize)]
pub enum DocKind {
  Core,
  Iota,
}

/// A storage-backed method present before the history starts (fragment `k<i>`).
#[derive(Debug, Clone, Serialize, Deserialize)]
pub struct BaseMethod {
  /// 0 = general-purpose (`verificationMethod`), 1..=5 = embedded in that relationship.
  pub scope: u8,
  /// Bit r set = relationship r+1 holds a reference to the method (general-purpose methods only).
  pub refs: u8,
}

#[derive(Debug, Clone, Serialize, Deserialize)]
pub struct Base {
  pub methods: Vec<BaseMethod>,
  /// Unrelated content: a referenced general-purpose method and an embedded method that are *not*
  /// backed by the stores, a reference to a method of a foreign DID, and a service.
  pub extras: bool,
}

#[derive(Debug, Clone, Serialize, Deserialize)]
pub enum Frag {
  /// Explicit, fresh fragment (`g<op index>`).
  Given,
  /// No fragment: the `kid` of the generated JWK is used.
  FromKid,
  /// Explicit fragment equal to that of an existing method or service (index into the current list).
  Colliding(u16),
  /// Explicit, fresh fragment that begins with the letters `did` (`didcomm-<op index>`).
  DidPrefixed,
  /// No fragment, and the storage's `generate` returns a JWK without `kid`: there is nothing to name the method by.
  NoKid,
  /// Explicit, fresh fragment; the storage's `generate` returns a JWK without `kid`.
  GivenNoKid,
}

#[derive(Debug, Clone, Serialize, Deserialize)]
pub enum Op {
  /// `generate_method(.., fragment, scope)`; scope 0 = VerificationMethod, 1..=5 = relationship.
  Generate { frag: Frag, scope: u8 },
  /// `purge_method(id)`; `Some(i)` = index into the current list of method fragments, `None` = absent id.
  /// `variant`: 0 = the method's exact id, 1 = the same DID and fragment with a query (`?versionId=1`), 2 = with a
  /// path (`/p`) — ids that name no method of the document although a fragment query would match one.
  Purge {
    target: Option<u16>,
    #[serde(default)]
    variant: u8,
  },
}

#[derive(Debug, Clone, Serialize, Deserialize)]
pub struct Case {
  pub doc: DocKind,
  pub base: Base,
  pub ops: Vec<Op>,
  /// `plan[n]` = the n-th storage call (both stores, whole history, oracle calls excluded) fails.
  pub plan: Vec<bool>,
  /// 0: injected faults are of kind `Unavailable`; 1: of kind `KeyNotFound` / `KeyIdNotFound` (a store that loses
  /// sight of an entry it holds): whatever the kind, a failed call is a failed call.
  #[serde(default)]
  pub fault_kind: u8,
}

const RELS: [(&str, MethodRelationship); 5] = [
  ("authentication", MethodRelationship::Authentication),
  ("assertionMethod", MethodRelationship::AssertionMethod),
  ("keyAgreement", MethodRelationship::KeyAgreement),
  ("capabilityDelegation", MethodRelationship::CapabilityDelegation),
  ("capabilityInvocation", MethodRelationship::CapabilityInvocation),
];
const GENERAL: &str = "verificationMethod";

fn scope_name(scope: u8) -> &'static str {
  match scope % 6 {
    0 => GENERAL,
    r => RELS[r as usize - 1].0,
  }
}

fn method_scope(scope: u8) -> MethodScope {
  match scope % 6 {
    0 => MethodScope::VerificationMethod,
    r => MethodScope::VerificationRelationship(RELS[r as usize - 1].1),
  }
}

/// Monotone index choice (AUTHORING.md): never `%`.
fn pick(i: u16, len: usize) -> usize {
  (i as usize * len) >> 16
}

// ---------------------------------------------------------------------------------------------
// Documents
// ---------------------------------------------------------------------------------------------

const CORE_DID: &str = "did:example:c09doc";
const IOTA_DID: &str = "did:iota:tst:0xc09c09c09c09c09c09c09c09c09c09c09c09c09c09c09c09c09c09c09c09c09c";
const FOREIGN_REF: &str = "did:example:someoneelse#foreign-key";
const PAYLOAD: &[u8] = b"vcheck C09 probe payload";

/// What the check needs from a document type; `JwkDocumentExt` is the API under test.
trait TestDoc: JwkDocumentExt + Sized {
  const DID: &'static str;
  fn parse(core_json: Value) -> Result<Self, String>;
  fn core(&self) -> &CoreDocument;
}

impl TestDoc for CoreDocument {
  const DID: &'static str = CORE_DID;
  fn parse(core_json: Value) -> Result<Self, String> {
    CoreDocument::from_json_value(core_json).map_err(|e| e.to_string())
  }
  fn core(&self) -> &CoreDocument {
    self
  }
}

impl TestDoc for IotaDocument {
  const DID: &'static str = IOTA_DID;
  fn parse(core_json: Value) -> Result<Self, String> {
    IotaDocument::from_json_value(json!({
      "doc": core_json,
      "meta": {"created": "2023-05-12T15:09:50Z", "updated": "2023-05-12T15:09:50Z"}
    }))
    .map_err(|e| format!("{e:?}"))
  }
  fn core(&self) -> &CoreDocument {
    self.core_document()
  }
}

fn method_json(did: &str, fragment: &str, key: &EdKey) -> Value {
  let mut jwk = key.public_jwk_json();
  jwk["alg"] = json!("EdDSA");
  jwk["kid"] = json!(key.thumbprint());
  json!({"id": format!("{did}#{fragment}"), "controller": did, "type": "JsonWebKey2020", "publicKeyJwk": jwk})
}

/// Renders the initial document (own JSON, not through `insert_method`) and lists
/// (fragments of all methods in creation order, keys of the storage-backed ones).
fn base_document_json(did: &str, base: &Base) -> (Value, Vec<String>, Vec<(String, EdKey)>) {
  let mut general: Vec<Value> = Vec::new();
  let mut rel: [Vec<Value>; 5] = Default::default();
  let mut fragments = Vec::new();
  let mut backed = Vec::new();
  for (i, m) in base.methods.iter().enumerate() {
    let fragment = format!("k{i}");
    let key = EdKey::derive(0xC09, i as u64);
    let mj = method_json(did, &fragment, &key);
    match m.scope % 6 {
      0 => {
        general.push(mj);
        for (r, slot) in rel.iter_mut().enumerate() {
          if m.refs >> r & 1 == 1 {
            slot.push(json!(format!("{did}#{fragment}")));
          }
        }
      }
      r => rel[r as usize - 1].push(mj),
    }
    fragments.push(fragment.clone());
    backed.push((fragment, key));
  }
  let mut doc = json!({ "id": did });
  if base.extras {
    general.push(method_json(did, "x-gp", &EdKey::derive(0xC09E, 0)));
    rel[0].push(json!(format!("{did}#x-gp")));
    rel[4].push(json!(format!("{did}#x-gp")));
    rel[2].push(method_json(did, "x-emb", &EdKey::derive(0xC09E, 1)));
    rel[1].push(json!(FOREIGN_REF));
    // a reference whose target does not exist (yet): generating a general-purpose method under that fragment is
    // allowed and must be all-or-nothing like any other
    rel[3].push(json!(format!("{did}#dangling")));
    fragments.push("x-gp".into());
    fragments.push("x-emb".into());
    doc["service"] = json!([{"id": format!("{did}#svc"), "type": "LinkedDomains", "serviceEndpoint": "https://vcheck.example/"}]);
  }
  if !general.is_empty() {
    doc[GENERAL] = Value::Array(general);
  }
  for (r, slot) in rel.into_iter().enumerate() {
    if !slot.is_empty() {
      doc[RELS[r].0] = Value::Array(slot);
    }
  }
  (doc, fragments, backed)
}

// ---------------------------------------------------------------------------------------------
// Observation: snapshots of the document and of the inner stores
// ---------------------------------------------------------------------------------------------

type FStorage = Storage<FaultyJwkStorage<JwkMemStore>, FaultyKeyIdStorage<KeyIdMemstore>>;

#[derive(Debug, Clone, PartialEq, Eq, Default)]
struct Snapshot {
  /// (method id, scope name, method JSON) — as a set.
  methods: BTreeSet<(String, String, String)>,
  /// (relationship, referenced URL) — as a set.
  refs: BTreeSet<(String, String)>,
  services: BTreeSet<String>,
  /// Key ids present in the inner key store.
  keys: BTreeSet<String>,
  /// hex(packed digest) -> key id in the inner key-id store.
  key_ids: BTreeMap<String, String>,
}

fn rel_sets(core: &CoreDocument) -> [(&'static str, &identity_core::common::OrderedSet<MethodRef>); 5] {
  [
    (RELS[0].0, core.authentication()),
    (RELS[1].0, core.assertion_method()),
    (RELS[2].0, core.key_agreement()),
    (RELS[3].0, core.capability_delegation()),
    (RELS[4].0, core.capability_invocation()),
  ]
}

fn snapshot(core: &CoreDocument, storage: &FStorage) -> Result<Snapshot, Viol> {
  let mut s = Snapshot::default();
  for m in core.verification_method().iter() {
    let j = fixture!(m.to_json(), "method to_json");
    s.methods.insert((m.id().to_string(), GENERAL.to_string(), j));
  }
  for (name, set) in rel_sets(core) {
    for r in set.iter() {
      match r {
        MethodRef::Embed(m) => {
          let j = fixture!(m.to_json(), "method to_json");
          s.methods.insert((m.id().to_string(), name.to_string(), j));
        }
        MethodRef::Refer(url) => {
          s.refs.insert((name.to_string(), url.to_string()));
        }
      }
    }
  }
  for sv in core.service().iter() {
    s.services.insert(fixture!(sv.to_json(), "service to_json"));
  }
  let ks = storage.key_storage();
  for id in ks.issued() {
    if fixture!(block_on(ks.inner().exists(&id)), "inner exists") {
      s.keys.insert(id.as_str().to_string());
    }
  }
  let is = storage.key_id_storage();
  for d in is.digests() {
    if let Ok(k) = block_on(is.inner().get_key_id(&d)) {
      s.key_ids.insert(hex(&d.pack()), k.as_str().to_string());
    }
  }
  // The in-memory stores cannot be listed; `count()` proves the tracked universe misses nothing.
  let (kc, ic) = (block_on(ks.inner().count()), block_on(is.inner().count()));
  if kc != s.keys.len() || ic != s.key_ids.len() {
    return Err(Viol::fixture(format!(
      "store content outside the tracked universe: {kc} keys / {} tracked, {ic} key ids / {} tracked",
      s.keys.len(),
      s.key_ids.len()
    )));
  }
  Ok(s)
}

fn diff<T: Ord + Clone + std::fmt::Debug>(pre: &BTreeSet<T>, post: &BTreeSet<T>) -> (Vec<T>, Vec<T>) {
  (pre.difference(post).cloned().collect(), post.difference(pre).cloned().collect())
}

// ---------------------------------------------------------------------------------------------
// Execution (no judgement here: the tree enumerator also uses it to discover branch points)
// ---------------------------------------------------------------------------------------------

#[derive(Debug, Clone)]
enum Outcome {
  Ok(String),
  Err { undo_failed: bool, text: String },
  Panicked(String),
}

/// What was observed right after an `Ok` from `generate_method`.
#[derive(Debug, Clone)]
struct GenObs {
  /// `resolve_method(<did>#<fragment> as DIDUrl, requested scope)` finds the method.
  resolves_in_scope: bool,
  /// `resolve_method(<fragment as returned>, requested scope)` finds it too (string query).
  fragment_query_resolves: bool,
  digest: Option<String>,
  /// `create_jws` through the same (disarmed) storage, then verification; `Err` = why it failed.
  sign: Result<(), (&'static str, String)>,
}

#[derive(Debug, Clone)]
enum StepKind {
  Generate { scope: u8, fragment: Option<String>, colliding: bool },
  Purge { id: String, digest: Option<String> },
}

#[derive(Debug, Clone)]
struct Step {
  kind: StepKind,
  pre: Snapshot,
  post: Snapshot,
  outcome: Outcome,
  calls: Vec<CallRec>,
  gen_obs: Option<GenObs>,
}

struct Trace {
  steps: Vec<Step>,
  /// Storage calls made by the operations of the whole history.
  calls: usize,
}

fn ed_verify(public: &[u8], msg: &[u8], sig: &[u8]) -> bool {
  let (Ok(pk), Ok(sig)) = (<[u8; 32]>::try_from(public), <[u8; 64]>::try_from(sig)) else {
    return false;
  };
  match PublicKey::try_from_bytes(pk) {
    Ok(pk) => pk.verify(&Signature::from_bytes(sig), msg),
    Err(_) => false,
  }
}

/// Signs with the freshly generated method through the library and verifies the token twice: with the
/// library verifier and with iota-crypto over the raw segments under the `x` the document now shows.
fn probe_signing<D: TestDoc>(doc: &D, storage: &FStorage, fragment: &str, query: &str) -> Result<(), (&'static str, String)> {
  let jws = match catch(|| block_on(doc.create_jws(storage, query, PAYLOAD, &JwsSignatureOptions::default()))) {
    Ok(Ok(j)) => j,
    Ok(Err(e)) => return Err(("generate-ok-signing-fails", format!("create_jws: {e} ({e:?})"))),
    Err(p) => return Err(("generate-ok-signing-fails", format!("create_jws panicked: {}", p.msg))),
  };
  let token = jws.as_str().to_string();
  match catch(|| {
    doc
      .core()
      .verify_jws(&token, None, &EdDSAJwsVerifier::default(), &JwsVerificationOptions::default())
      .map(|_| ())
      .map_err(|e| e.to_string())
  }) {
    Ok(Ok(())) => {}
    Ok(Err(e)) => return Err(("generate-ok-signature-invalid", format!("verify_jws rejects {token}: {e}"))),
    Err(p) => return Err(("generate-ok-signature-invalid", format!("verify_jws panicked: {}", p.msg))),
  }
  let x = method_by_fragment(doc.core(), fragment)
    .and_then(|m| m.data().public_key_jwk())
    .and_then(|jwk: &Jwk| jwk.try_okp_params().ok())
    .and_then(|p| b64url_decode_strict(p.x.as_bytes()));
  let parts: Vec<&str> = token.split('.').collect();
  let ok = match (x, parts.as_slice()) {
    (Some(x), [h, p, s]) => {
      b64url_decode_strict(p.as_bytes()).as_deref() == Some(PAYLOAD)
        && b64url_decode_strict(s.as_bytes()).is_some_and(|sig| ed_verify(&x, format!("{h}.{p}").as_bytes(), &sig))
    }
    _ => false,
  };
  if !ok {
    return Err((
      "generate-ok-signature-invalid",
      format!("{token} is not an Ed25519 signature over the probe payload under the method's public key"),
    ));
  }
  Ok(())
}

/// Looks a method up by its full id. (A bare-fragment string query is *not* used for bookkeeping: see
/// `generate-ok-fragment-query-fails`.)
fn method_by_fragment<'a>(core: &'a CoreDocument, fragment: &str) -> Option<&'a identity_verification::VerificationMethod> {
  let id = DIDUrl::parse(format!("{}#{fragment}", core.id())).ok()?;
  core.resolve_method(&id, None)
}

fn digest_hex(core: &CoreDocument, id: &DIDUrl) -> Option<String> {
  core
    .resolve_method(id, None)
    .and_then(|m| MethodDigest::new(m).ok())
    .map(|d| hex(&d.pack()))
}

fn run_history<D: TestDoc>(case: &Case) -> Result<Trace, Viol> {
  let (json, mut fragments, backed) = base_document_json(D::DID, &case.base);
  let mut doc: D = fixture!(D::parse(json), "base document");
  let ctl = FaultCtl::new(case.plan.clone());
  ctl.set_not_found_faults(case.fault_kind == 1);
  let storage: FStorage = Storage::new(
    FaultyJwkStorage::new(JwkMemStore::new(), ctl.clone()),
    FaultyKeyIdStorage::new(KeyIdMemstore::new(), ctl.clone()),
  );
  // Fixture: keys of the pre-existing methods go into the stores (disarmed wrappers).
  for (fragment, key) in &backed {
    let mut jwk = key.private_jwk_json();
    jwk["alg"] = json!("EdDSA");
    let jwk = fixture!(Jwk::from_json_value(jwk), "fixture jwk");
    let key_id = fixture!(block_on(storage.key_storage().insert(jwk)), "fixture key insert");
    let method = match method_by_fragment(doc.core(), fragment) {
      Some(m) => m,
      None => return Err(Viol::fixture(format!("base method #{fragment} does not resolve"))),
    };
    let digest = fixture!(MethodDigest::new(method), "fixture digest");
    fixture!(block_on(storage.key_id_storage().insert_key_id(digest, key_id)), "fixture key id insert");
  }
  let mut names: Vec<String> = fragments.clone();
  if case.base.extras {
    names.push("svc".into());
    names.push("dangling".into());
  }

  let mut steps = Vec::new();
  for (index, op) in case.ops.iter().enumerate() {
    let pre = snapshot(doc.core(), &storage)?;
    let log_from = ctl.calls();
    let (kind, outcome) = match op {
      Op::Generate { frag, scope } => {
        let (fragment, colliding) = match frag {
          Frag::Given | Frag::GivenNoKid => (Some(format!("g{index}")), false),
          Frag::FromKid | Frag::NoKid => (None, false),
          Frag::DidPrefixed => (Some(format!("didcomm-{index}")), false),
          Frag::Colliding(i) if !names.is_empty() => (Some(names[pick(*i, names.len())].clone()), true),
          Frag::Colliding(_) => (Some(format!("g{index}")), false),
        };
        ctl.set_strip_kid(matches!(frag, Frag::NoKid | Frag::GivenNoKid));
        ctl.arm();
        let r = catch(|| {
          block_on(doc.generate_method(
            &storage,
            JwkMemStore::ED25519_KEY_TYPE,
            JwsAlgorithm::EdDSA,
            fragment.as_deref(),
            method_scope(*scope),
          ))
        });
        ctl.disarm();
        ctl.set_strip_kid(false);
        let outcome = match r {
          Ok(Ok(f)) => Outcome::Ok(f),
          Ok(Err(e)) => Outcome::Err {
            undo_failed: matches!(e, JwkStorageDocumentError::UndoOperationFailed { .. }),
            text: format!("{e} ({e:?})"),
          },
          Err(p) => Outcome::Panicked(p.msg),
        };
        (StepKind::Generate { scope: *scope % 6, fragment, colliding }, outcome)
      }
      Op::Purge { target, variant } => {
        let fragment = match target {
          Some(i) if !fragments.is_empty() => fragments[pick(*i, fragments.len())].clone(),
          _ => "absent".to_string(),
        };
        let suffix = match variant % 3 {
          0 => "",
          1 => "?versionId=1",
          _ => "/p",
        };
        let id = fixture!(DIDUrl::parse(format!("{}{suffix}#{fragment}", D::DID)), "purge id");
        let digest = digest_hex(doc.core(), &id);
        ctl.arm();
        let r = catch(|| block_on(doc.purge_method(&storage, &id)));
        ctl.disarm();
        let outcome = match r {
          Ok(Ok(())) => Outcome::Ok(fragment),
          Ok(Err(e)) => Outcome::Err {
            undo_failed: matches!(e, JwkStorageDocumentError::UndoOperationFailed { .. }),
            text: format!("{e} ({e:?})"),
          },
          Err(p) => Outcome::Panicked(p.msg),
        };
        (StepKind::Purge { id: id.to_string(), digest }, outcome)
      }
    };
    let calls = ctl.log_since(log_from);
    let panicked = matches!(outcome, Outcome::Panicked(_));
    let post = if panicked { pre.clone() } else { snapshot(doc.core(), &storage)? };
    let mut gen_obs = None;
    if let (StepKind::Generate { scope, .. }, Outcome::Ok(f)) = (&kind, &outcome) {
      let id = fixture!(DIDUrl::parse(format!("{}#{f}", D::DID)), "generated method id");
      let resolved = doc.core().resolve_method(&id, Some(method_scope(*scope)));
      let fragment_query_resolves = doc.core().resolve_method(f.as_str(), Some(method_scope(*scope))).is_some();
      // Where the returned fragment does not work as a query (reported on its own), signing is probed through
      // the `#fragment` form so that a signing failure keeps meaning "the key cannot sign".
      let query = if fragment_query_resolves { f.clone() } else { format!("#{f}") };
      gen_obs = Some(GenObs {
        resolves_in_scope: resolved.is_some(),
        fragment_query_resolves,
        digest: resolved.and_then(|m| MethodDigest::new(m).ok()).map(|d| hex(&d.pack())),
        sign: probe_signing(&doc, &storage, f, &query),
      });
      fragments.push(f.clone());
      names.push(f.clone());
    }
    // Keep the harness-side name lists in step with what the document really holds now (an
    // `UndoOperationFailed` or a tolerated known finding may leave any state behind).
    fragments.retain(|f| method_by_fragment(doc.core(), f).is_some());
    names.retain(|f| f == "svc" || f == "dangling" || method_by_fragment(doc.core(), f).is_some());
    steps.push(Step { kind, pre, post, outcome, calls, gen_obs });
    if panicked {
      break;
    }
  }
  Ok(Trace { steps, calls: ctl.calls() })
}

fn execute(case: &Case) -> Result<Trace, Viol> {
  match case.doc {
    DocKind::Core => run_history::<CoreDocument>(case),
    DocKind::Iota => run_history::<IotaDocument>(case),
  }
}

// ---------------------------------------------------------------------------------------------
// Oracle
// ---------------------------------------------------------------------------------------------

/// `generate[generate,insert_key_id!,delete]` — the storage calls of one operation, `!` = injected fault.
fn path_label(op: &str, calls: &[CallRec]) -> String {
  let names: Vec<String> = calls
    .iter()
    .map(|c| format!("{}{}", c.kind.name(), if c.injected { "!" } else { "" }))
    .collect();
  format!("{op}[{}]", names.join(","))
}

/// `did:x:1/p?q#f` -> `did:x:1#f`: the id without its path and query.
fn plain_id(id: &str) -> String {
  match id.split_once('#') {
    Some((before, fragment)) => format!("{}#{fragment}", before.split(['/', '?']).next().unwrap_or(before)),
    None => id.to_string(),
  }
}

fn judge_step(step: &Step, obs: &mut Obs) -> CheckResult {
  let Step { kind, pre, post, outcome, calls, gen_obs } = step;
  let injected = calls.iter().filter(|c| c.injected).count();
  let op = match kind {
    StepKind::Generate { .. } => "generate",
    StepKind::Purge { .. } => "purge",
  };
  let path = path_label(op, calls);
  let res = match outcome {
    Outcome::Ok(_) => "ok",
    Outcome::Err { undo_failed: true, .. } => "undo-failed",
    Outcome::Err { .. } => "err",
    Outcome::Panicked(_) => "panic",
  };
  obs.label(format!("{path}={res}"));
  obs.label(format!("{op}-{res}"));
  obs.label(match injected {
    0 => "op-faults-0",
    1 => "op-faults-1",
    _ => "op-faults-2+",
  });
  // Non-trivial: a fault hit after this operation had already changed state (a rollback branch ran).
  let target_present = match kind {
    StepKind::Purge { id, .. } => pre.methods.iter().any(|m| &m.0 == id),
    StepKind::Generate { .. } => false,
  };
  let first_fault = calls.iter().position(|c| c.injected);
  if let Some(i) = first_fault {
    obs.label(format!("{op}-first-fault-at-call-{}", i.min(4)));
    if target_present || calls[..i].iter().any(|c| c.ok) {
      obs.nontrivial();
      obs.label("rollback-branch");
      // which way out the operation took once it had to roll back (independent of the order of its storage calls)
      obs.label(format!("{op}-rollback={res}"));
    }
  }

  let (m_lost, m_new) = diff(&pre.methods, &post.methods);
  let (r_lost, r_new) = diff(&pre.refs, &post.refs);
  let (k_lost, k_new) = diff(&pre.keys, &post.keys);
  let pre_ids: BTreeSet<(String, String)> = pre.key_ids.clone().into_iter().collect();
  let post_ids: BTreeSet<(String, String)> = post.key_ids.clone().into_iter().collect();
  let (i_lost, i_new) = diff(&pre_ids, &post_ids);
  let services_same = pre.services == post.services;

  match (kind, outcome) {
    (_, Outcome::Panicked(msg)) => {
      vfail!(obs, format!("{op}-method-panics"), "{path}: {op}_method panicked: {msg}");
    }
    (_, Outcome::Err { undo_failed: true, text }) => {
      // Explicit report of a failed undo step: the statement exempts the state it leaves. What it reports has to have
      // happened, though: some storage call of this operation failed after the operation had already changed state
      // (otherwise there was nothing to undo, or nothing kept the undo from succeeding).
      let first_failed = calls.iter().position(|c| !c.ok);
      let undo_could_fail = first_failed.is_some_and(|i| target_present || calls[..i].iter().any(|c| c.ok));
      vensure!(
        obs,
        undo_could_fail,
        format!("{op}-reports-failed-undo-without-failed-call"),
        "{path}: Err({text}) reports a failed undo step, but no storage call failed after the operation had changed state"
      );
    }
    (StepKind::Generate { scope, fragment, colliding }, Outcome::Ok(f)) => {
      let Some(g) = gen_obs.as_ref() else {
        return Err(Viol::fixture("no post-generate observation was recorded for an Ok generate"));
      };
      if *colliding {
        obs.label("generate-ok-on-colliding-fragment");
      }
      vensure!(
        obs,
        g.resolves_in_scope,
        "generate-ok-method-unresolvable",
        "{path}: Ok({f:?}) (requested fragment {fragment:?}) but resolve_method(<did>#{f}, {}) is None",
        scope_name(*scope)
      );
      if g.resolves_in_scope {
        vensure!(
          obs,
          g.fragment_query_resolves,
          "generate-ok-fragment-query-fails",
          "{path}: Ok({f:?}) and the method is present under <did>#{f}, but resolve_method({f:?}, {}) - and with it \
           create_jws(storage, {f:?}, ..) - does not find it",
          scope_name(*scope)
        );
      }
      let key_id = g.digest.as_ref().and_then(|d| post.key_ids.get(d));
      vensure!(
        obs,
        key_id.is_some(),
        "generate-ok-key-id-missing",
        "{path}: Ok({f:?}) but the key-id store has no entry under the method's digest {:?}",
        g.digest
      );
      if let Some(key_id) = key_id {
        vensure!(
          obs,
          post.keys.contains(key_id),
          "generate-ok-key-missing",
          "{path}: Ok({f:?}) but key id {key_id} does not exist in the key store"
        );
      }
      if let Err((sig, detail)) = &g.sign {
        vfail!(obs, *sig, "{path}: Ok({f:?}) but {detail}");
      }
      // Frame: exactly one method, one key and one key id were added; nothing else moved.
      let frame_ok = m_lost.is_empty()
        && m_new.len() == 1
        && r_lost.is_empty()
        && r_new.is_empty()
        && services_same
        && k_lost.is_empty()
        && k_new.len() == 1
        && i_lost.is_empty()
        && i_new.len() == 1;
      vensure!(
        obs,
        frame_ok,
        "generate-ok-frame-changed",
        "{path}: Ok({f:?}) but besides the new method: methods -{m_lost:?} +{m_new:?}, references -{r_lost:?} +{r_new:?}, \
         services same: {services_same}, keys -{k_lost:?} +{k_new:?}, key ids -{i_lost:?} +{i_new:?}"
      );
    }
    (StepKind::Generate { .. }, Outcome::Err { text, .. }) => {
      vensure!(
        obs,
        m_new.is_empty(),
        "generate-err-method-left-behind",
        "{path}: Err({text}) but the document gained {m_new:?}"
      );
      // narrow signature for the rollback that takes pre-existing references with it
      if m_lost.is_empty() && r_new.is_empty() && services_same && !r_lost.is_empty() {
        vfail!(
          obs,
          "generate-rollback-drops-preexisting-references",
          "{path}: Err({text}) but references that were in the document before the call are gone: {r_lost:?}"
        );
      }
      vensure!(
        obs,
        m_lost.is_empty() && r_lost.is_empty() && r_new.is_empty() && services_same,
        "generate-err-document-changed",
        "{path}: Err({text}) but methods -{m_lost:?}, references -{r_lost:?} +{r_new:?}, services same: {services_same}"
      );
      vensure!(
        obs,
        k_new.is_empty(),
        "generate-err-orphaned-key",
        "{path}: Err({text}) but the key store gained {k_new:?}"
      );
      vensure!(obs, k_lost.is_empty(), "generate-err-key-store-changed", "{path}: Err({text}) but keys {k_lost:?} are gone");
      vensure!(
        obs,
        i_lost.is_empty() && i_new.is_empty(),
        "generate-err-key-id-store-changed",
        "{path}: Err({text}) but key ids -{i_lost:?} +{i_new:?}"
      );
    }
    (StepKind::Purge { id, digest }, Outcome::Ok(_)) => {
      let remaining: Vec<_> = post.methods.iter().filter(|m| &m.0 == id).map(|m| m.1.clone()).collect();
      vensure!(obs, remaining.is_empty(), "purge-ok-method-remains", "{path}: Ok but {id} is still in {remaining:?}");
      let refs: Vec<_> = post.refs.iter().filter(|r| &r.1 == id).collect();
      vensure!(obs, refs.is_empty(), "purge-ok-references-remain", "{path}: Ok but references remain: {refs:?}");
      let key_id = digest.as_ref().and_then(|d| pre.key_ids.get(d));
      if let Some(d) = digest {
        vensure!(
          obs,
          !post.key_ids.contains_key(d),
          "purge-ok-key-id-remains",
          "{path}: Ok but the key-id store still maps digest {d} to {:?}",
          post.key_ids.get(d)
        );
      }
      if let Some(k) = key_id {
        vensure!(obs, !post.keys.contains(k), "purge-ok-key-remains", "{path}: Ok but key {k} still exists");
      }
      // Whatever id spelling was used: a key or key id that disappeared must belong to a method that disappeared too
      // (an Ok that deletes the key of a method which stays in the document leaves it without a usable key).
      vensure!(
        obs,
        (k_lost.is_empty() && i_lost.is_empty()) || !m_lost.is_empty(),
        "purge-ok-key-removed-but-method-remains",
        "{path}: Ok for {id}: keys -{k_lost:?}, key ids -{i_lost:?} were deleted but no method left the document"
      );
      // Frame: only the target, the references to it, its key and its key id went away. An id spelled with a path or
      // query names no method by itself; a purge that takes it for the method with the same DID and fragment and
      // removes everything that belongs to that method is as complete as one that refuses the id.
      let plain = plain_id(id);
      let variant = &plain != id;
      let names_target = |x: &String| x == id || *x == plain;
      let frame_ok = m_new.is_empty()
        && m_lost.iter().all(|m| names_target(&m.0))
        && r_new.is_empty()
        && r_lost.iter().all(|r| names_target(&r.1))
        && services_same
        && k_new.is_empty()
        && (variant && k_lost.len() <= 1 || k_lost.iter().all(|k| Some(k) == key_id))
        && i_new.is_empty()
        && (variant && i_lost.len() <= 1 || i_lost.iter().all(|(d, _)| Some(d) == digest.as_ref()));
      vensure!(
        obs,
        frame_ok,
        "purge-ok-frame-changed",
        "{path}: Ok for {id} but methods -{m_lost:?} +{m_new:?}, references -{r_lost:?} +{r_new:?}, services same: \
         {services_same}, keys -{k_lost:?} +{k_new:?}, key ids -{i_lost:?} +{i_new:?}"
      );
    }
    (StepKind::Purge { id, .. }, Outcome::Err { text, .. }) => {
      if id.contains('?') || id.contains("/p#") {
        obs.label("purge-id-with-path-or-query-refused");
      }
      if injected == 0 && target_present {
        obs.label("purge-natural-storage-error");
      }
      vensure!(
        obs,
        !m_lost.iter().any(|m| &m.0 == id),
        "purge-err-method-not-restored",
        "{path}: Err({text}) but {id} is gone from the document"
      );
      vensure!(
        obs,
        m_lost.is_empty() && m_new.is_empty() && services_same,
        "purge-err-document-changed",
        "{path}: Err({text}) but methods -{m_lost:?} +{m_new:?}, services same: {services_same}"
      );
      if !r_lost.is_empty() && r_new.is_empty() && r_lost.iter().all(|r| &r.1 == id) {
        let rels: Vec<&str> = r_lost.iter().map(|r| r.0.as_str()).collect();
        obs.label(format!("lost-references@{path}"));
        vfail!(
          obs,
          "purge-rollback-lost-references",
          "{path}: Err({text}); {id} was re-inserted but its references from {rels:?} were not restored"
        );
      } else {
        vensure!(
          obs,
          r_lost.is_empty() && r_new.is_empty(),
          "purge-err-references-changed",
          "{path}: Err({text}) but references -{r_lost:?} +{r_new:?}"
        );
      }
      vensure!(
        obs,
        k_lost.is_empty() && k_new.is_empty(),
        "purge-err-key-store-changed",
        "{path}: Err({text}) but keys -{k_lost:?} +{k_new:?}"
      );
      vensure!(
        obs,
        i_lost.is_empty() && i_new.is_empty(),
        "purge-err-key-id-store-changed",
        "{path}: Err({text}) but key ids -{i_lost:?} +{i_new:?}"
      );
    }
  }
  Ok(())
}

pub fn check(case: &Case, obs: &mut Obs) -> CheckResult {
  let trace = execute(case)?;
  obs.label(match case.doc {
    DocKind::Core => "core-document",
    DocKind::Iota => "iota-document",
  });
  if trace.calls < case.plan.iter().rposition(|f| *f).map_or(0, |i| i + 1) {
    obs.label("plan-longer-than-history");
  }
  for (op, step) in case.ops.iter().zip(&trace.steps) {
    if let Op::Generate { frag: frag @ (Frag::NoKid | Frag::GivenNoKid), .. } = op {
      let how = if matches!(frag, Frag::NoKid) { "no-fragment" } else { "fragment-given" };
      let out = match &step.outcome {
        Outcome::Ok(_) => "ok",
        Outcome::Err { undo_failed: true, .. } => "undo-failed",
        Outcome::Err { .. } => "err",
        Outcome::Panicked(_) => "panic",
      };
      obs.label(format!("storage-jwk-without-kid:{how}={out}"));
    }
  }
  for step in &trace.steps {
    if let Err(v) = judge_step(step, obs) {
      // The engine only reports shrunk cases; VCHECK_DEBUG=1 shows a violation when it is first seen, which is
      // the only way to diagnose one that does not reproduce (key material comes from OS randomness).
      if std::env::var_os("VCHECK_DEBUG").is_some() {
        eprintln!("DEBUG {} {} case={}", v.sig, v.detail, serde_json::to_string(case).unwrap_or_default());
      }
      return Err(v);
    }
  }
  Ok(())
}

// ---------------------------------------------------------------------------------------------
// Enumeration: shapes and the fault decision tree
// ---------------------------------------------------------------------------------------------

/// Upper bound on explicit decisions per case (a single operation makes at most 4 storage calls).
const MAX_PLAN: usize = 64;

/// Depth-first enumeration of every fault path of every shape. A case with explicit decision prefix
/// `plan` is executed once to learn how many storage calls its history makes; each call past the prefix
/// is a branch point whose "fails" side is scheduled as a new prefix (the "succeeds" side is the run
/// itself). Every set of failing call occurrences that is reachable is visited exactly once.
struct TreeIter {
  shapes: std::vec::IntoIter<Case>,
  stack: Vec<Case>,
}

impl Iterator for TreeIter {
  type Item = Case;
  fn next(&mut self) -> Option<Case> {
    loop {
      if let Some(case) = self.stack.pop() {
        // A run that cannot be executed (fixture failure, escaped panic) is still handed to `check`,
        // which reports it; it simply has no children.
        let calls = catch(|| execute(&case).map(|t| t.calls)).ok().and_then(|r| r.ok()).unwrap_or(0);
        for i in (case.plan.len()..calls.min(MAX_PLAN)).rev() {
          let mut plan = case.plan.clone();
          plan.resize(i, false);
          plan.push(true);
          self.stack.push(Case { plan, ..case.clone() });
        }
        return Some(case);
      }
      let shape = self.shapes.next()?;
      self.stack.push(Case { plan: Vec::new(), ..shape });
    }
  }
}

fn tree_iter(shapes: Vec<Case>) -> TreeIter {
  TreeIter { shapes: shapes.into_iter(), stack: Vec::new() }
}

fn shape(doc: DocKind, methods: Vec<BaseMethod>, extras: bool, ops: Vec<Op>) -> Case {
  Case { doc, base: Base { methods, extras }, ops, plan: Vec::new(), fault_kind: 0 }
}

const DOCS: [DocKind; 2] = [DocKind::Core, DocKind::Iota];

fn bm(scope: u8, refs: u8) -> BaseMethod {
  BaseMethod { scope, refs }
}

/// generate_method: {empty, populated} document × fragment mode × each of the 6 scopes.
fn generate_shapes() -> Vec<Case> {
  let mut v = Vec::new();
  for doc in DOCS {
    for scope in 0..6u8 {
      for frag in [Frag::Given, Frag::FromKid, Frag::DidPrefixed, Frag::NoKid, Frag::GivenNoKid] {
        v.push(shape(doc, vec![], false, vec![Op::Generate { frag, scope }]));
      }
      // populated: names = [k0, k1, x-gp, x-emb, svc, dangling]; collide with a backed general-purpose method, a
      // backed embedded method, the unbacked methods, the service, and the id of a dangling reference (which a
      // general-purpose method may take).
      let populated = || vec![bm(0, 0b00011), bm(2, 0)];
      for frag in [
        Frag::Given,
        Frag::FromKid,
        Frag::NoKid,
        Frag::GivenNoKid,
        Frag::Colliding(0),
        Frag::Colliding(11000),
        Frag::Colliding(22000),
        Frag::Colliding(33000),
        Frag::Colliding(44000),
        Frag::Colliding(65535),
      ] {
        v.push(shape(doc, populated(), true, vec![Op::Generate { frag, scope }]));
      }
    }
  }
  v
}

/// purge_method: target embedded in each relationship or general-purpose with each subset of the 5
/// relationships referencing it; alone or next to other backed/unbacked methods, references and a service.
fn purge_shapes() -> Vec<Case> {
  let mut v = Vec::new();
  let subsets: Vec<u8> = (0..32).collect();
  for doc in DOCS {
    for extras in [false, true] {
      let mut targets: Vec<BaseMethod> = (1..=5).map(|r| bm(r, 0)).collect();
      targets.extend(subsets.iter().map(|s| bm(0, *s)));
      for t in targets {
        let mut methods = vec![t];
        if extras {
          methods.push(bm(0, 0b00101));
          methods.push(bm(3, 0));
        }
        v.push(shape(doc, methods, extras, vec![Op::Purge { target: Some(0), variant: 0 }]));
      }
    }
    // the id of an existing method spelled with a query or a path: it names no method (either refused with
    // nothing changed, or everything that belongs to the method goes away together)
    for variant in [1u8, 2] {
      v.push(shape(doc, vec![bm(0, 0b00011)], false, vec![Op::Purge { target: Some(0), variant }]));
      v.push(shape(doc, vec![bm(4, 0)], false, vec![Op::Purge { target: Some(0), variant }]));
    }
    // absent id; methods that are not backed by the stores (natural KeyIdNotFound from get_key_id)
    v.push(shape(doc, vec![bm(0, 0b00011)], true, vec![Op::Purge { target: None, variant: 0 }]));
    v.push(shape(doc, vec![], true, vec![Op::Purge { target: Some(0), variant: 0 }])); // x-gp, referenced twice
    v.push(shape(doc, vec![], true, vec![Op::Purge { target: Some(65535), variant: 0 }])); // x-emb
  }
  v
}

const ALPHABET_LEN: usize = 8;
fn alphabet(i: usize) -> Op {
  match i {
    0 => Op::Generate { frag: Frag::Given, scope: 0 },
    1 => Op::Generate { frag: Frag::FromKid, scope: 1 },
    2 => Op::Generate { frag: Frag::Given, scope: 4 },
    3 => Op::Generate { frag: Frag::Colliding(0), scope: 0 },
    4 => Op::Purge { target: Some(0), variant: 0 },
    5 => Op::Purge { target: Some(20000), variant: 0 },
    6 => Op::Purge { target: Some(65535), variant: 0 },
    _ => Op::Purge { target: None, variant: 0 },
  }
}

/// Every sequence of `len` operations over a small alphabet, from a populated document.
fn sequence_shapes(len: u32) -> Vec<Case> {
  let mut v = Vec::new();
  for doc in DOCS {
    for n in 0..ALPHABET_LEN.pow(len) {
      let ops = (0..len).map(|k| alphabet(n / ALPHABET_LEN.pow(k) % ALPHABET_LEN)).collect();
      v.push(shape(doc, vec![bm(0, 0b01001), bm(5, 0), bm(0, 0)], false, ops));
    }
  }
  v
}

fn op_strategy() -> impl Strategy<Value = Op> {
  let frag = prop_oneof![
    3 => Just(Frag::Given),
    3 => Just(Frag::FromKid),
    1 => any::<u16>().prop_map(Frag::Colliding),
    1 => Just(Frag::DidPrefixed),
    1 => Just(Frag::NoKid),
    1 => Just(Frag::GivenNoKid),
  ];
  prop_oneof![
    4 => (frag, 0u8..6).prop_map(|(frag, scope)| Op::Generate { frag, scope }),
    5 => (any::<u16>(), prop_oneof![6 => Just(0u8), 1 => Just(1u8), 1 => Just(2u8)]).prop_map(|(t, variant)| Op::Purge { target: Some(t), variant }),
    1 => Just(Op::Purge { target: None, variant: 0 }),
  ]
}

fn history_strategy() -> impl Strategy<Value = Case> {
  let base_method = prop_oneof![
    2 => (0u8..32).prop_map(|refs| bm(0, refs)),
    1 => (1u8..6).prop_map(|scope| bm(scope, 0)),
  ];
  (
    prop_oneof![Just(DocKind::Core), Just(DocKind::Iota)],
    prop::collection::vec(base_method, 0..=3),
    any::<bool>(),
    prop::collection::vec(op_strategy(), 3..=10),
    // fault density varies per case: sparse plans reach deep into the history, dense ones pile up faults
    prop_oneof![Just(0.1f64), Just(0.25), Just(0.5)].prop_flat_map(|p| prop::collection::vec(prop::bool::weighted(p), 0..=40)),
  )
    .prop_map(|(doc, methods, extras, ops, plan)| {
      // a third of the histories report their faults as "not found"
      let fault_kind = (plan.len() % 3 == 1) as u8;
      Case { doc, base: Base { methods, extras }, ops, plan, fault_kind }
    })
}

pub fn run(ctx: &mut Ctx) {
  ctx.level = "fault_enumeration";
  ctx.rule = "fail-stop faults (error returned, inner store untouched) injected by harness-side JwkStorage/KeyIdStorage wrappers \
    around JwkMemStore/KeyIdMemstore; the decision tree over 'does the n-th storage call of the history fail?' is enumerated \
    exhaustively by re-execution (every reachable subset of failing call occurrences exactly once) for single generate_method \
    shapes (empty/populated document x fragment given / from kid / given and beginning with 'did' / colliding with a backed \
    general, backed embedded, unbacked method or a service x 6 scopes), single purge_method shapes (target embedded in each relationship or general-purpose with \
    each of the 32 subsets of the 5 relationships referencing it, alone or next to other methods, foreign \
    references and a service; absent and unbacked targets) and all operation sequences of length 2 (thorough: 3) over an \
    8-letter alphabet, each for CoreDocument and IotaDocument; plus random histories of 3-10 operations with random fault plans. \
    Oracle: snapshots of the document (methods with scope, references, services - as sets) and of the inner stores taken \
    before/after every operation; after Ok from generate the new method must resolve in scope, have its key id recorded, its \
    key present and create_jws must verify (library EdDSA verifier and iota-crypto directly). Non-trivial = an operation had \
    an injected fault after it had already changed state (an earlier storage call of the operation succeeded, or a purge had \
    removed an existing method), i.e. a rollback branch ran; distinct by case bytes."
    .into();
  ctx.assume("faults are fail-stop: a storage call that mutates the store and then reports failure is outside the statement");
  ctx.assume("call occurrences are indexed over both stores in call order; futures::join!(delete, delete_key_id) polls delete first and the in-memory stores never yield, so the order is deterministic");
  ctx.assume("Err(UndoOperationFailed{..}) is only required to be that variant; the state it leaves is not judged and later operations of the history start from whatever it left");
  ctx.assume("purge_method of a method without a stored key id (natural KeyIdNotFound from get_key_id) counts as a failing key-id-storage call: the document must be unchanged");
  ctx.assume("Ok results additionally get a frame check (nothing but the target method, its references, key and key id changed)");
  ctx.assume("key material and key ids come from OS randomness inside JwkMemStore::generate; control flow and verdicts do not depend on them");
  ctx.assume("only the in-memory stores are wrapped; order of methods inside a set is not compared");

  let both_kinds = |shapes: Vec<Case>| -> Vec<Case> {
    shapes
      .into_iter()
      .flat_map(|c| {
        let mut not_found = c.clone();
        not_found.fault_kind = 1;
        [c, not_found]
      })
      .collect()
  };
  ctx.exhaustive("tree-generate", move || tree_iter(both_kinds(generate_shapes())), check);
  ctx.exhaustive("tree-purge", move || tree_iter(both_kinds(purge_shapes())), check);
  let len = ctx.pick(2, 3);
  ctx.exhaustive("tree-sequences", move || tree_iter(sequence_shapes(len)), check);
  ctx.proptest("histories", ctx.pick(20_000, 400_000), history_strategy, check);

  // every way out of both operations was exercised: success, failure before anything changed, failure after a
  // successful earlier storage call (rolled back, or reported as a failed undo). The classes do not name the call
  // sequence (it is recorded as `generate[..]=..` / `purge[..]=..` for the evidence only), so a reordering of the
  // storage calls that keeps the property does not starve them.
  for class in [
    "tree-generate:generate-ok",
    "tree-generate:generate-first-fault-at-call-0",
    "tree-generate:generate-first-fault-at-call-1",
    "tree-generate:generate-rollback=err",
    "tree-generate:generate-rollback=undo-failed",
    "tree-purge:purge-ok",
    "tree-purge:purge-first-fault-at-call-0",
    "tree-purge:purge-first-fault-at-call-1",
    "tree-purge:purge-first-fault-at-call-2",
    "tree-purge:purge-rollback=err",
    "tree-purge:purge-rollback=undo-failed",
  ] {
    ctx.require_class(class, 2);
  }
  ctx.require_class("tree-generate:storage-jwk-without-kid:no-fragment=err", 10);
  ctx.require_class("tree-generate:storage-jwk-without-kid:fragment-given=ok", 10);
  ctx.require_class("histories:storage-jwk-without-kid:no-fragment=err", 100);
  ctx.require_class("tree-sequences:rollback-branch", 100);
  ctx.require_class("histories:rollback-branch", 500);
  ctx.require_class("histories:op-faults-2+", 100);
  ctx.require_class("histories:generate-ok", 500);
  ctx.require_class("histories:purge-ok", 500);
}

pub fn replay(v: &serde_json::Value, obs: &mut Obs) -> Result<CheckResult, String> {
  replay_with::<Case>(v, obs, check)
}
