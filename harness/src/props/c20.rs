//! C20 — The resolver dispatches by DID method and is independent of completion order.
//!
//! Harness handlers log every call `(handler id, DID string)` on a shared board and return a *gate
//! future* that stays pending until the harness releases the gate of that DID. A hand-written
//! single-threaded executor polls the `resolve` / `resolve_multiple` future and opens the gates in the
//! order given by the case, so the completion order of the concurrently polled handler futures is fully
//! controlled (no threads, no timers).

use crate::engine::*;
use crate::fixture;
use crate::model::iota_did::is_normal_iota_did;
use crate::util::b64url;
use crate::vensure;
use crate::vfail;
use futures::task::ArcWake;
use identity_core::convert::FromJson;
use identity_core::convert::ToJson;
use identity_did::CoreDID;
use identity_did::DID;
use identity_did::DIDJwk;
use identity_document::document::CoreDocument;
use identity_iota_core::IotaDID;
use identity_resolver::ErrorCause;
use identity_resolver::Resolver;
use identity_resolver::SingleThreadedResolver;
use proptest::prelude::*;
use serde::Deserialize;
use serde::Serialize;
use serde_json::json;
use serde_json::Value;
use std::collections::BTreeMap;
use std::collections::BTreeSet;
use std::collections::HashMap;
use std::future::Future;
use std::pin::Pin;
use std::sync::atomic::AtomicBool;
use std::sync::atomic::Ordering;
use std::sync::Arc;
use std::sync::Mutex;
use std::sync::MutexGuard;
use std::task::Context;
use std::task::Poll;
use std::task::Waker;

// ---------------------------------------------------------------------------------------------
// Case data
// ---------------------------------------------------------------------------------------------

#[derive(Debug, Clone, Copy, PartialEq, Eq, Serialize, Deserialize)]
pub enum Flavour {
  /// `Resolver<CoreDocument>` (handlers `Send + Sync`, futures `Send`).
  SendSync,
  /// `SingleThreadedResolver<CoreDocument>`.
  SingleThreaded,
}

#[derive(Debug, Clone, Copy, PartialEq, Eq, Serialize, Deserialize)]
pub enum HandlerKind {
  /// Harness handler taking a `CoreDID` (accepts every DID string).
  Core,
  /// Harness handler taking an `IotaDID` (its DID type rejects everything that is not an IOTA DID).
  Iota,
  /// `attach_did_jwk_handler()` — the library's own did:jwk expansion, always under method `jwk`.
  LibraryJwk,
}

#[derive(Debug, Clone, Serialize, Deserialize)]
pub struct Attach {
  pub method: String,
  /// Identity of the handler (unique inside a table); shows up in the call log and in the documents it returns.
  pub handler: u8,
  pub kind: HandlerKind,
}

/// Handlers are attached in this order; a later attachment for the same method replaces the earlier one.
#[derive(Debug, Clone, Serialize, Deserialize)]
pub struct Table {
  pub attaches: Vec<Attach>,
}

#[derive(Debug, Clone, Serialize, Deserialize)]
pub enum Orders {
  /// Every permutation of the distinct DIDs.
  All,
  /// The listed release orders (indices into the distinct DIDs in first-occurrence order; missing indices are
  /// released afterwards in ascending order).
  Listed(Vec<Vec<u8>>),
}

#[derive(Debug, Clone, Copy, PartialEq, Eq, Serialize, Deserialize)]
pub enum JwkClass {
  /// A well-formed public JWK: must expand.
  Public,
  /// Carries private key material or is a symmetric key: the statement is silent, either outcome is accepted.
  Private,
  /// No JWK can be decoded from the identifier: must fail.
  Undecodable,
}

#[derive(Debug, Clone, Serialize, Deserialize)]
pub enum JwkInput {
  /// JSON text that the harness base64url-encodes into the method-specific identifier.
  Json(String),
  /// Method-specific identifier used verbatim.
  RawId(String),
}

#[derive(Debug, Clone, Serialize, Deserialize)]
pub enum Case {
  /// `resolve(did)`; the handler result is scripted by `fail`; the gate is open before the first poll or opened after it.
  Single {
    flavour: Flavour,
    table: Table,
    did: String,
    fail: bool,
    pre_released: bool,
  },
  /// `resolve_multiple(dids)` under the given release orders; the first `pre` gates of an order are open before the first poll.
  Multi {
    flavour: Flavour,
    table: Table,
    dids: Vec<String>,
    failing: Vec<String>,
    orders: Orders,
    pre: u8,
  },
  /// did:jwk expansion, directly and through both attachable handlers.
  Jwk { input: JwkInput, class: JwkClass },
}

// ---------------------------------------------------------------------------------------------
// Board, gate future, executor
// ---------------------------------------------------------------------------------------------

#[derive(Default)]
struct Board {
  /// Handler calls in the order they happened: (handler id, DID string handed to the handler).
  log: Vec<(u8, String)>,
  released: BTreeSet<String>,
  waiting: Vec<(String, Waker)>,
  /// Scripted handler results by (handler id, DID string).
  answers: BTreeMap<(u8, String), Result<CoreDocument, String>>,
}

type Shared = Arc<Mutex<Board>>;

fn lock(shared: &Shared) -> MutexGuard<'_, Board> {
  shared.lock().unwrap_or_else(|poisoned| poisoned.into_inner())
}

struct Gate {
  shared: Shared,
  handler: u8,
  did: String,
}

type HandlerFailure = Box<dyn std::error::Error + Send + Sync + 'static>;

/// Half of the scripted failures are plain text errors; the other half are errors of the resolver's own error type:
/// what a handler that delegates to an inner `Resolver` without a handler for the method returns.
fn fails_with_resolver_error(did: &str) -> bool {
  did.len() % 2 == 1
}

/// The error an inner resolver without any handler returns for `did`.
fn inner_resolver_error(did: &str) -> Option<identity_resolver::Error> {
  use futures::FutureExt;
  let did = CoreDID::parse(did).ok()?;
  let inner: identity_resolver::Resolver<CoreDocument> = identity_resolver::Resolver::new();
  let result = inner.resolve(&did).now_or_never()?;
  result.err()
}

fn failure_text(handler: u8, did: &str) -> String {
  match inner_resolver_error(did) {
    Some(e) if fails_with_resolver_error(did) => e.to_string(),
    _ => scripted_error(handler, did),
  }
}

impl Future for Gate {
  type Output = Result<CoreDocument, HandlerFailure>;
  fn poll(self: Pin<&mut Self>, cx: &mut Context<'_>) -> Poll<Self::Output> {
    let mut board = lock(&self.shared);
    if board.released.contains(&self.did) {
      let answer = board
        .answers
        .get(&(self.handler, self.did.clone()))
        .cloned()
        .unwrap_or_else(|| Err(format!("unscripted call: handler {} for {}", self.handler, self.did)));
      let answer = answer.map_err(|text| match inner_resolver_error(&self.did) {
        Some(e) if fails_with_resolver_error(&self.did) && text == scripted_error(self.handler, &self.did) => {
          Box::new(e) as HandlerFailure
        }
        _ => HandlerFailure::from(text),
      });
      Poll::Ready(answer)
    } else {
      let entry = (self.did.clone(), cx.waker().clone());
      board.waiting.push(entry);
      Poll::Pending
    }
  }
}

/// The body of every harness handler: log the call, hand out the gate future.
fn handle(shared: &Shared, handler: u8, did: &str) -> Gate {
  lock(shared).log.push((handler, did.to_string()));
  Gate {
    shared: shared.clone(),
    handler,
    did: did.to_string(),
  }
}

fn release(shared: &Shared, did: &str) {
  let wakers: Vec<Waker> = {
    let mut board = lock(shared);
    board.released.insert(did.to_string());
    let (mine, rest): (Vec<_>, Vec<_>) = std::mem::take(&mut board.waiting).into_iter().partition(|(d, _)| d == did);
    board.waiting = rest;
    mine.into_iter().map(|(_, w)| w).collect()
  };
  for w in wakers {
    w.wake();
  }
}

struct WakeFlag(AtomicBool);

impl ArcWake for WakeFlag {
  fn wake_by_ref(arc_self: &Arc<Self>) {
    arc_self.0.store(true, Ordering::SeqCst);
  }
}

const MAX_POLLS: usize = 10_000;

/// Poll until the future is ready or it is pending without having asked to be polled again.
/// `Err` = it kept waking itself for `MAX_POLLS` polls.
fn poll_until_stalled<T>(fut: &mut Pin<Box<dyn Future<Output = T> + '_>>, flag: &Arc<WakeFlag>) -> Result<Option<T>, ()> {
  let waker = futures::task::waker(flag.clone());
  let mut cx = Context::from_waker(&waker);
  for _ in 0..MAX_POLLS {
    flag.0.store(false, Ordering::SeqCst);
    match fut.as_mut().poll(&mut cx) {
      Poll::Ready(v) => return Ok(Some(v)),
      Poll::Pending => {
        if !flag.0.load(Ordering::SeqCst) {
          return Ok(None);
        }
      }
    }
  }
  Err(())
}

// ---------------------------------------------------------------------------------------------
// The two resolver flavours behind one harness trait (the library's `Command` trait is not nameable)
// ---------------------------------------------------------------------------------------------

type ResolveResult = identity_resolver::Result<CoreDocument>;
type MultiResult = identity_resolver::Result<HashMap<CoreDID, CoreDocument>>;

trait Engine: Sized {
  fn build(table: &Table, shared: &Shared) -> Self;
  fn resolve_boxed<'a>(&'a self, did: &'a CoreDID) -> Pin<Box<dyn Future<Output = ResolveResult> + 'a>>;
  fn resolve_multiple_boxed<'a>(&'a self, dids: &'a [CoreDID]) -> Pin<Box<dyn Future<Output = MultiResult> + 'a>>;
}

macro_rules! impl_engine {
  ($resolver:ty) => {
    impl Engine for $resolver {
      fn build(table: &Table, shared: &Shared) -> Self {
        let mut resolver = <$resolver>::new();
        for attach in &table.attaches {
          let board = shared.clone();
          let id = attach.handler;
          match attach.kind {
            HandlerKind::Core => {
              resolver.attach_handler(attach.method.clone(), move |did: CoreDID| handle(&board, id, did.as_str()))
            }
            HandlerKind::Iota => {
              resolver.attach_handler(attach.method.clone(), move |did: IotaDID| handle(&board, id, did.as_str()))
            }
            HandlerKind::LibraryJwk => resolver.attach_did_jwk_handler(),
          }
        }
        resolver
      }
      fn resolve_boxed<'a>(&'a self, did: &'a CoreDID) -> Pin<Box<dyn Future<Output = ResolveResult> + 'a>> {
        Box::pin(self.resolve(did))
      }
      fn resolve_multiple_boxed<'a>(&'a self, dids: &'a [CoreDID]) -> Pin<Box<dyn Future<Output = MultiResult> + 'a>> {
        Box::pin(self.resolve_multiple(dids))
      }
    }
  };
}

impl_engine!(Resolver<CoreDocument>);
impl_engine!(SingleThreadedResolver<CoreDocument>);

// ---------------------------------------------------------------------------------------------
// Model
// ---------------------------------------------------------------------------------------------

/// Method name of a DID string (`did:<method>:…`), read by the harness.
fn method_of(did: &str) -> &str {
  did.split(':').nth(1).unwrap_or("")
}

/// did:jwk identifiers used inside handler tables, with what they encode (`None` = nothing decodable).
fn jwk_pool() -> Vec<(String, Option<Value>)> {
  let okp = json!({"kty": "OKP", "crv": "Ed25519", "x": "11qYAYKxCrfVS_7TyWQHOg7hcvPapiMlrwIaaPcHURo"});
  let ec = json!({"crv": "P-256", "kty": "EC", "x": "acbIQiuMs3i8_uszEjJ2tpTtRM4EU3yz91PH6CdH2V0", "y": "_KcyLj9vWMptnmKtm46GqDz8wf74I5LKgrl2GzH3nSE", "use": "sig"});
  vec![
    (format!("did:jwk:{}", b64url(okp.to_string().as_bytes())), Some(okp)),
    (format!("did:jwk:{}", b64url(ec.to_string().as_bytes())), Some(ec)),
    ("did:jwk:e30".to_string(), None), // base64url of `{}`
  ]
}

#[derive(Debug, Clone, PartialEq)]
enum Expect {
  /// No handler for the method: unsupported-method error, no call.
  Unsupported,
  /// The effective handler's DID type cannot represent the DID: an error, no call.
  Rejected,
  /// Harness handler `handler` is called once with the DID and its scripted result is returned.
  Harness { handler: u8, fail: bool },
  /// Library did:jwk handler: expansion of the encoded key, or an error when nothing is decodable.
  LibraryJwk { jwk: Option<Value> },
}

impl Expect {
  fn is_ok(&self) -> bool {
    matches!(self, Expect::Harness { fail: false, .. } | Expect::LibraryJwk { jwk: Some(_) })
  }
}

fn expectation(table: &Table, did: &str, fail: bool) -> Expect {
  let method = method_of(did);
  match table.attaches.iter().rev().find(|a| a.method == method) {
    None => Expect::Unsupported,
    Some(a) => match a.kind {
      HandlerKind::Core => Expect::Harness { handler: a.handler, fail },
      HandlerKind::Iota if is_normal_iota_did(did) => Expect::Harness { handler: a.handler, fail },
      HandlerKind::Iota => Expect::Rejected,
      HandlerKind::LibraryJwk => Expect::LibraryJwk {
        jwk: jwk_pool().into_iter().find(|(d, _)| d == did).and_then(|(_, j)| j),
      },
    },
  }
}

fn scripted_error(handler: u8, did: &str) -> String {
  format!("scripted failure of handler {handler} for {did}")
}

/// The document harness handler `handler` returns for `did` (rendered by the harness, read through `from_json`).
fn handler_document(handler: u8, did: &str) -> Result<CoreDocument, String> {
  CoreDocument::from_json(&json!({"id": did, "alsoKnownAs": [format!("https://handler.example/{handler}")], "resolvedBy": handler}).to_string())
    .map_err(|e| e.to_string())
}

/// Fill the board with the scripted answers of every effective (handler, DID) pair.
fn script(shared: &Shared, table: &Table, dids: &[String], failing: &[String]) -> CheckResult {
  for did in dids {
    if let Expect::Harness { handler, fail } = expectation(table, did, failing.contains(did)) {
      let answer = if fail {
        Err(scripted_error(handler, did))
      } else {
        Ok(fixture!(handler_document(handler, did), "handler document"))
      };
      lock(shared).answers.insert((handler, did.clone()), answer);
    }
  }
  Ok(())
}

/// The expanded did:jwk document must be about `did` and carry exactly `jwk` in its single method.
fn check_jwk_document(doc: &CoreDocument, did: &str, jwk: &Value, via: &str, obs: &mut Obs) -> CheckResult {
  let j = fixture!(doc.to_json_value(), "CoreDocument::to_json_value");
  vensure!(obs, j["id"] == json!(did), "jwk-document-id", "{via}: document id {} is not the DID {did}", j["id"]);
  let methods = j["verificationMethod"].as_array().cloned().unwrap_or_default();
  let embedded = ["authentication", "assertionMethod", "keyAgreement", "capabilityDelegation", "capabilityInvocation"]
    .iter()
    .flat_map(|r| j[*r].as_array().cloned().unwrap_or_default())
    .filter(|e| !e.is_string())
    .count();
  vensure!(
    obs,
    methods.len() == 1 && embedded == 0,
    "jwk-document-method-count",
    "{via}: {} verification methods and {embedded} embedded methods, expected exactly one method: {j}",
    methods.len()
  );
  let method = &methods[0];
  vensure!(
    obs,
    method["publicKeyJwk"] == *jwk,
    "jwk-document-key-differs",
    "{via}: method carries {} but the DID encodes {jwk}",
    method["publicKeyJwk"]
  );
  let method_id = method["id"].as_str().unwrap_or("");
  vensure!(
    obs,
    method_id.strip_prefix(did).is_some_and(|rest| rest.starts_with('#') && rest.len() > 1),
    "jwk-document-method-id",
    "{via}: method id {method_id:?} is not a fragment of the DID {did}"
  );
  for rel in ["authentication", "assertionMethod", "keyAgreement", "capabilityDelegation", "capabilityInvocation"] {
    for entry in j[rel].as_array().cloned().unwrap_or_default() {
      vensure!(
        obs,
        entry.as_str() == Some(method_id),
        "jwk-document-relationship",
        "{via}: {rel} entry {entry} does not reference the method {method_id}"
      );
    }
  }
  Ok(())
}

/// Compare one resolution result with the expectation for that DID.
fn check_single_result(
  expect: &Expect,
  did: &str,
  result: &ResolveResult,
  via: &str,
  obs: &mut Obs,
) -> CheckResult {
  match expect {
    Expect::Unsupported => match result {
      Err(e) => match e.error_cause() {
        ErrorCause::UnsupportedMethodError { method } => vensure!(
          obs,
          method == method_of(did),
          "unsupported-method-error-names-other-method",
          "{via}: error names method {method:?} for {did}"
        ),
        other => vfail!(obs, "unsupported-method-wrong-error", "{via}: {did} has no handler but the error is {other:?}"),
      },
      Ok(_) => vfail!(obs, "unsupported-method-resolved", "{via}: {did} has no handler but a document came back"),
    },
    Expect::Rejected => vensure!(
      obs,
      result.is_err(),
      "unrepresentable-did-resolved",
      "{via}: the handler's DID type cannot represent {did} but a document came back"
    ),
    Expect::Harness { handler, fail: false } => {
      let want = fixture!(handler_document(*handler, did), "handler document");
      match result {
        Ok(doc) => vensure!(
          obs,
          *doc == want,
          "result-is-not-the-handlers",
          "{via}: {did} resolved to {doc} instead of handler {handler}'s document"
        ),
        Err(e) => vfail!(obs, "handler-success-turned-into-error", "{via}: handler {handler} succeeded for {did} but resolution failed: {e:?}"),
      }
    }
    Expect::Harness { handler, fail: true } => match result {
      Ok(doc) => vfail!(obs, "handler-error-ignored", "{via}: handler {handler} failed for {did} but {doc} came back"),
      Err(e) => match e.error_cause() {
        ErrorCause::HandlerError { source, .. } => {
          obs.label(if failure_text(*handler, did) == scripted_error(*handler, did) {
            "handler-fails:text-error"
          } else {
            "handler-fails:resolver-error"
          });
          vensure!(
            obs,
            source.to_string() == failure_text(*handler, did),
            "result-is-not-the-handlers",
            "{via}: handler error for {did} carries {:?}, scripted was {:?}",
            source.to_string(),
            failure_text(*handler, did)
          )
        }
        other => vfail!(obs, "handler-error-wrong-cause", "{via}: handler {handler} failed for {did} but the cause is {other:?}"),
      },
    },
    Expect::LibraryJwk { jwk: Some(jwk) } => match result {
      Ok(doc) => check_jwk_document(doc, did, jwk, via, obs)?,
      Err(e) => vfail!(obs, "jwk-public-key-rejected", "{via}: {did} encodes the public key {jwk} but resolution failed: {e:?}"),
    },
    Expect::LibraryJwk { jwk: None } => vensure!(
      obs,
      result.is_err(),
      "jwk-undecodable-resolved",
      "{via}: nothing can be decoded from {did} but a document came back"
    ),
  }
  Ok(())
}

/// Every logged call must be a call of the effective handler of an input DID, with that DID.
fn check_log(table: &Table, inputs: &[String], failing: &[String], log: &[(u8, String)], via: &str, obs: &mut Obs) -> CheckResult {
  for (handler, did) in log {
    let legitimate = inputs.contains(did)
      && matches!(expectation(table, did, failing.contains(did)), Expect::Harness { handler: h, .. } if h == *handler);
    vensure!(
      obs,
      legitimate,
      "handler-call-mismatch",
      "{via}: handler {handler} was called with {did}; inputs {inputs:?}, table {:?}",
      table.attaches
    );
  }
  Ok(())
}

// ---------------------------------------------------------------------------------------------
// Checks
// ---------------------------------------------------------------------------------------------

fn parse_dids(dids: &[String]) -> Result<Vec<CoreDID>, Viol> {
  let mut out = Vec::with_capacity(dids.len());
  for d in dids {
    let did = fixture!(CoreDID::parse(d), "CoreDID::parse of a generated DID");
    if did.as_str() != d {
      return Err(Viol::fixture(format!("CoreDID::parse changed the generated DID {d} into {did}")));
    }
    out.push(did);
  }
  Ok(out)
}

fn run_single<E: Engine>(table: &Table, did: &str, fail: bool, pre_released: bool, obs: &mut Obs) -> CheckResult {
  let shared: Shared = Shared::default();
  let failing: Vec<String> = if fail { vec![did.to_string()] } else { vec![] };
  let inputs = vec![did.to_string()];
  script(&shared, table, &inputs, &failing)?;
  let expect = expectation(table, did, fail);
  obs.label(match &expect {
    Expect::Unsupported => "single:unsupported",
    Expect::Rejected => "single:did-type-rejects",
    Expect::Harness { fail: false, .. } => "single:handler-ok",
    Expect::Harness { fail: true, .. } => "single:handler-fails",
    Expect::LibraryJwk { jwk: Some(_) } => "single:jwk-ok",
    Expect::LibraryJwk { jwk: None } => "single:jwk-undecodable",
  });
  if table.attaches.iter().filter(|a| a.method == method_of(did)).count() > 1 {
    obs.label("single:handler-was-replaced");
  }
  let parsed = parse_dids(&inputs)?;
  let resolver = E::build(table, &shared);
  let flag = Arc::new(WakeFlag(AtomicBool::new(false)));
  if pre_released {
    release(&shared, did);
  }
  let mut fut = resolver.resolve_boxed(&parsed[0]);
  let mut outcome = match poll_until_stalled(&mut fut, &flag) {
    Ok(o) => o,
    Err(()) => return obs.fail("resolve-spins", format!("resolve({did}) kept waking itself for {MAX_POLLS} polls")),
  };
  if outcome.is_none() {
    // the handler has been called and waits for its gate
    obs.label("single:pending-until-released");
    release(&shared, did);
    outcome = match poll_until_stalled(&mut fut, &flag) {
      Ok(o) => o,
      Err(()) => return obs.fail("resolve-spins", format!("resolve({did}) kept waking itself for {MAX_POLLS} polls")),
    };
  }
  let Some(result) = outcome else {
    return obs.fail("resolve-never-completes", format!("resolve({did}) is still pending after its handler completed"));
  };
  drop(fut);
  check_single_result(&expect, did, &result, "resolve", obs)?;
  let log = lock(&shared).log.clone();
  check_log(table, &inputs, &failing, &log, "resolve", obs)?;
  let wanted_calls = usize::from(matches!(expect, Expect::Harness { .. }));
  vensure!(
    obs,
    log.len() == wanted_calls,
    "single-call-count",
    "resolve({did}) made {} handler calls {log:?}, expected {wanted_calls}",
    log.len()
  );
  Ok(())
}

fn distinct_in_order(dids: &[String]) -> Vec<String> {
  let mut out: Vec<String> = Vec::new();
  for d in dids {
    if !out.contains(d) {
      out.push(d.clone());
    }
  }
  out
}

/// Complete a (possibly partial, possibly repeating) order to a permutation of `0..n`.
fn complete_order(order: &[u8], n: usize) -> Vec<usize> {
  let mut out: Vec<usize> = Vec::with_capacity(n);
  for i in order.iter().map(|i| *i as usize).chain(0..n) {
    if i < n && !out.contains(&i) {
      out.push(i);
    }
  }
  out
}

fn permutations(n: usize) -> Vec<Vec<usize>> {
  fn go(prefix: &mut Vec<usize>, n: usize, out: &mut Vec<Vec<usize>>) {
    if prefix.len() == n {
      out.push(prefix.clone());
      return;
    }
    for i in 0..n {
      if !prefix.contains(&i) {
        prefix.push(i);
        go(prefix, n, out);
        prefix.pop();
      }
    }
  }
  let mut out = Vec::new();
  go(&mut Vec::new(), n, &mut out);
  out
}

/// One `resolve_multiple` run under one release order.
#[allow(clippy::too_many_arguments)]
fn run_multi_once<E: Engine>(
  table: &Table,
  dids: &[String],
  parsed: &[CoreDID],
  distinct: &[String],
  failing: &[String],
  order: &[usize],
  pre: usize,
  obs: &mut Obs,
) -> CheckResult {
  let via = format!("resolve_multiple[order {order:?}, {pre} open before the first poll]");
  let shared: Shared = Shared::default();
  script(&shared, table, distinct, failing)?;
  let resolver = E::build(table, &shared);
  let flag = Arc::new(WakeFlag(AtomicBool::new(false)));
  let spins = |obs: &mut Obs| obs.fail("resolve-multiple-spins", format!("{via}: kept waking itself for {MAX_POLLS} polls"));

  for i in order.iter().take(pre) {
    release(&shared, &distinct[*i]);
  }
  let mut fut = resolver.resolve_multiple_boxed(parsed);
  let mut outcome = match poll_until_stalled(&mut fut, &flag) {
    Ok(o) => o,
    Err(()) => return spins(obs),
  };
  if outcome.is_none() {
    obs.label("multi:pending-after-first-poll");
  }
  let mut releases_while_pending = 0;
  for i in order.iter().skip(pre) {
    if outcome.is_some() {
      break;
    }
    releases_while_pending += 1;
    release(&shared, &distinct[*i]);
    outcome = match poll_until_stalled(&mut fut, &flag) {
      Ok(o) => o,
      Err(()) => return spins(obs),
    };
  }
  if releases_while_pending >= 3 {
    obs.label("multi:three-or-more-releases-while-pending");
  }
  let Some(result) = outcome else {
    return obs.fail(
      "resolve-multiple-never-completes",
      format!("{via}: still pending after every handler completed; inputs {dids:?}"),
    );
  };
  drop(fut);

  let log = lock(&shared).log.clone();
  check_log(table, distinct, failing, &log, &via, obs)?;
  let expectations: Vec<Expect> = distinct.iter().map(|d| expectation(table, d, failing.contains(d))).collect();
  if let Some(bad) = expectations.iter().position(|e| !e.is_ok()) {
    vensure!(
      obs,
      result.is_err(),
      "resolve-multiple-ignores-failure",
      "{via}: resolution of {} fails ({:?}) but resolve_multiple returned {} documents",
      distinct[bad],
      expectations[bad],
      result.as_ref().map(|m| m.len()).unwrap_or(0)
    );
    return Ok(());
  }
  let map = match result {
    Ok(m) => m,
    Err(e) => {
      return obs.fail(
        "resolve-multiple-fails-without-failure",
        format!("{via}: every single resolution succeeds but resolve_multiple failed: {e:?}; inputs {dids:?}"),
      )
    }
  };
  let keys: BTreeSet<String> = map.keys().map(|k| k.as_str().to_string()).collect();
  let wanted: BTreeSet<String> = distinct.iter().cloned().collect();
  vensure!(
    obs,
    keys == wanted && map.len() == distinct.len(),
    "resolve-multiple-key-set",
    "{via}: result has entries for {keys:?} ({} entries), inputs are {wanted:?}",
    map.len()
  );
  for ((did, parsed_did), expect) in distinct.iter().zip(distinct_parsed(parsed)).zip(&expectations) {
    let Some(doc) = map.get(&parsed_did) else {
      continue;
    };
    check_single_result(expect, did, &Ok(doc.clone()), &via, obs)?;
    if matches!(expect, Expect::Harness { .. }) {
      let calls = log.iter().filter(|(_, d)| d == did).count();
      vensure!(obs, calls >= 1, "resolve-multiple-handler-not-called", "{via}: {did} has an entry but its handler was never called");
      if calls > 1 {
        obs.label("multi:handler-called-more-than-once");
      }
    }
  }
  Ok(())
}

fn distinct_parsed(parsed: &[CoreDID]) -> Vec<CoreDID> {
  let mut out: Vec<CoreDID> = Vec::new();
  for d in parsed {
    if !out.contains(d) {
      out.push(d.clone());
    }
  }
  out
}

fn run_multi<E: Engine>(
  table: &Table,
  dids: &[String],
  failing: &[String],
  orders: &Orders,
  pre: u8,
  obs: &mut Obs,
) -> CheckResult {
  let parsed = parse_dids(dids)?;
  let distinct = distinct_in_order(dids);
  let n = distinct.len();
  let methods: BTreeSet<&str> = distinct.iter().map(|d| method_of(d)).collect();
  let expectations: Vec<Expect> = distinct.iter().map(|d| expectation(table, d, failing.contains(d))).collect();
  let gated = expectations.iter().filter(|e| matches!(e, Expect::Harness { .. })).count();
  obs.label(format!("multi:distinct-{}", n.min(6)));
  if dids.len() > n {
    obs.label("multi:duplicates");
  }
  obs.label(if expectations.iter().all(Expect::is_ok) { "multi:all-succeed" } else { "multi:some-fail" });
  for e in &expectations {
    match e {
      Expect::Unsupported => obs.label("multi:has-unsupported"),
      Expect::Rejected => obs.label("multi:has-did-type-reject"),
      Expect::Harness { fail: true, .. } => obs.label("multi:has-scripted-failure"),
      Expect::LibraryJwk { .. } => obs.label("multi:has-jwk"),
      _ => {}
    }
  }
  let runs: Vec<(Vec<usize>, usize)> = match orders {
    Orders::All => {
      obs.label("multi:all-orders");
      let mut runs = Vec::new();
      for p in permutations(n) {
        runs.push((p.clone(), 0));
        if pre as usize % (n + 1) != 0 {
          runs.push((p, pre as usize % (n + 1)));
        }
      }
      runs
    }
    Orders::Listed(list) => list.iter().map(|o| (complete_order(o, n), (pre as usize).min(n))).collect(),
  };
  let identity: Vec<usize> = (0..n).collect();
  if n >= 3 && methods.len() >= 2 && gated >= 2 && runs.iter().any(|(o, _)| *o != identity) {
    obs.nontrivial();
  }
  for (order, pre) in &runs {
    run_multi_once::<E>(table, dids, &parsed, &distinct, failing, order, *pre, obs)?;
  }
  // "each equal to what single resolution returns": single resolution obeys the same expectations
  // (run_single compares it with them), here for every distinct input of this table.
  for d in &distinct {
    run_single::<E>(table, d, failing.contains(d), true, obs)?;
  }
  Ok(())
}

fn check_jwk(input: &JwkInput, class: JwkClass, obs: &mut Obs) -> CheckResult {
  let id = match input {
    JwkInput::Json(text) => b64url(text.as_bytes()),
    JwkInput::RawId(id) => id.clone(),
  };
  let did_string = format!("did:jwk:{id}");
  let core = match CoreDID::parse(&did_string) {
    Ok(d) if d.as_str() == did_string => d,
    _ => {
      obs.discard("not-a-did");
      return Ok(());
    }
  };
  obs.nontrivial();
  let encoded: Option<Value> = match input {
    JwkInput::Json(text) => serde_json::from_str(text).ok(),
    JwkInput::RawId(_) => None,
  };
  if class == JwkClass::Public && encoded.is_none() {
    return Err(Viol::fixture("a Public did:jwk case must carry JSON text".to_string()));
  }

  // route 1: DIDJwk::parse + CoreDocument::expand_did_jwk
  let direct: Result<CoreDocument, String> = match catch(|| DIDJwk::parse(&did_string)) {
    Err(p) => return obs.fail("did-jwk-parse-panics", format!("DIDJwk::parse({did_string}) panicked: {}", p.msg)),
    Ok(Err(e)) => Err(format!("parse: {e}")),
    Ok(Ok(did_jwk)) => match catch(|| CoreDocument::expand_did_jwk(did_jwk)) {
      Err(p) => return obs.fail("expand-did-jwk-panics", format!("expand_did_jwk({did_string}) panicked: {}", p.msg)),
      Ok(r) => r.map_err(|e| format!("expand: {e}")),
    },
  };
  // routes 2 and 3: the attachable handler of both resolver flavours
  let table = Table {
    attaches: vec![Attach { method: "jwk".into(), handler: 0, kind: HandlerKind::LibraryJwk }],
  };
  let shared = Shared::default();
  let flag = Arc::new(WakeFlag(AtomicBool::new(false)));
  let mut routes: Vec<(&str, Result<CoreDocument, String>)> = vec![("expand_did_jwk", direct)];
  {
    let resolver = <Resolver<CoreDocument> as Engine>::build(&table, &shared);
    let mut fut = resolver.resolve_boxed(&core);
    match poll_until_stalled(&mut fut, &flag) {
      Ok(Some(r)) => routes.push(("Resolver::resolve", r.map_err(|e| format!("{e:?}")))),
      _ => return obs.fail("resolve-never-completes", format!("resolve({did_string}) through the did:jwk handler did not complete")),
    }
  }
  {
    let resolver = <SingleThreadedResolver<CoreDocument> as Engine>::build(&table, &shared);
    let mut fut = resolver.resolve_boxed(&core);
    match poll_until_stalled(&mut fut, &flag) {
      Ok(Some(r)) => routes.push(("SingleThreadedResolver::resolve", r.map_err(|e| format!("{e:?}")))),
      _ => return obs.fail("resolve-never-completes", format!("resolve({did_string}) through the did:jwk handler did not complete")),
    }
  }
  for (via, result) in &routes {
    match (class, result) {
      (JwkClass::Public, Ok(doc)) => {
        obs.label("jwk:public-expanded");
        let jwk = encoded.clone().unwrap_or(Value::Null);
        check_jwk_document(doc, &did_string, &jwk, via, obs)?;
      }
      (JwkClass::Public, Err(e)) => {
        // "generated public JWKs" are the ones the library itself reads as public keys: a JWK text its own `Jwk`
        // type refuses (stricter validation of key material or of member combinations) is not one
        let library_reads_it = encoded
          .clone()
          .and_then(|j| identity_verification::jwk::Jwk::from_json_value(j).ok())
          .is_some_and(|k| k.is_public());
        if library_reads_it {
          vfail!(obs, "jwk-public-key-rejected", "{via}: {did_string} encodes a public JWK but fails: {e}")
        } else {
          obs.label("jwk:public-shaped-json-not-a-library-jwk")
        }
      }
      (JwkClass::Undecodable, Ok(doc)) => vfail!(obs, "jwk-undecodable-resolved", "{via}: nothing decodable in {did_string} but got {doc}"),
      (JwkClass::Undecodable, Err(_)) => obs.label("jwk:undecodable-rejected"),
      (JwkClass::Private, Ok(_)) => obs.label("jwk:private-accepted"),
      (JwkClass::Private, Err(_)) => obs.label("jwk:private-rejected"),
    }
  }
  // the three routes must agree with each other
  let first_ok = routes[0].1.is_ok();
  for (via, r) in &routes[1..] {
    vensure!(
      obs,
      r.is_ok() == first_ok && (!first_ok || r.as_ref().ok() == routes[0].1.as_ref().ok()),
      "jwk-routes-disagree",
      "{via} and expand_did_jwk disagree for {did_string}: {:?} vs {:?}",
      r.as_ref().map(|d| d.to_string()),
      routes[0].1.as_ref().map(|d| d.to_string())
    );
  }
  Ok(())
}

pub fn check(case: &Case, obs: &mut Obs) -> CheckResult {
  match case {
    Case::Single { flavour, table, did, fail, pre_released } => {
      obs.nontrivial();
      match flavour {
        Flavour::SendSync => run_single::<Resolver<CoreDocument>>(table, did, *fail, *pre_released, obs),
        Flavour::SingleThreaded => run_single::<SingleThreadedResolver<CoreDocument>>(table, did, *fail, *pre_released, obs),
      }
    }
    Case::Multi { flavour, table, dids, failing, orders, pre } => match flavour {
      Flavour::SendSync => run_multi::<Resolver<CoreDocument>>(table, dids, failing, orders, *pre, obs),
      Flavour::SingleThreaded => run_multi::<SingleThreadedResolver<CoreDocument>>(table, dids, failing, orders, *pre, obs),
    },
    Case::Jwk { input, class } => check_jwk(input, *class, obs),
  }
}

// ---------------------------------------------------------------------------------------------
// Enumerators and generators
// ---------------------------------------------------------------------------------------------

const IOTA_A: &str = "did:iota:0x8036235b6b5939435a45d68bcea7890eef399209a669c8c263fac7f5089b2ec6";
const IOTA_B: &str = "did:iota:smr:0x71b709dff439f1ac9dd2b9c2e28db0807156b378e13bfa3605ce665aa0d0fdca";
const IOTA_BAD: &str = "did:iota:nope";

fn core(method: &str, handler: u8) -> Attach {
  Attach { method: method.into(), handler, kind: HandlerKind::Core }
}

/// m1 → handler 1 (after replacing handler 9), m2 → 2, m3 → 3.
fn three_method_table() -> Table {
  Table { attaches: vec![core("m1", 9), core("m2", 2), core("m1", 1), core("m3", 3)] }
}

/// All release orders × every number of gates open before the first poll × {no failure, each single failure}
/// × {no duplicates, duplicates} × both flavours, for n = 0..=max_n distinct DIDs spread over three methods.
fn order_space(max_n: usize) -> impl Iterator<Item = Case> {
  let mut cases = Vec::new();
  for flavour in [Flavour::SendSync, Flavour::SingleThreaded] {
    for n in 0..=max_n {
      let distinct: Vec<String> = (0..n).map(|i| format!("did:m{}:id{i}", i % 3 + 1)).collect();
      for fail in std::iter::once(None).chain((0..n).map(Some)) {
        for duplicates in [false, true] {
          let mut dids = distinct.clone();
          if duplicates {
            // repeat the first and the last entry
            dids.extend(distinct.first().cloned());
            dids.extend(distinct.last().cloned());
            dids.reverse();
          }
          for order in permutations(n) {
            for pre in 0..=n {
              cases.push(Case::Multi {
                flavour,
                table: three_method_table(),
                dids: dids.clone(),
                failing: fail.map(|i| vec![distinct[i].clone()]).unwrap_or_default(),
                orders: Orders::Listed(vec![order.iter().map(|i| *i as u8).collect()]),
                pre: pre as u8,
              });
            }
          }
        }
      }
    }
  }
  cases.into_iter()
}

fn mixed_table() -> Table {
  Table {
    attaches: vec![
      core("m1", 1),
      core("m2", 2),
      Attach { method: "iota".into(), handler: 3, kind: HandlerKind::Iota },
      Attach { method: "jwk".into(), handler: 4, kind: HandlerKind::LibraryJwk },
      core("m2", 5),
      Attach { method: "m4".into(), handler: 6, kind: HandlerKind::Iota },
    ],
  }
}

fn did_pool() -> Vec<String> {
  let mut pool: Vec<String> = Vec::new();
  // `m`, `m10`, `1m` have no handler in any table: prefixes, extensions and rearrangements of registered names; ids
  // that contain a registered method name as a segment
  for m in ["m1", "m2", "m3", "m4", "zz", "m", "m10", "1m"] {
    for id in ["a", "b", "c:d", "m1:a", "m2"] {
      pool.push(format!("did:{m}:{id}"));
    }
  }
  pool.extend([IOTA_A.to_string(), IOTA_B.to_string(), IOTA_BAD.to_string()]);
  pool.extend(jwk_pool().into_iter().map(|(d, _)| d));
  pool
}

fn single_grid() -> impl Iterator<Item = Case> {
  let mut cases = Vec::new();
  for flavour in [Flavour::SendSync, Flavour::SingleThreaded] {
    for table in [mixed_table(), three_method_table(), Table { attaches: vec![] }] {
      for did in did_pool() {
        for fail in [false, true] {
          for pre_released in [false, true] {
            cases.push(Case::Single { flavour, table: table.clone(), did: did.clone(), fail, pre_released });
          }
        }
      }
    }
  }
  cases.into_iter()
}

fn flavour_strategy() -> impl Strategy<Value = Flavour> {
  prop_oneof![Just(Flavour::SendSync), Just(Flavour::SingleThreaded)]
}

fn table_strategy(min: usize) -> impl Strategy<Value = Table> {
  prop::collection::vec(
    (prop::sample::select(vec!["m1", "m2", "m3", "m4", "iota", "jwk"]), prop_oneof![7 => Just(HandlerKind::Core), 2 => Just(HandlerKind::Iota), 2 => Just(HandlerKind::LibraryJwk)]),
    min..7,
  )
  .prop_map(|entries| Table {
    attaches: entries
      .into_iter()
      .enumerate()
      .map(|(i, (method, kind))| Attach {
        method: if kind == HandlerKind::LibraryJwk { "jwk".to_string() } else { method.to_string() },
        handler: i as u8 + 1,
        kind,
      })
      .collect(),
  })
}

fn single_strategy() -> impl Strategy<Value = Case> {
  (flavour_strategy(), table_strategy(0), any::<prop::sample::Index>(), prop::bool::weighted(0.7), any::<bool>(), any::<bool>()).prop_map(
    |(flavour, table, pick, prefer_supported, fail, pre_released)| {
      let pool = did_pool();
      // most of the time pick a DID whose method has a handler (otherwise unsupported methods dominate)
      let supported: Vec<&String> = pool.iter().filter(|d| expectation(&table, d, false) != Expect::Unsupported).collect();
      let did = if prefer_supported && !supported.is_empty() {
        supported[pick.index(supported.len())].clone()
      } else {
        pool[pick.index(pool.len())].clone()
      };
      Case::Single { flavour, table, did, fail, pre_released }
    },
  )
}

/// Lists that mostly succeed: DIDs are drawn from the methods the table supports (so that long lists do not
/// almost always contain an unsupported method), with a controlled share of unsupported / failing entries.
fn multi_strategy(max_all: usize) -> impl Strategy<Value = Case> {
  (
    flavour_strategy(),
    prop_oneof![1 => table_strategy(0), 12 => table_strategy(2)],
    prop::collection::vec(any::<prop::sample::Index>(), 0..=8),
    prop::bool::weighted(0.2),
    prop::collection::vec(any::<prop::sample::Index>(), 0..3),
    prop::bool::weighted(0.3),
    prop::collection::vec(prop::collection::vec(0u8..8, 0..8), 1..6),
    0u8..8,
  )
    .prop_map(move |(flavour, table, picks, allow_bad, fail_picks, any_fail, listed, pre)| {
      let pool = did_pool();
      let good: Vec<String> = pool
        .iter()
        .filter(|d| allow_bad || expectation(&table, d, false).is_ok())
        .cloned()
        .collect();
      let dids: Vec<String> = if good.is_empty() { vec![] } else { picks.iter().map(|i| good[i.index(good.len())].clone()).collect() };
      let distinct = distinct_in_order(&dids);
      let failing: Vec<String> = if any_fail && !distinct.is_empty() {
        distinct_in_order(&fail_picks.iter().map(|i| distinct[i.index(distinct.len())].clone()).collect::<Vec<_>>())
      } else {
        vec![]
      };
      let orders = if distinct.len() <= max_all { Orders::All } else { Orders::Listed(listed) };
      Case::Multi { flavour, table, dids, failing, orders, pre }
    })
}

fn b64_bytes(n: usize) -> impl Strategy<Value = String> {
  prop::collection::vec(any::<u8>(), n).prop_map(|b| b64url(&b))
}

/// Members of a public JWK as (name, value) pairs, before optional members and member order are chosen.
fn public_params() -> impl Strategy<Value = Vec<(String, Value)>> {
  let kv = |k: &str, v: Value| (k.to_string(), v);
  prop_oneof![
    (prop::sample::select(vec!["Ed25519", "X25519"]), b64_bytes(32))
      .prop_map(move |(crv, x)| vec![kv("kty", json!("OKP")), kv("crv", json!(crv)), kv("x", json!(x))]),
    (prop::sample::select(vec![("P-256", 32usize), ("secp256k1", 32), ("P-384", 48), ("P-521", 66)]))
      .prop_flat_map(|(crv, n)| (Just(crv), b64_bytes(n), b64_bytes(n)))
      .prop_map(move |(crv, x, y)| vec![kv("kty", json!("EC")), kv("crv", json!(crv)), kv("x", json!(x)), kv("y", json!(y))]),
    (prop::sample::select(vec![128usize, 256, 384]), prop::sample::select(vec!["AQAB", "Aw"]))
      .prop_flat_map(|(n, e)| (b64_bytes(n), Just(e)))
      .prop_map(move |(n, e)| vec![kv("kty", json!("RSA")), kv("n", json!(n)), kv("e", json!(e))]),
  ]
}

fn optional_members() -> impl Strategy<Value = Vec<(String, Value)>> {
  let kv = |k: &str, v: Value| (k.to_string(), v);
  (
    prop::option::of(prop::sample::select(vec!["sig", "enc"])),
    prop::option::of(prop::sample::subsequence(vec!["sign", "verify", "encrypt", "decrypt", "wrapKey", "unwrapKey", "deriveKey", "deriveBits"], 0..4)),
    prop::option::of(prop::sample::select(vec!["EdDSA", "ES256", "ES256K", "RS256", "ECDH-ES", "custom alg"])),
    prop::option::of(prop::sample::select(vec!["key-1", "", "#0", "üñí", "did:example:1#k"])),
    prop::option::of(Just("https://example.com/cert.pem")),
    prop::option::of(prop::collection::vec(Just("MIIBszCCAVmgAwIBAgIUdF8="), 1..3)),
    prop::option::of(b64_bytes(20)),
    prop::option::of(b64_bytes(32)),
  )
    .prop_map(move |(use_, ops, alg, kid, x5u, x5c, x5t, x5t256)| {
      let mut out = Vec::new();
      if let Some(v) = use_ {
        out.push(kv("use", json!(v)));
      }
      if let Some(v) = ops {
        out.push(kv("key_ops", json!(v)));
      }
      if let Some(v) = alg {
        out.push(kv("alg", json!(v)));
      }
      if let Some(v) = kid {
        out.push(kv("kid", json!(v)));
      }
      if let Some(v) = x5u {
        out.push(kv("x5u", json!(v)));
      }
      if let Some(v) = x5c {
        out.push(kv("x5c", json!(v)));
      }
      if let Some(v) = x5t {
        out.push(kv("x5t", json!(v)));
      }
      if let Some(v) = x5t256 {
        out.push(kv("x5t#S256", json!(v)));
      }
      out
    })
}

/// Render members in a generated order, optionally with insignificant whitespace.
fn render_object(members: &[(String, Value)], rotate: usize, spaced: bool) -> String {
  let n = members.len().max(1);
  let mut text = String::from("{");
  for k in 0..members.len() {
    let (name, value) = &members[(k + rotate) % n];
    if k > 0 {
      text.push(',');
    }
    if spaced {
      text.push_str("\n  ");
    }
    text.push_str(&Value::String(name.clone()).to_string());
    text.push(':');
    if spaced {
      text.push(' ');
    }
    text.push_str(&value.to_string());
  }
  if spaced {
    text.push('\n');
  }
  text.push('}');
  text
}

fn jwk_strategy() -> impl Strategy<Value = Case> {
  let public = (public_params(), optional_members(), 0usize..12, any::<bool>()).prop_map(|(mut p, o, rotate, spaced)| {
    p.extend(o);
    Case::Jwk { input: JwkInput::Json(render_object(&p, rotate, spaced)), class: JwkClass::Public }
  });
  let private = (public_params(), optional_members(), 0usize..12, b64_bytes(32)).prop_map(|(mut p, o, rotate, d)| {
    if p[0].1 == json!("RSA") {
      p.push(("d".into(), json!(d)));
      if rotate % 2 == 0 {
        for name in ["p", "q", "dp", "dq", "qi"] {
          p.push((name.into(), json!(d)));
        }
      }
    } else {
      p.push(("d".into(), json!(d)));
    }
    p.extend(o);
    Case::Jwk { input: JwkInput::Json(render_object(&p, rotate, false)), class: JwkClass::Private }
  });
  let symmetric = (b64_bytes(32), optional_members()).prop_map(|(k, o)| {
    let mut p = vec![("kty".to_string(), json!("oct")), ("k".to_string(), json!(k))];
    p.extend(o);
    Case::Jwk { input: JwkInput::Json(render_object(&p, 0, false)), class: JwkClass::Private }
  });
  let undecodable_json = prop::sample::select(vec![
    "", "{}", "[]", "null", "\"text\"", "42", "{\"kty\":\"OKP\"", "{\"crv\":\"Ed25519\",\"x\":\"AA\"}", "{\"kty\":\"OKP\",\"crv\":\"Ed25519\"}",
"{\"kty\":\"RSA\",\"n\":\"AA\"}", "{\"kty\":\"unknown\",\"x\":\"AA\"}", "{\"kty\":7,\"crv\":\"Ed25519\",\"x\":\"AA\"}",
    "not json at all", "{\"kty\":\"OKP\",\"crv\":\"Ed25519\",\"x\":\"AA\"} trailing",
  ])
  .prop_map(|text| Case::Jwk { input: JwkInput::Json(text.to_string()), class: JwkClass::Undecodable });
  let undecodable_id = prop_oneof![
    // not base64url at all (characters a DID may contain but the alphabet does not), or an impossible length
    prop::sample::select(vec!["z6MkiTBz1ymuepAQ4HEHYSF1H8quG5GLVVQR3djdX3mDooWp", "a.b.c", "e30.", "e", "eyJrdHkiOiJPS1A", "%7B%7D", "e30:e30"])
      .prop_map(str::to_string),
    "[A-Za-z0-9_-]{1,40}",
  ]
  .prop_filter_map("identifier happens to decode to a JWK", |id| {
    // keep only identifiers from which no JSON object with a string `kty` can be decoded (lenient decoder: over-approximate what might decode)
    let decodes = crate::util::b64url_decode_lenient(id.as_bytes())
      .and_then(|bytes| serde_json::from_slice::<Value>(&bytes).ok())
      .is_some_and(|v| v.get("kty").is_some());
    if decodes {
      None
    } else {
      Some(Case::Jwk { input: JwkInput::RawId(id), class: JwkClass::Undecodable })
    }
  });
  prop_oneof![6 => public, 2 => private, 1 => symmetric, 2 => undecodable_json, 2 => undecodable_id]
}

pub fn run(ctx: &mut Ctx) {
  let max_all = ctx.pick(4usize, 5usize);
  ctx.rule = format!(
    "handler tables over methods m1..m4/iota/jwk (harness handlers typed CoreDID or IotaDID, the library did:jwk handler, re-attachment), \
     DIDs with supported / unsupported methods and DIDs the handler's DID type rejects, scripted handler failures; gate futures released by a \
     hand-written executor: every release order × every number of gates open before the first poll for ≤ {max_all} distinct DIDs (exhaustive \
     family over three methods, and all orders for every generated list with ≤ {max_all} distinct DIDs), sampled orders beyond; both resolver \
     flavours; did:jwk identifiers over generated OKP/EC/RSA public JWKs with optional members, member order and whitespace varied, private / \
     symmetric / undecodable payloads. Non-trivial = resolve_multiple over ≥ 3 distinct DIDs of ≥ 2 methods with ≥ 2 gated handlers and a \
     release order other than the submission order; every single-resolution and did:jwk case; distinct by case bytes."
  );
  ctx.assume("re-attaching a handler for a method replaces the earlier one (rustdoc of attach_handler); the registered handler of a method is the last one attached");
  ctx.assume("a DID string the effective handler's DID type cannot represent (e.g. `did:iota:nope` for an IotaDID handler) can only yield an error without a handler call; the statement does not mention this case");
  ctx.assume("when resolve_multiple fails only `Err` is demanded (which of several failures is reported may depend on completion order); handlers of other DIDs may or may not have been called");
  ctx.assume("resolve_multiple: every distinct DID's handler is called at least once; being called more than once is recorded (class multi:handler-called-more-than-once) but not a violation, since handler results are a function of the DID");
  ctx.assume("did:jwk with private key material or a symmetric key: the statement is silent, Ok and Err are both accepted (observed: rejected with PrivateKeyMaterialExposed); identifiers from which no JWK can be decoded must fail");
  ctx.assume("did:jwk document: only id, the single method, its publicKeyJwk (compared as JSON values with the encoded JWK) and that relationship entries reference that method are checked; which relationships are present is not");
  ctx.assume("completion order is controlled exactly (gates), OS-thread interleavings are not involved; the submission order inside resolve_multiple (HashSet iteration) is not controlled and the oracle does not depend on it");

  ctx.exhaustive("orders", || order_space(max_all), check);
  ctx.exhaustive("single-grid", single_grid, check);
  ctx.proptest("single", ctx.pick(10_000, 300_000), single_strategy, check);
  ctx.proptest("multi", ctx.pick(20_000, 450_000), move || multi_strategy(max_all), check);
  ctx.proptest("jwk", ctx.pick(10_000, 400_000), jwk_strategy, check);

  ctx.require_class("orders:multi:all-succeed", 100);
  ctx.require_class("orders:multi:some-fail", 100);
  ctx.require_class("orders:multi:duplicates", 100);
  ctx.require_class(&format!("orders:multi:distinct-{max_all}"), 100);
  for class in ["unsupported", "did-type-rejects", "handler-ok", "handler-fails", "jwk-ok", "jwk-undecodable", "handler-was-replaced"] {
    ctx.require_class(&format!("single-grid:single:{class}"), 4);
    ctx.require_class(&format!("single:single:{class}"), 20);
  }
  ctx.require_class("orders:multi:pending-after-first-poll", 1_000);
  ctx.require_class("orders:multi:three-or-more-releases-while-pending", 500);
  ctx.require_class("single-grid:single:pending-until-released", 30);
  ctx.require_class("multi:multi:pending-after-first-poll", 1_000);
  ctx.require_class("multi:multi:three-or-more-releases-while-pending", 500);
  ctx.require_class("multi:multi:all-succeed", 500);
  ctx.require_class("multi:multi:some-fail", 200);
  ctx.require_class("multi:multi:duplicates", 300);
  ctx.require_class("multi:multi:all-orders", 500);
  ctx.require_class("multi:multi:has-unsupported", 50);
  ctx.require_class("multi:multi:has-scripted-failure", 100);
  ctx.require_class("multi:multi:has-jwk", 50);
  ctx.require_class("multi:multi:distinct-3", 100);
  ctx.require_class("multi:multi:distinct-4", 100);
  ctx.require_class("multi:multi:distinct-5", 50);
  ctx.require_class("jwk:jwk:public-expanded", 1_000);
  ctx.require_class("jwk:jwk:undecodable-rejected", 300);
  ctx.max_discard_pct(5);
}

pub fn replay(v: &serde_json::Value, obs: &mut Obs) -> Result<CheckResult, String> {
  replay_with::<Case>(v, obs, check)
}
