//! C06 — Revocation bitmaps round-trip and revoke exactly the requested indices.
//!
//! Model: `BTreeSet<u32>`. The endpoint the library writes is read by the harness' own
//! base64url/zlib/Roaring reader (`model::codec`), legacy (double-encoded) and current endpoints are
//! built by the harness from the model, so encoding and decoding are each judged against an
//! independent counterpart and not only against each other.

use crate::engine::*;
use crate::fixture;
use crate::model::codec::*;
use crate::util::b64url;
use crate::util::b64url_decode_lenient;
use crate::vensure;
use crate::vfail;
use identity_core::common::Object;
use identity_core::common::Url;
use identity_core::convert::FromJson;
use identity_credential::credential::Credential;
use identity_credential::credential::CredentialBuilder;
use identity_credential::credential::RevocationBitmapStatus;
use identity_credential::credential::Subject;
use identity_credential::revocation::RevocationBitmap;
use identity_credential::revocation::RevocationDocumentExt;
use identity_credential::validator::JwtCredentialValidatorUtils;
use identity_credential::validator::JwtValidationError;
use identity_credential::validator::StatusCheck;
use identity_did::DIDUrl;
use identity_did::DID;
use identity_document::document::CoreDocument;
use identity_document::service::Service;
use identity_document::service::ServiceEndpoint;
use identity_iota_core::IotaDID;
use identity_iota_core::IotaDocument;
use proptest::prelude::*;
use serde::Deserialize;
use serde::Serialize;
use std::collections::BTreeSet;

const DATA_URL_PREFIX: &str = "data:application/octet-stream;base64,";
/// What `deserialize_compressed_base64` took as the mark of the current (single-encoded) form before 9ff510c.
/// Only the first two characters are fixed by the zlib header 78 9C; the third is `w`, `x`, `y` or `z`.
const CURRENT_FORM_MARK: &str = "eJy";
/// flate2's `Compression::default()`, the level every version of the library has used.
const ZLIB_LEVEL: u32 = 6;

/// The library cannot read back an endpoint it wrote itself because the text does not start with `eJy`
/// (the third character depends on the first deflate block header, `eJw…`/`eJz…` occur). Fixed in 9ff510c;
/// the signature stays so that a regression is recognised, and the neutralisation below is inert unless the
/// signature is listed as `known:` again.
const SIG_PREFIX: &str = "roundtrip-decode-fails-endpoint-prefix";

// ---------------------------------------------------------------------------------------------
// Cases
// ---------------------------------------------------------------------------------------------

#[derive(Debug, Clone, Serialize, Deserialize)]
pub enum Piece {
  Points(Vec<u32>),
  /// `start, start+1, …` (`len` values, cut at `u32::MAX`).
  Run { start: u32, len: u32 },
  /// `start, start+step, …` (`count` values, cut at `u32::MAX`).
  Stride { start: u32, step: u32, count: u32 },
  /// `count` pseudo-random values (function of `seed`) inside container `container` (high 16 bits).
  Scatter { container: u16, seed: u64, count: u16 },
}

#[derive(Debug, Clone, Copy, PartialEq, Eq, Serialize, Deserialize)]
pub enum DocKind {
  Core,
  Iota,
}

/// How the service is addressed in `revoke_credentials` / `unrevoke_credentials` / `resolve_revocation_bitmap`.
#[derive(Debug, Clone, Copy, PartialEq, Eq, Serialize, Deserialize)]
pub enum Addr {
  FullId,
  HashFragment,
  Fragment,
}

#[derive(Debug, Clone, Serialize, Deserialize)]
pub struct Batch {
  pub revoke: bool,
  pub addr: Addr,
  /// In this order, repeats allowed.
  pub indices: Vec<u32>,
  /// Appended to `indices`: `start, start+1, …` (`len` values).
  pub run: Option<(u32, u32)>,
}

#[derive(Debug, Clone, Serialize, Deserialize)]
pub enum Case {
  /// Bitmap built from `pieces`, then single `revoke`/`unrevoke` calls `ops` on the bitmap, then
  /// service round trip, harness-built legacy/current endpoints, and the validation link for `probes`.
  Set { pieces: Vec<Piece>, ops: Vec<(bool, u32)>, probes: Vec<u32>, doc: DocKind },
  /// Document with a revocation service holding `initial`, then batches through the document API.
  History { doc: DocKind, initial: Vec<Piece>, batches: Vec<Batch>, probes: Vec<u32> },
}

/// Upper bound on the size of a generated set (keeps a single case in the millisecond range).
const SET_CAP: usize = 1_500_000;

fn expand_into(set: &mut BTreeSet<u32>, pieces: &[Piece]) {
  for p in pieces {
    if set.len() >= SET_CAP {
      return;
    }
    match p {
      Piece::Points(v) => set.extend(v.iter().copied()),
      Piece::Run { start, len } => {
        let end = (*start as u64 + *len as u64).min(1 << 32);
        set.extend((*start as u64..end).map(|v| v as u32));
      }
      Piece::Stride { start, step, count } => {
        let step = (*step).max(1) as u64;
        set.extend(
          (0..*count as u64)
            .map(|k| *start as u64 + k * step)
            .take_while(|v| *v <= u32::MAX as u64)
            .map(|v| v as u32),
        );
      }
      Piece::Scatter { container, seed, count } => {
        let mut s = *seed;
        for _ in 0..*count {
          s = s.wrapping_mul(6364136223846793005).wrapping_add(1442695040888963407);
          set.insert((*container as u32) << 16 | (s >> 40) as u32 & 0xffff);
        }
      }
    }
  }
}

fn expand(pieces: &[Piece]) -> BTreeSet<u32> {
  let mut set = BTreeSet::new();
  expand_into(&mut set, pieces);
  set
}

// ---------------------------------------------------------------------------------------------
// Documents
// ---------------------------------------------------------------------------------------------

const CORE_DOC_JSON: &str = r##"{
  "id": "did:example:1234",
  "verificationMethod": [
    {"id": "did:example:1234#key-1", "controller": "did:example:1234", "type": "Ed25519VerificationKey2018", "publicKeyMultibase": "zJdzr2UvC"},
    {"id": "did:example:1234#key-2", "controller": "did:example:1234", "type": "Ed25519VerificationKey2018", "publicKeyMultibase": "zJdzr2UvD"}
  ],
  "authentication": ["did:example:1234#key-2"],
  "service": [
    {"id": "did:example:1234#linked-domain", "type": "LinkedDomains", "serviceEndpoint": "https://example.com/"}
  ]
}"##;

const IOTA_DID: &str = "did:iota:rms:0x7b48b06232b8a1e7a31c314cab1ceedb84e2e9dd2b1fae79b67eaa4595f15e47";
const FRAGMENT: &str = "revocation";
const OTHER_FRAGMENT: &str = "revocation-other";

enum Doc {
  Core(Box<CoreDocument>),
  Iota(Box<IotaDocument>),
}

impl Doc {
  fn build(kind: DocKind) -> Result<Doc, Viol> {
    let mut doc = match kind {
      DocKind::Core => Doc::Core(Box::new(fixture!(CoreDocument::from_json(CORE_DOC_JSON), "core document"))),
      DocKind::Iota => {
        let did = fixture!(IotaDID::parse(IOTA_DID), "iota did");
        let mut d = IotaDocument::new_with_id(did);
        let linked = fixture!(
          Service::builder(Object::new())
            .id(fixture!(d.id().to_url().join("#linked-domain"), "service id"))
            .type_("LinkedDomains")
            .service_endpoint(fixture!(Url::parse("https://example.com/"), "url"))
            .build(),
          "linked-domain service"
        );
        fixture!(d.insert_service(linked), "insert linked-domain service");
        Doc::Iota(Box::new(d))
      }
    };
    // a second revocation service that no operation addresses: it must never change
    let other: BTreeSet<u32> = [1u32, 65536, 65537, 1 << 20].into_iter().collect();
    let other_id = doc.service_id(OTHER_FRAGMENT)?;
    let service = harness_service(&other_id, &legacy_endpoint_text(&other))?;
    doc.insert(service)?;
    Ok(doc)
  }
  fn core(&self) -> &CoreDocument {
    match self {
      Doc::Core(d) => d,
      Doc::Iota(d) => d.core_document(),
    }
  }
  fn did_string(&self) -> String {
    self.core().id().to_string()
  }
  fn service_id(&self, fragment: &str) -> Result<DIDUrl, Viol> {
    Ok(fixture!(self.core().id().to_url().join(format!("#{fragment}")), "service id"))
  }
  fn insert(&mut self, service: Service) -> CheckResult {
    match self {
      Doc::Core(d) => fixture!(d.insert_service(service), "insert_service"),
      Doc::Iota(d) => fixture!(d.insert_service(service), "insert_service"),
    };
    Ok(())
  }
  fn remove(&mut self, id: &DIDUrl) {
    match self {
      Doc::Core(d) => d.remove_service(id),
      Doc::Iota(d) => d.remove_service(id),
    };
  }
  fn update(&mut self, revoke: bool, addr: Addr, id: &DIDUrl, indices: &[u32]) -> Result<Result<(), String>, PanicInfo> {
    let hash_fragment = format!("#{FRAGMENT}");
    catch(|| {
      macro_rules! call {
        ($d:expr, $q:expr) => {
          if revoke {
            $d.revoke_credentials($q, indices).map_err(|e| e.to_string())
          } else {
            $d.unrevoke_credentials($q, indices).map_err(|e| e.to_string())
          }
        };
      }
      match (self, addr) {
        (Doc::Core(d), Addr::FullId) => call!(d, id),
        (Doc::Core(d), Addr::HashFragment) => call!(d, hash_fragment.as_str()),
        (Doc::Core(d), Addr::Fragment) => call!(d, FRAGMENT),
        (Doc::Iota(d), Addr::FullId) => call!(d, id),
        (Doc::Iota(d), Addr::HashFragment) => call!(d, hash_fragment.as_str()),
        (Doc::Iota(d), Addr::Fragment) => call!(d, FRAGMENT),
      }
    })
  }
  fn resolve(&self, addr: Addr, id: &DIDUrl) -> Result<Result<RevocationBitmap, String>, PanicInfo> {
    let hash_fragment = format!("#{FRAGMENT}");
    catch(|| {
      let core = self.core();
      match addr {
        Addr::FullId => core.resolve_revocation_bitmap(id.into()),
        Addr::HashFragment => core.resolve_revocation_bitmap(hash_fragment.as_str().into()),
        Addr::Fragment => core.resolve_revocation_bitmap(FRAGMENT.into()),
      }
      .map_err(|e| e.to_string())
    })
  }
  fn check_status(&self, credential: &Credential, check: StatusCheck) -> Result<Result<(), JwtValidationError>, PanicInfo> {
    catch(|| match self {
      Doc::Core(d) => JwtCredentialValidatorUtils::check_status(credential, std::slice::from_ref(&**d), check),
      Doc::Iota(d) => JwtCredentialValidatorUtils::check_status(credential, std::slice::from_ref(&**d), check),
    })
  }
  /// The text after `data:application/octet-stream;base64,` of the service's endpoint.
  fn endpoint_text(&self, id: &DIDUrl) -> Option<String> {
    endpoint_text(self.core().resolve_service(id)?)
  }
  /// Everything in the document except the endpoint of service `id`, as JSON.
  fn other_parts(&self, id: &DIDUrl) -> Result<serde_json::Value, Viol> {
    let mut v = match self {
      Doc::Core(d) => fixture!(serde_json::to_value(&**d), "document to JSON"),
      Doc::Iota(d) => fixture!(serde_json::to_value(&**d), "document to JSON"),
    };
    fn blank(v: &mut serde_json::Value, id: &str) {
      match v {
        serde_json::Value::Object(m) => {
          if m.get("id").and_then(|i| i.as_str()) == Some(id) && m.contains_key("serviceEndpoint") {
            m.insert("serviceEndpoint".into(), serde_json::Value::Null);
          }
          m.values_mut().for_each(|x| blank(x, id));
        }
        serde_json::Value::Array(a) => a.iter_mut().for_each(|x| blank(x, id)),
        _ => {}
      }
    }
    blank(&mut v, &id.to_string());
    // Which position the updated service takes among the services, and a bumped `updated` stamp in the IOTA metadata,
    // are not "other parts" an update must leave alone.
    fn settle(v: &mut serde_json::Value) {
      match v {
        serde_json::Value::Object(m) => {
          if let Some(serde_json::Value::Array(services)) = m.get_mut("service") {
            services.sort_by_key(|s| s.get("id").map(|i| i.to_string()).unwrap_or_default());
          }
          if let Some(serde_json::Value::Object(meta)) = m.get_mut("meta") {
            meta.remove("updated");
          }
          m.values_mut().for_each(settle);
        }
        serde_json::Value::Array(a) => a.iter_mut().for_each(settle),
        _ => {}
      }
    }
    settle(&mut v);
    Ok(v)
  }
}

fn endpoint_text(service: &Service) -> Option<String> {
  match service.service_endpoint() {
    ServiceEndpoint::One(url) => url.as_str().strip_prefix(DATA_URL_PREFIX).map(str::to_string),
    _ => None,
  }
}

/// Current form: base64url(zlib(roaring)).
fn current_endpoint_text(set: &BTreeSet<u32>) -> String {
  b64url(&zlib(&roaring_serialize(set), ZLIB_LEVEL))
}

/// Legacy form written before the fix of issue #1291: base64(base64url(zlib(roaring))).
fn legacy_endpoint_text(set: &BTreeSet<u32>) -> String {
  b64std_nopad(current_endpoint_text(set).as_bytes())
}

fn harness_service(id: &DIDUrl, endpoint_text: &str) -> Result<Service, Viol> {
  let url = fixture!(Url::parse(format!("{DATA_URL_PREFIX}{endpoint_text}")), "data url");
  Ok(fixture!(
    Service::builder(Object::new())
      .id(id.clone())
      .type_(RevocationBitmap::TYPE)
      .service_endpoint(url)
      .build(),
    "harness-built service"
  ))
}

/// Independent reading of an endpoint in the current form.
fn read_current(text: &str) -> Option<BTreeSet<u32>> {
  roaring_deserialize(&unzlib(&b64url_decode_lenient(text.as_bytes())?)?)
}

fn prefix3(text: &str) -> String {
  text.chars().take(3).collect()
}

/// While the prefix defect is a tolerated known finding: re-install an endpoint the library cannot read as the
/// legacy double encoding of the very same text (which the library must and does read), so that what follows
/// — further batches, `resolve_revocation_bitmap`, `check_status` — is still explored. Strict runs change nothing.
fn neutralise(doc: &mut Doc, id: &DIDUrl, obs: &mut Obs) -> CheckResult {
  if !obs.is_known(SIG_PREFIX) {
    return Ok(());
  }
  let Some(text) = doc.endpoint_text(id) else {
    return Ok(());
  };
  if text.starts_with(CURRENT_FORM_MARK) || !text.starts_with("eJ") {
    return Ok(()); // readable, or already in the legacy form
  }
  obs.excluded(SIG_PREFIX);
  doc.remove(id);
  doc.insert(harness_service(id, &b64std_nopad(text.as_bytes()))?)
}

// ---------------------------------------------------------------------------------------------
// Oracles
// ---------------------------------------------------------------------------------------------

/// Non-members worth asking about: neighbours of members, container edges, extremes.
fn non_member_probes(model: &BTreeSet<u32>, extra: &[u32]) -> Vec<u32> {
  let mut out: BTreeSet<u32> = BTreeSet::new();
  let step = (model.len() / 4096).max(1); // all members of small sets, a stride through large ones
  for v in model.iter().step_by(step) {
    out.extend([v.wrapping_sub(1), v.wrapping_add(1), v ^ 0x10000, v & 0xffff_0000, v | 0xffff]);
  }
  out.extend([0, 1, 65535, 65536, u32::MAX - 1, u32::MAX]);
  out.extend(extra.iter().copied());
  out.into_iter().filter(|v| !model.contains(v)).collect()
}

/// `bitmap` holds exactly `model`. `sig` names the clause/call site for the violation.
fn same_set(bitmap: &RevocationBitmap, model: &BTreeSet<u32>, probes: &[u32], sig: &str, what: &str, obs: &mut Obs) -> CheckResult {
  let r = catch(|| {
    if bitmap.len() != model.len() as u64 || bitmap.is_empty() != model.is_empty() {
      return Some(format!("len() = {}, is_empty() = {}, expected {} elements", bitmap.len(), bitmap.is_empty(), model.len()));
    }
    if let Some(v) = model.iter().find(|v| !bitmap.is_revoked(**v)) {
      return Some(format!("index {v} is missing"));
    }
    non_member_probes(model, probes)
      .into_iter()
      .find(|v| bitmap.is_revoked(*v))
      .map(|v| format!("index {v} is present but was never revoked"))
  });
  match r {
    Ok(None) => Ok(()),
    Ok(Some(detail)) => obs.fail(sig, format!("{what}: {detail}")),
    Err(p) => obs.fail("bitmap-query-panics", format!("{what}: {}", p.msg)),
  }
}

fn classify(obs: &mut Obs, model: &BTreeSet<u32>) {
  let (containers, largest) = roaring_shape(model);
  if containers >= 2 || largest > 4096 {
    obs.nontrivial();
  }
  obs.label(match containers {
    0 => "containers-0",
    1 => "containers-1",
    2..=16 => "containers-2..16",
    _ => "containers->16",
  });
  if largest > 4096 {
    obs.label("bitmap-container");
  }
  if largest == 65536 {
    obs.label("full-container");
  }
  if model.contains(&0) || model.contains(&u32::MAX) {
    obs.label("has-extreme-index");
  }
  obs.label(match model.len() {
    0 => "size-0",
    1..=8 => "size-1..8",
    9..=4096 => "size-9..4096",
    4097..=100_000 => "size-4097..1e5",
    _ => "size->1e5",
  });
}

/// Decode through the library what `service` holds and compare with the model.
/// `own` = the endpoint was written by the library (the prefix defect applies to those and to identical harness text).
#[allow(clippy::too_many_arguments)]
fn decode_and_compare(
  service: &Service,
  model: &BTreeSet<u32>,
  probes: &[u32],
  fail_sig: &str,
  differ_sig: &str,
  what: &str,
  obs: &mut Obs,
) -> Result<Option<RevocationBitmap>, Viol> {
  let text = endpoint_text(service).unwrap_or_default();
  let prefix_affected = text.starts_with("eJ") && !text.starts_with(CURRENT_FORM_MARK);
  if prefix_affected && obs.is_known(SIG_PREFIX) {
    obs.excluded(SIG_PREFIX);
    return Ok(None);
  }
  match catch(|| RevocationBitmap::try_from(service)) {
    Ok(Ok(b)) => {
      same_set(&b, model, probes, differ_sig, what, obs)?;
      Ok(Some(b))
    }
    Ok(Err(e)) => {
      let sig = if prefix_affected { SIG_PREFIX } else { fail_sig };
      obs.fail(
        sig,
        format!("{what}: RevocationBitmap::try_from(&Service) fails for endpoint {}… ({} elements): {}", short(&text, 24), model.len(), short(&e.to_string(), 160)),
      )?;
      Ok(None)
    }
    Err(p) => {
      obs.fail("decode-panics", format!("{what}: try_from(&Service) panicked: {}", p.msg))?;
      Ok(None)
    }
  }
}

/// `check_status` ⇔ membership, for every `StatusCheck`.
fn validation_link(doc: &Doc, id: &DIDUrl, model: &BTreeSet<u32>, probes: &[u32], obs: &mut Obs) -> CheckResult {
  let issuer = fixture!(Url::parse(doc.did_string()), "issuer url");
  // A second trusted issuer whose `#revocation` service holds exactly the probes that are NOT members: looking the
  // status up in the wrong document flips every verdict.
  let decoy_did = "did:example:decoy9999";
  let mut decoy: CoreDocument = fixture!(
    CoreDocument::from_json(&format!(r#"{{"id":"{decoy_did}"}}"#)),
    "decoy document"
  );
  let complement: BTreeSet<u32> = probes.iter().copied().filter(|p| !model.contains(p)).collect();
  let decoy_service_id = fixture!(DIDUrl::parse(format!("{decoy_did}#{FRAGMENT}")), "decoy service id");
  fixture!(
    decoy.insert_service(harness_service(&decoy_service_id, &current_endpoint_text(&complement))?),
    "decoy service"
  );
  let issuer_core: CoreDocument = doc.core().clone();
  for index in probes {
    let status = match catch(|| RevocationBitmapStatus::new(id.clone(), *index)) {
      Ok(s) => s,
      Err(p) => return Err(Viol::fixture(format!("RevocationBitmapStatus::new panicked: {}", p.msg))),
    };
    let credential: Credential = fixture!(
      CredentialBuilder::new(Object::new())
        .id(fixture!(Url::parse("https://example.com/credentials/3732"), "credential id"))
        .issuer(issuer.clone())
        .type_("UniversityDegreeCredential")
        .subject(Subject::with_id(fixture!(Url::parse("did:example:ebfeb1f712ebc6f1c276e12ec21"), "subject")))
        .status(status)
        .build(),
      "CredentialBuilder::build"
    );
    let member = model.contains(index);
    // the issuer's document among several trusted ones, in either position
    for (order, trusted) in [("decoy-first", [&decoy, &issuer_core]), ("issuer-first", [&issuer_core, &decoy])] {
      let r = match catch(|| JwtCredentialValidatorUtils::check_status(&credential, &trusted, StatusCheck::Strict)) {
        Ok(r) => r,
        Err(p) => return obs.fail("check-status-panics", format!("check_status(index {index}, {order}) panicked: {}", p.msg)),
      };
      let revoked = matches!(r, Err(JwtValidationError::Revoked));
      vensure!(
        obs,
        revoked == member,
        if member { "check-status-misses-revoked-index" } else { "check-status-reports-unrevoked-index" },
        "index {index} (member of the issuer's bitmap: {member}) with trusted issuers [{order}]: check_status = {r:?}"
      );
      obs.label("validation-among-several-issuers");
    }
    for check in [StatusCheck::Strict, StatusCheck::SkipUnsupported, StatusCheck::SkipAll] {
      let r = match doc.check_status(&credential, check) {
        Ok(r) => r,
        Err(p) => return obs.fail("check-status-panics", format!("check_status(index {index}, {check:?}) panicked: {}", p.msg)),
      };
      let revoked = matches!(r, Err(JwtValidationError::Revoked));
      if check == StatusCheck::SkipAll {
        vensure!(obs, r.is_ok(), "check-status-reports-under-skip-all", "index {index}, SkipAll: {r:?}");
      } else if member {
        vensure!(
          obs,
          revoked,
          "check-status-misses-revoked-index",
          "index {index} is in the bitmap of {id} ({} elements) but check_status({check:?}) = {r:?}",
          model.len()
        );
        obs.label("validation-revoked");
      } else {
        vensure!(
          obs,
          !revoked,
          "check-status-reports-unrevoked-index",
          "index {index} is not in the bitmap of {id} ({} elements) but check_status({check:?}) = Revoked",
          model.len()
        );
        obs.label(if r.is_ok() { "validation-not-revoked" } else { "validation-not-revoked-but-error" });
      }
    }
  }
  Ok(())
}

/// Probes for the validation link: the generated ones plus a few members and their neighbours.
fn link_probes(model: &BTreeSet<u32>, generated: &[u32]) -> Vec<u32> {
  let mut out: Vec<u32> = generated.iter().copied().take(6).collect();
  let n = model.len();
  for k in [0, n / 3, n / 2, n.saturating_sub(1)] {
    if let Some(v) = model.iter().nth(k) {
      out.extend([*v, v.wrapping_add(1)]);
    }
  }
  out.sort_unstable();
  out.dedup();
  out
}

pub fn check(case: &Case, obs: &mut Obs) -> CheckResult {
  match case {
    Case::Set { pieces, ops, probes, doc } => check_set(pieces, ops, probes, *doc, obs),
    Case::History { doc, initial, batches, probes } => check_history(*doc, initial, batches, probes, obs),
  }
}

fn check_set(pieces: &[Piece], ops: &[(bool, u32)], probes: &[u32], kind: DocKind, obs: &mut Obs) -> CheckResult {
  let mut model = expand(pieces);
  let mut bitmap = RevocationBitmap::new();
  // build in descending order for odd seeds of the shape, ascending otherwise: insertion order must not matter
  let descending = model.len() % 2 == 1;
  let built = catch(|| {
    let mut fresh = true;
    if descending {
      model.iter().rev().for_each(|v| fresh &= bitmap.revoke(*v));
    } else {
      model.iter().for_each(|v| fresh &= bitmap.revoke(*v));
    }
    fresh
  });
  match built {
    Ok(fresh) => vensure!(obs, fresh, "revoke-return-wrong", "revoke() of an absent index returned false while building the set"),
    Err(p) => return obs.fail("revoke-panics", format!("revoke panicked: {}", p.msg)),
  }
  for (revoke, index) in ops {
    let (got, want) = match catch(|| if *revoke { bitmap.revoke(*index) } else { bitmap.unrevoke(*index) }) {
      Ok(got) => (got, if *revoke { model.insert(*index) } else { model.remove(index) }),
      Err(p) => return obs.fail("revoke-panics", format!("revoke/unrevoke({index}) panicked: {}", p.msg)),
    };
    let name = if *revoke { "revoke" } else { "unrevoke" };
    vensure!(obs, got == want, "revoke-return-wrong", "{name}({index}) returned {got}, the index was {}", if want == *revoke { "absent" } else { "present" });
    vensure!(obs, bitmap.is_revoked(*index) == *revoke, "membership-after-op-wrong", "is_revoked({index}) = {} right after {name}", !*revoke);
  }
  classify(obs, &model);
  same_set(&bitmap, &model, probes, "bitmap-differs-from-requested", "after revoke/unrevoke on the bitmap", obs)?;

  // encode
  let mut doc = Doc::build(kind)?;
  let id = doc.service_id(FRAGMENT)?;
  let service = match catch(|| bitmap.to_service(id.clone())) {
    Ok(Ok(s)) => s,
    Ok(Err(e)) => return obs.fail("to-service-fails", format!("to_service for a set of {} elements: {e}", model.len())),
    Err(p) => return obs.fail("to-service-panics", format!("to_service panicked: {}", p.msg)),
  };
  vensure!(
    obs,
    service.id() == &id && service.type_().contains(RevocationBitmap::TYPE),
    "to-service-wrong-shape",
    "service id {} / type {:?}",
    service.id(),
    service.type_()
  );
  // The harness reads what the library wrote with its own codec (data URL, base64url, zlib, Roaring portable format).
  // The statement promises the round trip, not this spelling: output the reference codec cannot read is only counted
  // (the vacuity guard in `run` keeps the independent reading from silently disappearing).
  let text = endpoint_text(&service).unwrap_or_default();
  obs.label(format!("endpoint-prefix-{}", prefix3(&text)));
  match read_current(&text) {
    None => obs.label("own-endpoint-not-in-reference-form"),
    Some(read) => vensure!(
      obs,
      read == model,
      "encoded-endpoint-wrong-set",
      "endpoint holds {} elements, the bitmap {}; first difference {:?}",
      read.len(),
      model.len(),
      read.symmetric_difference(&model).next()
    ),
  }

  // decode what the library wrote
  if let Some(decoded) = decode_and_compare(&service, &model, probes, "roundtrip-decode-fails", "roundtrip-decodes-to-different-set", "own endpoint", obs)? {
    vensure!(obs, decoded == bitmap, "roundtrip-not-equal", "decoded bitmap holds the same indices but != the original");
    obs.label("roundtrip-decoded");
  }

  // harness-built endpoints: legacy double encoding (must keep decoding) and the current form
  let current = current_endpoint_text(&model);
  let legacy_service = harness_service(&id, &b64std_nopad(current.as_bytes()))?;
  if decode_and_compare(&legacy_service, &model, probes, "legacy-endpoint-decode-fails", "legacy-endpoint-decodes-to-different-set", "harness-built legacy endpoint", obs)?.is_some() {
    obs.label("legacy-decoded");
  }
  if current == text {
    obs.label("harness-endpoint-identical");
  } else {
    obs.label("harness-endpoint-differs");
    let current_service = harness_service(&id, &current)?;
    decode_and_compare(&current_service, &model, probes, "harness-endpoint-decode-fails", "harness-endpoint-decodes-to-different-set", "harness-built current endpoint", obs)?;
  }

  // validation link on a document carrying the library-made service
  doc.insert(service)?;
  neutralise(&mut doc, &id, obs)?;
  validation_link(&doc, &id, &model, &link_probes(&model, probes), obs)
}

fn check_history(kind: DocKind, initial: &[Piece], batches: &[Batch], probes: &[u32], obs: &mut Obs) -> CheckResult {
  let mut doc = Doc::build(kind)?;
  let id = doc.service_id(FRAGMENT)?;
  let mut model = expand(initial);
  let mut bitmap = RevocationBitmap::new();
  model.iter().for_each(|v| {
    bitmap.revoke(*v);
  });
  let service = match catch(|| bitmap.to_service(id.clone())) {
    Ok(Ok(s)) => s,
    Ok(Err(e)) => return obs.fail("to-service-fails", format!("to_service for a set of {} elements: {e}", model.len())),
    Err(p) => return obs.fail("to-service-panics", format!("to_service panicked: {}", p.msg)),
  };
  doc.insert(service)?;
  neutralise(&mut doc, &id, obs)?;
  obs.label(match kind {
    DocKind::Core => "core-document",
    DocKind::Iota => "iota-document",
  });

  let mut ever_revoked: BTreeSet<u32> = model.clone();
  for (k, batch) in batches.iter().enumerate() {
    let mut indices = batch.indices.clone();
    if let Some((start, len)) = batch.run {
      indices.extend((start as u64..(start as u64 + len as u64).min(1 << 32)).map(|v| v as u32));
    }
    let name = format!("batch {k} ({} {} indices, {:?})", if batch.revoke { "revoke" } else { "unrevoke" }, indices.len(), batch.addr);
    let before = doc.other_parts(&id)?;
    match doc.update(batch.revoke, batch.addr, &id, &indices) {
      Ok(Ok(())) => {}
      Ok(Err(e)) => {
        let text = doc.endpoint_text(&id).unwrap_or_default();
        let sig = if text.starts_with("eJ") && !text.starts_with(CURRENT_FORM_MARK) { SIG_PREFIX } else { "document-update-fails" };
        return obs.fail(sig, format!("{name} on endpoint {}…: {}", short(&text, 24), short(&e, 160)));
      }
      Err(p) => return obs.fail("document-update-panics", format!("{name} panicked: {}", p.msg)),
    }
    for i in &indices {
      if batch.revoke {
        model.insert(*i);
        ever_revoked.insert(*i);
      } else {
        if ever_revoked.contains(i) {
          obs.nontrivial();
          obs.label("unrevoke-after-revoke");
        }
        model.remove(i);
      }
    }
    obs.label(format!("addr-{:?}", batch.addr).to_lowercase());
    let after = doc.other_parts(&id)?;
    vensure!(
      obs,
      before == after,
      "document-update-changes-other-parts",
      "{name}: the document changed outside the endpoint of {id}: before {} after {}",
      short(&before.to_string(), 400),
      short(&after.to_string(), 400)
    );
    // what the document now stores, read independently of the library's decoder
    let text = doc.endpoint_text(&id).unwrap_or_default();
    obs.label(format!("endpoint-prefix-{}", prefix3(&text)));
    match read_current(&text) {
      // not the reference spelling: the set is judged through the library's own decoder below
      None => obs.label("document-endpoint-not-in-reference-form"),
      Some(read) => {
        obs.label("document-endpoint-read-by-reference");
        if read != model {
          let extra: Vec<&u32> = read.difference(&model).take(5).collect();
          let missing: Vec<&u32> = model.difference(&read).take(5).collect();
          vfail!(
            obs,
            "document-endpoint-wrong-set",
            "{name}: stored bitmap has {} elements, expected {}; unexpected members {extra:?}, missing {missing:?}",
            read.len(),
            model.len()
          );
          model = read; // tolerated: go on from what is stored
        }
      }
    }
    neutralise(&mut doc, &id, obs)?;
    // … and through the library
    match doc.resolve(batch.addr, &id) {
      Ok(Ok(b)) => same_set(&b, &model, probes, "resolved-bitmap-differs", &format!("{name}: resolve_revocation_bitmap"), obs)?,
      Ok(Err(e)) => {
        let text = doc.endpoint_text(&id).unwrap_or_default();
        let sig = if text.starts_with("eJ") && !text.starts_with(CURRENT_FORM_MARK) { SIG_PREFIX } else { "resolve-revocation-bitmap-fails" };
        return obs.fail(sig, format!("{name}: resolve_revocation_bitmap on endpoint {}…: {}", short(&text, 24), short(&e, 160)));
      }
      Err(p) => return obs.fail("decode-panics", format!("{name}: resolve_revocation_bitmap panicked: {}", p.msg)),
    }
  }
  classify(obs, &model);
  validation_link(&doc, &id, &model, &link_probes(&model, probes), obs)
}

// ---------------------------------------------------------------------------------------------
// Generators
// ---------------------------------------------------------------------------------------------

/// Indices near the places where the representation changes.
fn anchor() -> impl Strategy<Value = u32> {
  prop_oneof![
    4 => 0u32..=70_000,
    3 => (0u32..=65535, -3i64..=3).prop_map(|(c, d)| ((c as i64) << 16).saturating_add(d).clamp(0, u32::MAX as i64) as u32),
    2 => any::<u32>(),
    1 => (0u32..=70_000).prop_map(|d| u32::MAX - d),
    1 => Just(0u32),
    1 => Just(u32::MAX),
  ]
}

fn piece(scale: u32) -> impl Strategy<Value = Piece> {
  prop_oneof![
    4 => prop::collection::vec(anchor(), 0..=8).prop_map(Piece::Points),
    3 => (anchor(), prop_oneof![3 => 1u32..=300, 2 => 1u32..=6_000 * scale, 1 => 60_000u32..=70_000 * scale]).prop_map(|(start, len)| Piece::Run { start, len }),
    2 => (anchor(), prop_oneof![2 => 1u32..=40, 1 => 1u32..=70_000, 1 => 65_530u32..=65_542], 1u32..=3_000 * scale)
      .prop_map(|(start, step, count)| Piece::Stride { start, step, count }),
    2 => (prop_oneof![Just(0u16), Just(1u16), Just(u16::MAX), any::<u16>()], any::<u64>(), prop_oneof![2 => 1u16..=600, 2 => 3_500u16..=9_000, 1 => 30_000u16..=u16::MAX])
      .prop_map(|(container, seed, count)| Piece::Scatter { container, seed, count }),
  ]
}

fn doc_kind() -> impl Strategy<Value = DocKind> {
  prop_oneof![Just(DocKind::Core), Just(DocKind::Iota)]
}

fn set_strategy(scale: u32) -> impl Strategy<Value = Case> {
  (
    prop::collection::vec(piece(scale), 0..=4),
    prop::collection::vec((any::<bool>(), anchor()), 0..=6),
    prop::collection::vec(anchor(), 0..=4),
    doc_kind(),
  )
    .prop_map(|(pieces, ops, probes, doc)| Case::Set { pieces, ops, probes, doc })
}

fn history_strategy(scale: u32) -> impl Strategy<Value = Case> {
  let batch = |pool: Vec<u32>| {
    (
      prop::bool::weighted(0.55),
      prop_oneof![Just(Addr::FullId), Just(Addr::HashFragment), Just(Addr::Fragment)],
      prop::collection::vec(prop_oneof![4 => prop::sample::select(pool), 1 => anchor()], 0..=10),
      prop::option::weighted(0.3, (anchor(), prop_oneof![3 => 1u32..=200, 1 => 1u32..=5_000])),
      // a sorted walk from an anchor with steps 0 (the index again), 1 and 2 (one index skipped): batches with repeats
      // and small gaps, as a caller collecting indices from several sources passes them
      prop::option::weighted(0.35, (anchor(), prop::collection::vec(0u32..3, 2..8))),
    )
      .prop_map(|(revoke, addr, mut indices, run, walk)| {
        if let Some((start, steps)) = walk {
          let mut at = start;
          let mut sorted = vec![at];
          for step in steps {
            at = at.saturating_add(step);
            sorted.push(at);
          }
          // the walk replaces the drawn indices (kept sorted), or follows them
          if start % 2 == 0 {
            indices = sorted;
          } else {
            indices.extend(sorted);
          }
        }
        Batch { revoke, addr, indices, run }
      })
  };
  (doc_kind(), prop::collection::vec(piece(scale), 0..=3), prop::collection::vec(anchor(), 4..=10))
    .prop_flat_map(move |(doc, initial, pool)| {
      (
        Just(doc),
        Just(initial),
        prop::collection::vec(batch(pool.clone()), 1..=12),
        prop::collection::vec(prop::sample::select(pool), 0..=4),
      )
    })
    .prop_map(|(doc, initial, batches, probes)| Case::History { doc, initial, batches, probes })
}

/// Hand-picked shapes that every run must see regardless of the seed.
fn fixed_sets() -> impl Iterator<Item = Case> {
  let shapes: Vec<Vec<Piece>> = vec![
    vec![],
    vec![Piece::Points(vec![0])],
    vec![Piece::Points(vec![u32::MAX])],
    vec![Piece::Points(vec![0, 5, 6, 8])],
    vec![Piece::Points(vec![5, 398, 67000])],
    vec![Piece::Points(vec![65535, 65536])],
    vec![Piece::Run { start: 0, len: 4096 }],
    vec![Piece::Run { start: 0, len: 4097 }],
    vec![Piece::Run { start: 65536 - 10, len: 20 }],
    vec![Piece::Run { start: 0, len: 65536 }],
    vec![Piece::Run { start: 100, len: 140_000 }],
    vec![Piece::Run { start: u32::MAX - 70_000, len: 80_000 }],
    vec![Piece::Stride { start: 0, step: 65536, count: 3000 }],
    vec![Piece::Stride { start: 7, step: 2, count: 30_000 }],
    vec![Piece::Scatter { container: 3, seed: 1, count: 5000 }],
    vec![Piece::Scatter { container: 0, seed: 2, count: 60_000 }, Piece::Points(vec![1 << 31])],
  ];
  shapes.into_iter().flat_map(|pieces| {
    [DocKind::Core, DocKind::Iota].into_iter().map(move |doc| Case::Set {
      pieces: pieces.clone(),
      ops: vec![],
      probes: vec![],
      doc,
    })
  })
}

pub fn run(ctx: &mut Ctx) {
  ctx.rule = "sets composed of points / runs / strides / dense pseudo-random containers anchored at 0, container boundaries (k·65536±3), \
    u32::MAX and anywhere, plus single revoke/unrevoke calls; histories of ≤ 12 revoke_credentials/unrevoke_credentials batches (indices \
    from a small pool with repeats, runs) on CoreDocument and IotaDocument addressed by full id, '#fragment' and 'fragment'; validation \
    link for members and their neighbours under every StatusCheck. Oracle: BTreeSet<u32>; the written endpoint is read by the harness' own \
    base64url+zlib+Roaring reader, legacy (double-encoded) endpoints are built by the harness. Non-trivial = final set with ≥ 2 containers \
    or a container of > 4096 values, or a history that un-revokes an index that was revoked before; distinct by case bytes."
    .into();
  ctx.assume("harness-built endpoints use zlib level 6 (flate2 Compression::default, the only level any version of the library has written) and the Roaring portable format without run containers (the only one roaring-rs writes)");
  ctx.assume("legacy endpoint = base64(standard alphabet, unpadded) of the ASCII text of the current form, as in the pre-#1291 test vector of bitmap.rs");
  ctx.assume("StatusCheck::SkipAll is a documented opt-out: check_status answers Ok whatever the bitmap holds");
  ctx.assume("for an index that is not a member only 'not reported Revoked' is demanded (Ok and other errors are both labelled)");
  ctx.assume("status entries whose id query and revocationBitmapIndex disagree are not generated (the statement does not say which of the two is 'its index')");

  let scale = ctx.pick(1, 8);
  ctx.exhaustive("fixed", fixed_sets, check);
  ctx.proptest("sets", ctx.pick(2_500, 15_000), move || set_strategy(scale), check);
  ctx.proptest("histories", ctx.pick(1_000, 6_000), move || history_strategy(scale), check);

  ctx.require_class("fixed:legacy-decoded", 32);
  ctx.require_class("sets:legacy-decoded", 1000);
  ctx.require_class("sets:bitmap-container", 100);
  ctx.require_class("sets:containers->16", 50);
  ctx.require_class("sets:has-extreme-index", 50);
  ctx.require_class("sets:validation-revoked", 500);
  ctx.require_class("sets:validation-not-revoked", 500);
  ctx.require_class("histories:unrevoke-after-revoke", 100);
  ctx.require_class("histories:document-endpoint-read-by-reference", 100);
  ctx.require_class("histories:core-document", 100);
  ctx.require_class("histories:iota-document", 100);
  ctx.require_class("histories:validation-revoked", 100);
  // the decode of own endpoints must have been exercised (directly, or counted as excluded by the known finding)
  let decoded = ctx.counters.classes.get("sets:roundtrip-decoded").copied().unwrap_or(0);
  let excluded = ctx.counters.excluded_by_known.get(SIG_PREFIX).copied().unwrap_or(0);
  if decoded + excluded < 1000 && ctx.violations.is_empty() {
    ctx.inconclusive.push(format!("vacuity: own endpoints decoded {decoded} times, excluded by the known finding {excluded} times"));
  }
  ctx.max_discard_pct(5);
}

pub fn replay(v: &serde_json::Value, obs: &mut Obs) -> Result<CheckResult, String> {
  replay_with::<Case>(v, obs, check)
}
