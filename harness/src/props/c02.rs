//! C02 — JWT credential validation accepts only when every checked condition holds.
//!
//! A case is a vector of independent choices (who signs, what the `kid` names, which documents are supplied,
//! nonces, dates relative to the bounds, structure, subject/holder, status, fail-fast mode). The harness renders
//! the documents and the token itself, computes from the vector — never from the library — the truth value of
//! every condition of the statement, and compares with what `JwtCredentialValidator` returns.

use crate::engine::*;
use crate::fixture;
use crate::gen::vc_fixtures::*;
use crate::vensure;
use identity_core::common::Object;
use identity_core::common::Timestamp;
use identity_core::common::Url;
use identity_core::convert::FromJson;
use identity_credential::credential::Credential;
use identity_credential::credential::Jwt;
use identity_credential::validator::DecodedJwtCredential;
use identity_credential::validator::FailFast;
use identity_credential::validator::JwtCredentialValidationOptions;
use identity_credential::validator::JwtCredentialValidator;
use identity_credential::validator::JwtValidationError;
use identity_credential::validator::StatusCheck;
use identity_credential::validator::SubjectHolderRelationship;
use identity_did::DIDUrl;
use identity_document::document::CoreDocument;
use identity_document::verifiable::JwsVerificationOptions;
use identity_eddsa_verifier::EdDSAJwsVerifier;
use proptest::prelude::*;
use serde::Deserialize;
use serde::Serialize;
use serde_json::json;
use serde_json::Map;
use serde_json::Value;

// ---------------------------------------------------------------------------------------------
// Case
// ---------------------------------------------------------------------------------------------

/// Which documents the caller supplies.
#[derive(Debug, Clone, Copy, PartialEq, Eq, Serialize, Deserialize)]
pub enum Entry {
  /// `validate(jwt, &host-of-target, ..)`.
  ValidateHost,
  /// `validate(jwt, &the-other-document, ..)`.
  ValidateOther,
  /// `verify_signature(jwt, &[A, B], ..)`.
  VerifyAB,
  /// `verify_signature(jwt, &[B, A], ..)`.
  VerifyBA,
  /// `verify_signature(jwt, &[the-other-document], ..)`.
  VerifyOnlyOther,
  /// `verify_signature(jwt, &[], ..)`.
  VerifyNone,
}

#[derive(Debug, Clone, PartialEq, Eq, Serialize, Deserialize)]
pub enum KidSel {
  /// Full id of the target method.
  Target,
  /// Full id of some other method of the universe.
  Method(M),
  /// `<DID of target id>#zz` — no such method.
  UnknownFragment,
  /// `did:vcheck:charlie#g` — no such document.
  UnknownDid,
  /// `<DID>?versionId=1#<fragment>` of the target (a DID URL carrying a query).
  TargetWithQuery,
  /// `#<fragment of target>`.
  FragmentOnly,
  /// `<fragment of target>` without `#`.
  BareFragment,
  /// No `kid` member.
  Absent,
  /// `"not a did url"`.
  Garbage,
  /// `<DID of target id>` without any fragment.
  DidWithoutFragment,
  /// `<DID of the document hosting the target>#<fragment of target>`: the target's id unless the target is a
  /// foreign-DID method, in which case this id names no method at all.
  HostDidTargetFragment,
}

#[derive(Debug, Clone, Copy, PartialEq, Eq, Serialize, Deserialize)]
pub enum IssuerSel {
  /// DID of the target method id, as a URL string.
  TargetDid,
  /// The same in object form with an extra member.
  TargetDidObject,
  /// DID of the other document.
  OtherDid,
  /// `did:vcheck:charlie`.
  UnknownDid,
  /// `https://example.edu/issuers/14` (not a DID).
  Https,
  /// DID of the document hosting the target (differs from `TargetDid` for a foreign-DID method).
  HostDid,
}

#[derive(Debug, Clone, Copy, PartialEq, Eq, Serialize, Deserialize)]
pub enum Dates {
  /// Both bounds passed explicitly.
  Explicit {
    latest_issuance: i64,
    issuance: i64,
    earliest_expiry: i64,
    expiry: Option<i64>,
  },
  /// No bounds in the options (the library uses the current time); dates are decades away from the present.
  Defaults {
    issued_in_past: bool,
    expires_in_future: Option<bool>,
  },
}

const YEAR_2000: i64 = 946_684_800;
const YEAR_2090: i64 = 3_786_912_000;

impl Dates {
  fn issuance(&self) -> i64 {
    match *self {
      Dates::Explicit { issuance, .. } => issuance,
      Dates::Defaults { issued_in_past, .. } => {
        if issued_in_past {
          YEAR_2000
        } else {
          YEAR_2090
        }
      }
    }
  }
  fn expiry(&self) -> Option<i64> {
    match *self {
      Dates::Explicit { expiry, .. } => expiry,
      Dates::Defaults { expires_in_future, .. } => expires_in_future.map(|f| if f { YEAR_2090 } else { YEAR_2000 }),
    }
  }
}

/// How the issuance date is spelled in the claims.
#[derive(Debug, Clone, Copy, PartialEq, Eq, Serialize, Deserialize)]
pub enum IssuanceClaims {
  Nbf,
  Iat,
  /// `nbf` = issuance date and additionally an `iat` with this (usually different) value.
  Both {
    iat: i64,
  },
}

#[derive(Debug, Clone, Copy, PartialEq, Eq, Serialize, Deserialize)]
pub enum Structure {
  Ok,
  /// `@context: [examples]`.
  ContextWithoutBase,
  /// `@context: [examples, base]`.
  BaseContextNotFirst,
  /// `@context: examples` (single string).
  SingleOtherContext,
  /// `@context: []`.
  EmptyContext,
  /// `type: ["UniversityDegreeCredential"]`.
  TypeWithoutBase,
  /// `type: []`.
  EmptyTypes,
  /// `credentialSubject: {}` and no `sub`.
  EmptySubject,
}

#[derive(Debug, Clone, Copy, PartialEq, Eq, Serialize, Deserialize)]
pub struct HolderOpt {
  /// The holder URL in the options equals the subject id (when the subject has one).
  pub is_subject: bool,
  /// 0 AlwaysSubject, 1 SubjectOnNonTransferable, 2 Any.
  pub relationship: u8,
}

#[derive(Debug, Clone, Copy, PartialEq, Eq, Serialize, Deserialize)]
pub enum ServiceSel {
  /// `#rev` of the issuer's document.
  Rev,
  /// `#rev2` of the issuer's document (a second bitmap with another set).
  Rev2,
  /// `#nope` — no such service.
  Missing,
  /// `#web` — a LinkedDomains service.
  WrongType,
  /// `#rev` of the *other* document.
  OtherDoc,
  /// `https://example.edu/status/1` — not a DID URL.
  NotDid,
}

#[derive(Debug, Clone, Copy, PartialEq, Eq, Serialize, Deserialize)]
pub enum IndexSpelling {
  /// `?index=i` in the id and `revocationBitmapIndex: "i"`.
  Both,
  /// No `index` query.
  PropertyOnly,
  /// `?index=q` differs from the property.
  QueryOther(u32),
  /// `revocationBitmapIndex: i` as a JSON number.
  PropertyNumber,
  /// `revocationBitmapIndex: "x1"`.
  PropertyNotNumeric,
  /// Property absent.
  PropertyMissing,
}

#[derive(Debug, Clone, Copy, PartialEq, Eq, Serialize, Deserialize)]
pub enum StatusSel {
  Absent,
  Bitmap {
    service: ServiceSel,
    index: u32,
    spelling: IndexSpelling,
  },
  /// `type: "CredentialStatusList2017"`.
  Unsupported,
}

#[derive(Debug, Clone, Serialize, Deserialize)]
pub struct Case {
  pub family: u8,
  /// The verification method the token is "meant" for; gives meaning to the `Target…` alternatives below.
  pub target: M,
  pub entry: Entry,
  pub kid: KidSel,
  pub method_id: MethodIdSel,
  pub scope: ScopeSel,
  pub signer: SignerSel,
  pub tamper: Tamper,
  pub issuer: IssuerSel,
  pub header_nonce: Option<String>,
  pub option_nonce: Option<String>,
  pub dates: Dates,
  pub issuance_claims: IssuanceClaims,
  pub structure: Structure,
  pub holder: Option<HolderOpt>,
  pub subject_has_id: bool,
  pub non_transferable: Option<bool>,
  pub status: StatusSel,
  /// 0 Strict, 1 SkipUnsupported, 2 SkipAll, 3 the option is left alone (status checking is not relaxed: strict).
  pub status_check: u8,
  /// Set of `#rev` in document A and of `#rev2` in document B.
  pub rev: Vec<u32>,
  /// Set of `#rev2` in document A and of `#rev` in document B.
  pub rev2: Vec<u32>,
  pub all_errors: bool,
  pub typ: Option<String>,
  pub header_extra: bool,
  pub custom: Map<String, Value>,
  /// Where the registered-claim duplicates of credential properties are spelled (see `ClaimSpelling`).
  #[serde(default)]
  pub claim_spelling: ClaimSpelling,
  /// With `Dates::Explicit`: bit 0 = the earliest-expiry bound is not set in the options, bit 1 = the latest-issuance
  /// bound is not set (the library then uses the current time, known to the oracle only as "between 2020 and 2080").
  #[serde(default)]
  pub unset_bound: u8,
}

/// `serialize_jwt` moves `expirationDate`, `id` and the subject id out of `vc` into `exp`, `jti` and `sub`. A foreign
/// producer may leave one of them inside `vc` only, or spell them in both places.
#[derive(Debug, Clone, Copy, PartialEq, Eq, Serialize, Deserialize, Default)]
pub enum ClaimSpelling {
  /// As `serialize_jwt` writes them.
  #[default]
  Library,
  /// `vc.expirationDate` and no `exp`.
  ExpiryInVcOnly,
  /// `vc.id` and no `jti`.
  IdInVcOnly,
  /// `vc.credentialSubject.id` and no `sub`.
  SubjectInVcOnly,
  /// `exp`/`jti`/`sub`/`iss`/issuance claims and equal `vc.expirationDate`/`vc.id`/`vc.credentialSubject.id`/`vc.issuer`.
  Redundant,
}

const SUBJECT_ID: &str = "did:vcheck:subject1";
const OTHER_HOLDER: &str = "did:vcheck:holder2";
const HTTPS_ISSUER: &str = "https://example.edu/issuers/14";

// ---------------------------------------------------------------------------------------------
// Oracle: truth of every condition, computed from the case
// ---------------------------------------------------------------------------------------------

#[derive(Debug, Clone, Copy, PartialEq, Eq)]
enum Tri {
  True,
  False,
  /// The statement does not say whether such a credential is acceptable: either outcome is fine.
  Open,
}

#[derive(Debug, Clone, Copy, PartialEq, Eq)]
enum Stage {
  /// Decided by `verify_signature` (both entry points).
  Signature,
  /// One of the validation units chained by `validate` only.
  Unit,
}

struct Cond {
  name: &'static str,
  stage: Stage,
  state: Tri,
  /// Signature of the violation "accepted although this condition is false".
  accepted_sig: String,
  /// `JwtValidationError` variants that identify this condition when it is not true.
  admits: &'static [&'static str],
}

fn other(w: Which) -> Which {
  match w {
    Which::A => Which::B,
    Which::B => Which::A,
  }
}

impl Case {
  fn supplied(&self) -> Vec<Which> {
    let host = self.target.host();
    match self.entry {
      Entry::ValidateHost => vec![host],
      Entry::ValidateOther | Entry::VerifyOnlyOther => vec![other(host)],
      Entry::VerifyAB => vec![Which::A, Which::B],
      Entry::VerifyBA => vec![Which::B, Which::A],
      Entry::VerifyNone => vec![],
    }
  }
  fn is_validate(&self) -> bool {
    matches!(self.entry, Entry::ValidateHost | Entry::ValidateOther)
  }
  fn kid_text(&self) -> Option<String> {
    let t = self.target;
    match &self.kid {
      KidSel::Target => Some(t.id()),
      KidSel::Method(m) => Some(m.id()),
      KidSel::UnknownFragment => Some(format!("{}#zz", t.id_did())),
      KidSel::UnknownDid => Some(format!("{DID_C}#g")),
      KidSel::TargetWithQuery => Some(format!("{}?versionId=1#{}", t.id_did(), t.fragment())),
      KidSel::FragmentOnly => Some(format!("#{}", t.fragment())),
      KidSel::BareFragment => Some(t.fragment().to_string()),
      KidSel::Absent => None,
      KidSel::Garbage => Some("not a did url".to_string()),
      KidSel::DidWithoutFragment => Some(t.id_did().to_string()),
      KidSel::HostDidTargetFragment => Some(format!("{}#{}", t.host().did(), t.fragment())),
    }
  }
  fn method_id_text(&self) -> Option<String> {
    self.method_id.text(self.target)
  }
  fn scope(&self, universe: &Universe) -> Option<Scope> {
    self.scope.resolve(universe, self.target)
  }
  fn signer_key<'u>(&self, universe: &'u Universe) -> &'u crate::util::EdKey {
    self.signer.key(universe, self.target)
  }
  fn issuer_id(&self) -> String {
    match self.issuer {
      IssuerSel::TargetDid | IssuerSel::TargetDidObject => self.target.id_did().to_string(),
      IssuerSel::OtherDid => {
        if self.target.id_did() == DID_A {
          DID_B.to_string()
        } else {
          DID_A.to_string()
        }
      }
      IssuerSel::UnknownDid => DID_C.to_string(),
      IssuerSel::Https => HTTPS_ISSUER.to_string(),
      IssuerSel::HostDid => self.target.host().did().to_string(),
    }
  }
  fn subject_id(&self) -> Option<&'static str> {
    (self.subject_has_id && self.structure != Structure::EmptySubject).then_some(SUBJECT_ID)
  }
  /// A claim that `serialize_jwt` writes as a registered claim is spelled inside `vc` only.
  fn foreign_claim_spelling(&self) -> bool {
    match self.claim_spelling {
      ClaimSpelling::Library | ClaimSpelling::Redundant => false,
      ClaimSpelling::ExpiryInVcOnly => self.dates.expiry().is_some(),
      ClaimSpelling::IdInVcOnly => true,
      ClaimSpelling::SubjectInVcOnly => self.subject_id().is_some(),
    }
  }
  fn holder_url(&self) -> Option<&'static str> {
    self
      .holder
      .map(|h| if h.is_subject { SUBJECT_ID } else { OTHER_HOLDER })
  }
  /// Revocation set behind `service` in `doc` (A: rev/rev2, B: swapped).
  fn service_set(&self, doc: Which, service: ServiceSel) -> Option<&[u32]> {
    match (doc, service) {
      (Which::A, ServiceSel::Rev) | (Which::B, ServiceSel::Rev2) => Some(&self.rev),
      (Which::A, ServiceSel::Rev2) | (Which::B, ServiceSel::Rev) => Some(&self.rev2),
      _ => None,
    }
  }

  /// The credential (plain JSON) this case is about.
  fn credential_json(&self) -> Value {
    let mut c = minimal_credential(&self.issuer_id(), self.subject_id(), self.dates.issuance());
    let o = c.as_object_mut().expect("object");
    o.insert("id".into(), json!("https://example.edu/credentials/3732"));
    if self.issuer == IssuerSel::TargetDidObject {
      o.insert(
        "issuer".into(),
        json!({"id": self.issuer_id(), "name": "Example University"}),
      );
    }
    if let Some(e) = self.dates.expiry() {
      o.insert("expirationDate".into(), json!(rfc3339(e)));
    }
    if let Some(nt) = self.non_transferable {
      o.insert("nonTransferable".into(), json!(nt));
    }
    match self.structure {
      Structure::Ok => {}
      Structure::ContextWithoutBase => {
        o.insert("@context".into(), json!([EXAMPLES_CONTEXT]));
      }
      Structure::BaseContextNotFirst => {
        o.insert("@context".into(), json!([EXAMPLES_CONTEXT, BASE_CONTEXT]));
      }
      Structure::SingleOtherContext => {
        o.insert("@context".into(), json!(EXAMPLES_CONTEXT));
      }
      Structure::EmptyContext => {
        o.insert("@context".into(), json!([]));
      }
      Structure::TypeWithoutBase => {
        o.insert("type".into(), json!(["UniversityDegreeCredential"]));
      }
      Structure::EmptyTypes => {
        o.insert("type".into(), json!([]));
      }
      Structure::EmptySubject => {
        o.insert("credentialSubject".into(), json!({}));
      }
    }
    // The status lives in "the issuer's" document: the one named by the credential issuer.
    let issuer_did = self.issuer_id();
    let other_did = if issuer_did == DID_A { DID_B } else { DID_A };
    match self.status {
      StatusSel::Absent => {}
      StatusSel::Unsupported => {
        o.insert(
          "credentialStatus".into(),
          json!({"id": "https://example.edu/status/24", "type": "CredentialStatusList2017"}),
        );
      }
      StatusSel::Bitmap {
        service,
        index,
        spelling,
      } => {
        let base = match service {
          ServiceSel::Rev => (issuer_did.as_str(), "rev"),
          ServiceSel::Rev2 => (issuer_did.as_str(), "rev2"),
          ServiceSel::Missing => (issuer_did.as_str(), "nope"),
          ServiceSel::WrongType => (issuer_did.as_str(), "web"),
          ServiceSel::OtherDoc => (other_did, "rev"),
          ServiceSel::NotDid => ("https://example.edu/status/1", "rev"),
        };
        let query = match spelling {
          IndexSpelling::PropertyOnly => String::new(),
          IndexSpelling::QueryOther(q) => format!("?index={q}"),
          _ => format!("?index={index}"),
        };
        let mut s = Map::new();
        s.insert("id".into(), json!(format!("{}{}#{}", base.0, query, base.1)));
        s.insert("type".into(), json!(BITMAP_TYPE));
        match spelling {
          IndexSpelling::PropertyNumber => {
            s.insert("revocationBitmapIndex".into(), json!(index));
          }
          IndexSpelling::PropertyNotNumeric => {
            s.insert("revocationBitmapIndex".into(), json!(format!("x{index}")));
          }
          IndexSpelling::PropertyMissing => {}
          _ => {
            s.insert("revocationBitmapIndex".into(), json!(index.to_string()));
          }
        }
        o.insert("credentialStatus".into(), Value::Object(s));
      }
    }
    c
  }

  /// Truth of every condition of the statement, in the order the statement lists them.
  fn conditions(&self, universe: &Universe) -> Vec<Cond> {
    let mut out = Vec::new();
    let supplied = self.supplied();
    let scope = self.scope(universe);

    // -- nonce ---------------------------------------------------------------------------------
    out.push(Cond {
      name: "nonce",
      stage: Stage::Signature,
      state: if self.header_nonce == self.option_nonce {
        Tri::True
      } else {
        Tri::False
      },
      accepted_sig: match (&self.header_nonce, &self.option_nonce) {
        (None, Some(_)) => "accepted-without-required-nonce".into(),
        (Some(_), None) => "accepted-with-unexpected-nonce".into(),
        _ => "accepted-with-wrong-nonce".into(),
      },
      admits: &["JwsDecodingError", "Signature"],
    });

    // -- method selection ------------------------------------------------------------------------
    // The selector is the configured method id if there is one, else the kid.
    let selector: Option<String> = self.method_id_text().or_else(|| self.kid_text());
    let parsed = selector.as_deref().map(parse_selector);
    let (selector_state, selector_sig) = match (&parsed, self.method_id, &self.kid) {
      (None, _, _) => (Tri::False, "accepted-without-kid-or-method-id"),
      (Some(Selector::Nothing), _, _) => (Tri::False, "accepted-with-unusable-kid"),
      // A relative kid, or one carrying a query, may or may not be taken as naming the method: not stated.
      (Some(Selector::Fragment(_)), _, _) => (Tri::Open, "accepted-with-relative-kid"),
      (Some(Selector::Full { .. }), MethodIdSel::None, KidSel::TargetWithQuery) => {
        (Tri::Open, "accepted-kid-with-query")
      }
      (Some(Selector::Full { .. }), _, _) => (Tri::True, ""),
    };
    out.push(Cond {
      name: "selector",
      stage: Stage::Signature,
      state: selector_state,
      accepted_sig: selector_sig.into(),
      // (a kid that is a bare DID of an unsupplied document surfaces as DocumentMismatch)
      admits: &["MethodDataLookupError", "JwsDecodingError", "DocumentMismatch"],
    });

    // Candidate methods: in a supplied document, named by the selector, within scope, and carrying the
    // document's own DID ("that method's DID equals the document id").
    let mut doc_found = false;
    let mut candidates: Vec<&MethodSpec> = Vec::new();
    if let Some(text) = selector.as_deref() {
      match parse_selector(text) {
        Selector::Full { did, .. } => {
          // the first supplied document with that id
          if let Some(w) = supplied.iter().find(|w| w.did() == did) {
            doc_found = true;
            candidates = universe.doc(*w).select(text, scope);
          }
        }
        Selector::Fragment(_) => {
          for w in &supplied {
            let doc = universe.doc(*w);
            let own: Vec<&MethodSpec> = doc
              .select(text, scope)
              .into_iter()
              .filter(|m| m.id_did == doc.did)
              .collect();
            doc_found |= !own.is_empty();
            candidates.extend(own);
          }
        }
        Selector::Nothing => {}
      }
    }
    let selecting = selector_state != Tri::False;
    out.push(Cond {
      name: "document",
      stage: Stage::Signature,
      state: if !selecting || doc_found { Tri::True } else { Tri::False },
      accepted_sig: "accepted-with-method-of-unsupplied-document".into(),
      admits: &["DocumentMismatch", "MethodDataLookupError", "IdentifierMismatch"],
    });
    out.push(Cond {
      name: "method",
      stage: Stage::Signature,
      state: if !selecting || !doc_found || !candidates.is_empty() {
        Tri::True
      } else {
        Tri::False
      },
      accepted_sig: if scope.is_some()
        && selector
          .as_deref()
          .map(|s| self.selects_ignoring_scope(universe, &supplied, s))
          .unwrap_or(false)
      {
        "accepted-with-method-outside-scope".into()
      } else {
        "accepted-with-unknown-method".into()
      },
      admits: &["MethodDataLookupError", "DocumentMismatch"],
    });

    // -- signature -----------------------------------------------------------------------------
    let signer = self.signer_key(universe);
    let key_matches = candidates.iter().any(|m| m.key.public == signer.public);
    let sig_state = if candidates.is_empty() {
      // nothing to verify against: the failure is already attributed to selector/document/method
      Tri::True
    } else if key_matches && self.tamper == Tamper::None {
      Tri::True
    } else {
      Tri::False
    };
    out.push(Cond {
      name: "signature",
      stage: Stage::Signature,
      state: sig_state,
      accepted_sig: match self.tamper {
        Tamper::Payload => "accepted-with-tampered-payload".into(),
        Tamper::Signature(_) => "accepted-with-tampered-signature".into(),
        Tamper::None => "accepted-with-wrong-signer-key".into(),
      },
      admits: &["Signature", "JwsDecodingError"],
    });

    // -- issuer --------------------------------------------------------------------------------
    let issuer_id = self.issuer_id();
    let method_dids: Vec<&str> = candidates.iter().map(|m| m.id_did.as_str()).collect();
    let issuer_state = if candidates.is_empty() || method_dids.contains(&issuer_id.as_str()) {
      Tri::True
    } else {
      Tri::False
    };
    out.push(Cond {
      name: "issuer",
      stage: Stage::Signature,
      state: issuer_state,
      accepted_sig: if self.issuer == IssuerSel::Https {
        "accepted-with-non-did-issuer".into()
      } else {
        "accepted-with-issuer-other-than-method-did".into()
      },
      admits: &["IdentifierMismatch", "SignerUrl", "DocumentMismatch"],
    });

    // -- claims spelled inside `vc` only: the statement does not say whether such a token is acceptable (the library
    //    refuses it while decoding, for both entry points); if it is accepted everything else still has to hold and the
    //    credential handed back has to be the signed one.
    if self.foreign_claim_spelling() {
      out.push(Cond {
        name: "claim-spelling",
        stage: Stage::Signature,
        state: Tri::Open,
        accepted_sig: String::new(),
        admits: &["CredentialStructure"],
      });
    }

    if !self.is_validate() {
      return out;
    }

    // -- dates ---------------------------------------------------------------------------------
    let (issuance_ok, issuance_sig, expiry_ok, expiry_sig) = match self.dates {
      Dates::Explicit {
        latest_issuance,
        issuance,
        earliest_expiry,
        expiry,
      } => (
        issuance <= latest_issuance,
        if issuance - latest_issuance == 1 {
          "accepted-issued-at-bound-plus-1"
        } else {
          "accepted-issued-after-bound"
        },
        expiry.map(|e| e >= earliest_expiry).unwrap_or(true),
        if expiry.map(|e| e - earliest_expiry) == Some(-1) {
          "accepted-expired-at-bound-minus-1"
        } else {
          "accepted-expired-before-bound"
        },
      ),
      Dates::Defaults {
        issued_in_past,
        expires_in_future,
      } => (
        issued_in_past,
        "accepted-issued-in-future-default-bound",
        expires_in_future.unwrap_or(true),
        "accepted-expired-default-bound",
      ),
    };
    // a bound left unset is the current time: only dates decades away from the present are decided
    const YEAR_2020: i64 = 1_577_836_800;
    const YEAR_2080: i64 = 3_471_292_800;
    let against_now = |date: i64, must_be_before: bool| {
      if (date < YEAR_2020) == must_be_before && !(YEAR_2020..=YEAR_2080).contains(&date) {
        Tri::True
      } else if (YEAR_2020..=YEAR_2080).contains(&date) {
        Tri::Open
      } else {
        Tri::False
      }
    };
    let (issuance_state, expiry_state) = match self.dates {
      Dates::Explicit { issuance, expiry, .. } => (
        if self.unset_bound & 2 != 0 {
          against_now(issuance, true)
        } else if issuance_ok {
          Tri::True
        } else {
          Tri::False
        },
        match expiry {
          Some(e) if self.unset_bound & 1 != 0 => against_now(e, false),
          _ if expiry_ok => Tri::True,
          _ => Tri::False,
        },
      ),
      _ => (
        if issuance_ok { Tri::True } else { Tri::False },
        if expiry_ok { Tri::True } else { Tri::False },
      ),
    };
    out.push(Cond {
      name: "issuance",
      stage: Stage::Unit,
      state: issuance_state,
      accepted_sig: issuance_sig.into(),
      admits: &["IssuanceDate"],
    });
    out.push(Cond {
      name: "expiry",
      stage: Stage::Unit,
      state: expiry_state,
      accepted_sig: expiry_sig.into(),
      admits: &["ExpirationDate"],
    });

    // -- structure -----------------------------------------------------------------------------
    out.push(Cond {
      name: "structure",
      stage: Stage::Unit,
      state: if self.structure == Structure::Ok {
        Tri::True
      } else {
        Tri::False
      },
      accepted_sig: match self.structure {
        Structure::TypeWithoutBase | Structure::EmptyTypes => "accepted-without-base-type".into(),
        Structure::EmptySubject => "accepted-with-empty-subject".into(),
        _ => "accepted-without-leading-base-context".into(),
      },
      admits: &["CredentialStructure"],
    });

    // -- subject / holder ------------------------------------------------------------------------
    let holder_state = match self.holder {
      None => Tri::True,
      Some(h) => {
        let matches = self.subject_id().is_some() && h.is_subject;
        let holds = match h.relationship {
          0 => matches,
          1 => matches || !self.non_transferable.unwrap_or(false),
          _ => true,
        };
        if holds {
          Tri::True
        } else {
          Tri::False
        }
      }
    };
    out.push(Cond {
      name: "subject-holder",
      stage: Stage::Unit,
      state: holder_state,
      accepted_sig: match self.holder.map(|h| h.relationship) {
        Some(0) => "accepted-holder-not-subject-always-subject".into(),
        _ => "accepted-holder-not-subject-non-transferable".into(),
      },
      admits: &["SubjectHolderRelationship"],
    });

    // -- status --------------------------------------------------------------------------------
    // "The issuer's bitmap service" is looked up in the supplied document named by the credential issuer.
    let issuer_doc: Option<Which> = supplied.iter().copied().find(|w| w.did() == issuer_id);
    let (status_state, status_sig, status_admits): (Tri, &str, &'static [&'static str]) =
      match (if self.status_check == 3 { 0 } else { self.status_check }, self.status) {
        (2, _) | (_, StatusSel::Absent) => (Tri::True, "", &[]),
        (0, StatusSel::Unsupported) => (
          Tri::False,
          "accepted-unsupported-status-under-strict",
          &["InvalidStatus"],
        ),
        (_, StatusSel::Unsupported) => (Tri::True, "", &[]),
        (
          _,
          StatusSel::Bitmap {
            service,
            index,
            spelling,
          },
        ) => {
          let malformed = match spelling {
            IndexSpelling::Both | IndexSpelling::PropertyOnly => false,
            IndexSpelling::QueryOther(q) => q != index,
            IndexSpelling::PropertyNumber | IndexSpelling::PropertyNotNumeric | IndexSpelling::PropertyMissing => true,
          };
          // An entry whose id query and property name two different indices has no single "its index"; but when the
          // bitmap holds BOTH of them the credential is revoked under either reading, so acceptance is a violation.
          let both_readings_revoked = match spelling {
            IndexSpelling::QueryOther(q) if q != index => issuer_doc
              .and_then(|d| self.service_set(d, service))
              .is_some_and(|set| set.contains(&q) && set.contains(&index)),
            _ => false,
          };
          if both_readings_revoked {
            (
              Tri::False,
              "accepted-although-revoked-under-both-index-readings",
              &["Revoked", "InvalidStatus", "ServiceLookupError"],
            )
          } else if malformed {
            // no well-defined index: the statement does not say
            (Tri::Open, "", &["InvalidStatus", "ServiceLookupError"])
          } else {
            match issuer_doc.and_then(|d| self.service_set(d, service)) {
              Some(set) if set.contains(&index) => (Tri::False, "accepted-revoked-index", &["Revoked"]),
              Some(_) => (Tri::True, "", &[]),
              // no decodable bitmap service behind the status: not stated
              None => (
                Tri::Open,
                "",
                &["ServiceLookupError", "InvalidStatus", "DocumentMismatch"],
              ),
            }
          }
        }
      };
    out.push(Cond {
      name: "status",
      stage: Stage::Unit,
      state: status_state,
      accepted_sig: status_sig.into(),
      admits: status_admits,
    });
    out
  }

  /// Does `selector` name some method of a supplied document when the scope is ignored?
  fn selects_ignoring_scope(&self, universe: &Universe, supplied: &[Which], selector: &str) -> bool {
    supplied.iter().any(|w| {
      let doc = universe.doc(*w);
      doc.select(selector, None).iter().any(|m| m.id_did == doc.did)
    })
  }
}

// ---------------------------------------------------------------------------------------------
// Check
// ---------------------------------------------------------------------------------------------

fn kind(e: &JwtValidationError) -> &'static str {
  e.into()
}

enum Outcome {
  Accepted(Box<DecodedJwtCredential<Object>>),
  Rejected(Vec<JwtValidationError>),
}

/// The token's claims are spelled as `serialize_jwt` spells them.
fn plain_spelling(case: &Case) -> bool {
  case.issuance_claims == IssuanceClaims::Nbf && case.claim_spelling == ClaimSpelling::Library
}

pub fn check(case: &Case, obs: &mut Obs) -> CheckResult {
  // ---- fixtures: documents, credential, token, options ---------------------------------------
  let mut universe = Universe::new(case.family as u64);
  for (doc, frag, set) in [
    (Which::A, "rev", &case.rev),
    (Which::A, "rev2", &case.rev2),
    (Which::B, "rev", &case.rev2),
    (Which::B, "rev2", &case.rev),
  ] {
    let (service, enc) = fixture!(
      decodable_revocation_service(&format!("{}#{frag}", doc.did()), set),
      "revocation service"
    );
    if let StatusSel::Bitmap { .. } = case.status {
      obs.label(match enc {
        BitmapEncoding::Modern => "bitmap-endpoint:modern",
        BitmapEncoding::Legacy => "bitmap-endpoint:legacy",
      });
    }
    let d = universe.doc_mut(doc);
    d.services.push(service);
  }
  for doc in [Which::A, Which::B] {
    let d = universe.doc_mut(doc);
    let web =
      json!({"id": format!("{}#web", doc.did()), "type": "LinkedDomains", "serviceEndpoint": "https://example.edu/"});
    d.services.push(web);
  }
  let doc_a: CoreDocument = fixture!(universe.a.build(), "document A");
  let doc_b: CoreDocument = fixture!(universe.b.build(), "document B");
  let lib_doc = |w: Which| match w {
    Which::A => &doc_a,
    Which::B => &doc_b,
  };

  let credential_json = case.credential_json();
  let credential: Credential<Object> =
    fixture!(Credential::from_json_value(credential_json.clone()), "credential JSON");
  let claims_text = fixture!(credential.serialize_jwt(None), "serialize_jwt");
  let mut claims: Value = fixture!(serde_json::from_str(&claims_text), "claims JSON");
  {
    let o = fixture!(claims.as_object_mut().ok_or("claims are not an object"), "claims JSON");
    let nbf = fixture!(o.get("nbf").cloned().ok_or("serialize_jwt gave no nbf"), "claims JSON");
    match case.issuance_claims {
      IssuanceClaims::Nbf => {}
      IssuanceClaims::Iat => {
        o.remove("nbf");
        o.insert("iat".into(), nbf);
      }
      IssuanceClaims::Both { iat } => {
        o.insert("iat".into(), json!(iat));
      }
    }
    for (k, v) in &case.custom {
      o.insert(k.clone(), v.clone());
    }
    let only = |o: &mut Map<String, Value>, claim: &str, keep: bool| -> Option<Value> {
      if keep {
        o.get(claim).cloned()
      } else {
        o.remove(claim)
      }
    };
    let sp = case.claim_spelling;
    let redundant = sp == ClaimSpelling::Redundant;
    let mut moved = false;
    if sp == ClaimSpelling::ExpiryInVcOnly || redundant {
      if only(o, "exp", redundant).is_some() {
        o["vc"]["expirationDate"] = credential_json["expirationDate"].clone();
        moved = true;
      }
    }
    if sp == ClaimSpelling::IdInVcOnly || redundant {
      if let Some(id) = only(o, "jti", redundant) {
        o["vc"]["id"] = id;
        moved = true;
      }
    }
    if sp == ClaimSpelling::SubjectInVcOnly || redundant {
      if let Some(sub) = only(o, "sub", redundant) {
        o["vc"]["credentialSubject"]["id"] = sub;
        moved = true;
      }
    }
    if redundant {
      o["vc"]["issuer"] = credential_json["issuer"].clone();
    }
    if moved || redundant {
      obs.label(format!("claims:{sp:?}"));
    }
  }
  let mut extra = Map::new();
  if case.header_extra {
    extra.insert("x-trace".into(), json!({"hop": 1}));
  }
  let header = header_json(
    case.kid_text().as_deref(),
    case.typ.as_deref(),
    case.header_nonce.as_deref(),
    &extra,
  );
  let mut token = sign_jwt(case.signer_key(&universe), &header, &claims);
  match case.tamper {
    Tamper::None => {}
    Tamper::Payload => {
      let mut forged = claims.clone();
      forged["vc"]["credentialSubject"]["degree"] = json!({"type": "DoctorateDegree", "name": "Forged"});
      token = replace_payload(&token, &forged);
    }
    Tamper::Signature(bit) => token = flip_signature_bit(&token, bit as usize),
  }
  let jwt = Jwt::new(token);

  let mut verification = JwsVerificationOptions::new();
  if let Some(n) = &case.option_nonce {
    verification = verification.nonce(n.clone());
  }
  if let Some(s) = case.scope(&universe) {
    verification = verification.method_scope(s.to_lib());
  }
  if let Some(id) = case.method_id_text() {
    verification = verification.method_id(fixture!(DIDUrl::parse(&id), "method id"));
  }
  let mut options = JwtCredentialValidationOptions::new().verification_options(verification.clone());
  match case.status_check {
    0 => options = options.status_check(StatusCheck::Strict),
    1 => options = options.status_check(StatusCheck::SkipUnsupported),
    2 => options = options.status_check(StatusCheck::SkipAll),
    _ => obs.label("status-check-option-unset"),
  }
  if let Dates::Explicit {
    latest_issuance,
    earliest_expiry,
    ..
  } = case.dates
  {
    if case.unset_bound & 2 == 0 {
      options = options.latest_issuance_date(fixture!(Timestamp::from_unix(latest_issuance), "latest issuance bound"));
    }
    if case.unset_bound & 1 == 0 {
      options = options.earliest_expiry_date(fixture!(Timestamp::from_unix(earliest_expiry), "earliest expiry bound"));
    }
    if case.unset_bound & 3 != 0 {
      obs.label(format!("one-bound-unset:{}", case.unset_bound & 3));
    }
  }
  if let (Some(h), Some(url)) = (case.holder, case.holder_url()) {
    options = options.subject_holder_relationship(
      fixture!(Url::parse(url), "holder url"),
      match h.relationship {
        0 => SubjectHolderRelationship::AlwaysSubject,
        1 => SubjectHolderRelationship::SubjectOnNonTransferable,
        _ => SubjectHolderRelationship::Any,
      },
    );
  }
  let fail_fast = if case.all_errors {
    FailFast::AllErrors
  } else {
    FailFast::FirstError
  };

  // ---- the call under test -----------------------------------------------------------------
  let validator = JwtCredentialValidator::with_signature_verifier(EdDSAJwsVerifier::default());
  let supplied = case.supplied();
  let result = catch(|| {
    if case.is_validate() {
      match validator.validate::<CoreDocument, Object>(&jwt, lib_doc(supplied[0]), &options, fail_fast) {
        Ok(d) => Outcome::Accepted(Box::new(d)),
        Err(e) => Outcome::Rejected(e.validation_errors),
      }
    } else {
      let docs: Vec<&CoreDocument> = supplied.iter().map(|w| lib_doc(*w)).collect();
      match validator.verify_signature::<&CoreDocument, Object>(&jwt, &docs, &verification) {
        Ok(d) => Outcome::Accepted(Box::new(d)),
        Err(e) => Outcome::Rejected(vec![e]),
      }
    }
  });
  let entry_name = if case.is_validate() {
    "validate"
  } else {
    "verify_signature"
  };
  let outcome = match result {
    Ok(o) => o,
    Err(p) => {
      return obs.fail(
        format!("{entry_name}-panics"),
        format!("{entry_name} panicked: {} ({})", p.msg, p.sig()),
      )
    }
  };

  // ---- oracle ------------------------------------------------------------------------------
  let conds = case.conditions(&universe);
  let n_false = conds.iter().filter(|c| c.state == Tri::False).count();
  let n_open = conds.iter().filter(|c| c.state == Tri::Open).count();
  let all_true = n_false == 0 && n_open == 0;
  obs.label(format!("entry:{entry_name}"));
  obs.label(format!("false-conditions:{}", n_false.min(4)));
  for c in &conds {
    match c.state {
      Tri::False => obs.label(format!("false:{}", c.name)),
      Tri::Open => obs.label(format!("open:{}", c.name)),
      Tri::True => {}
    }
  }
  let boundary = match case.dates {
    Dates::Explicit {
      latest_issuance,
      issuance,
      earliest_expiry,
      expiry,
    } => {
      let di = issuance - latest_issuance;
      let de = expiry.map(|e| e - earliest_expiry);
      if case.is_validate() && di.abs() <= 1 {
        obs.label(format!("boundary:issuance{di:+}"));
      }
      if case.is_validate() && de.map(|d| d.abs() <= 1).unwrap_or(false) {
        obs.label(format!("boundary:expiry{:+}", de.unwrap_or(0)));
      }
      case.is_validate() && (di.abs() <= 1 || de.map(|d| d.abs() <= 1).unwrap_or(false))
    }
    Dates::Defaults { .. } => {
      obs.label("default-bounds");
      false
    }
  };
  if n_false >= 2 || all_true || boundary {
    obs.nontrivial();
  }

  match outcome {
    Outcome::Accepted(decoded) => {
      obs.label("accepted");
      if all_true && plain_spelling(case) {
        obs.label("all-true-accepted");
      }
      // (i) accepted => every condition holds
      for c in &conds {
        vensure!(
          obs,
          c.state != Tri::False,
          c.accepted_sig.clone(),
          "{entry_name} accepted the credential although condition `{}` is false (kid {:?}, method_id {:?}, scope {:?}, supplied {:?})",
          c.name,
          case.kid_text(),
          case.method_id_text(),
          case.scope(&universe),
          supplied
        );
      }
      // (iii) what comes back is what was signed
      let got = fixture!(serde_json::to_value(&decoded.credential), "returned credential to JSON");
      let want = fixture!(serde_json::to_value(&credential), "signed credential to JSON");
      vensure!(
        obs,
        got == want,
        "returned-credential-differs",
        "{entry_name} returned a credential different from the signed one:\n got  {got}\n want {want}"
      );
      let got_header = fixture!(serde_json::to_value(&*decoded.header), "returned header to JSON");
      vensure!(
        obs,
        got_header == header,
        "returned-header-differs",
        "{entry_name} returned header {got_header}, the signed protected header is {header}"
      );
      let got_custom: Map<String, Value> = decoded
        .custom_claims
        .clone()
        .map(|o| o.into_iter().collect())
        .unwrap_or_default();
      vensure!(
        obs,
        got_custom == case.custom,
        "returned-custom-claims-differ",
        "{entry_name} returned custom claims {:?}, signed were {:?}",
        got_custom,
        case.custom
      );
      Ok(())
    }
    Outcome::Rejected(errors) => {
      obs.label("rejected");
      for e in &errors {
        obs.label(format!("err:{}", kind(e)));
      }
      if all_true {
        // not a violation (one-directional statement); the share is guarded in `run` — over tokens spelled the way
        // the library itself spells them (a verifier may refuse a redundant `iat` or other foreign spellings)
        obs.label(if plain_spelling(case) { "all-true-rejected" } else { "all-true-foreign-spelling-rejected" });
        return Ok(());
      }
      vensure!(
        obs,
        !errors.is_empty(),
        "rejected-without-error",
        "{entry_name} failed with an empty error list"
      );
      // (ii) every returned error identifies a condition that is not true
      let not_true: Vec<&Cond> = conds.iter().filter(|c| c.state != Tri::True).collect();
      for e in &errors {
        let k = kind(e);
        vensure!(
          obs,
          not_true.iter().any(|c| c.admits.contains(&k)),
          format!("error-identifies-no-failing-condition:{k}"),
          "{entry_name} returned {k} ({e}) but the conditions that are not true are {:?}",
          not_true.iter().map(|c| c.name).collect::<Vec<_>>()
        );
      }
      let signature_stage_passes = conds
        .iter()
        .all(|c| c.stage != Stage::Signature || c.state == Tri::True);
      if case.is_validate() && signature_stage_passes {
        let failing_units: Vec<&Cond> = conds
          .iter()
          .filter(|c| c.stage == Stage::Unit && c.state == Tri::False)
          .collect();
        if case.all_errors {
          if failing_units.len() >= 2 {
            obs.label("all-errors:several-failing-units");
          }
          for u in &failing_units {
            vensure!(
              obs,
              errors.iter().any(|e| u.admits.contains(&kind(e))),
              format!("all-errors-misses-{}", u.name),
              "AllErrors returned {:?} which identifies no error for the failing condition `{}`",
              errors.iter().map(kind).collect::<Vec<_>>(),
              u.name
            );
          }
        } else {
          vensure!(
            obs,
            errors.len() == 1,
            "first-error-returns-several",
            "FirstError returned {} errors: {:?}",
            errors.len(),
            errors.iter().map(kind).collect::<Vec<_>>()
          );
        }
      }
      Ok(())
    }
  }
}

// ---------------------------------------------------------------------------------------------
// Generators
// ---------------------------------------------------------------------------------------------

fn dates_strategy() -> impl Strategy<Value = Dates> {
  prop_oneof![
    19 => (bound_and_date_strategy(-1), bound_and_date_strategy(1), prop::bool::weighted(0.7)).prop_map(|((li, i), (ee, e), has_exp)| Dates::Explicit {
      latest_issuance: li,
      issuance: i,
      earliest_expiry: ee,
      expiry: has_exp.then_some(e),
    }),
    1 => (prop::bool::weighted(0.8), prop::option::of(prop::bool::weighted(0.8)))
      .prop_map(|(p, f)| Dates::Defaults { issued_in_past: p, expires_in_future: f }),
  ]
}

fn rev_set() -> impl Strategy<Value = Vec<u32>> {
  prop_oneof![
    4 => prop::collection::vec(prop_oneof![8 => 0u32..24, 1 => 0u32..200_000, 1 => Just(u32::MAX)], 0..7),
    1 => prop::collection::vec(prop_oneof![1 => 0u32..24, 3 => 0u32..200_000], 4..12),
  ]
}

fn status_strategy() -> impl Strategy<Value = StatusSel> {
  let service = prop_oneof![
    8 => Just(ServiceSel::Rev),
    5 => Just(ServiceSel::Rev2),
    1 => Just(ServiceSel::Missing),
    1 => Just(ServiceSel::WrongType),
    1 => Just(ServiceSel::OtherDoc),
    1 => Just(ServiceSel::NotDid),
  ];
  let spelling = prop_oneof![
    8 => Just(IndexSpelling::Both),
    3 => Just(IndexSpelling::PropertyOnly),
    1 => (0u32..24).prop_map(IndexSpelling::QueryOther),
    1 => Just(IndexSpelling::PropertyNumber),
    1 => Just(IndexSpelling::PropertyNotNumeric),
    1 => Just(IndexSpelling::PropertyMissing),
  ];
  prop_oneof![
    4 => Just(StatusSel::Absent),
    6 => (service, prop_oneof![9 => 0u32..24, 1 => any::<u32>()], spelling)
      .prop_map(|(service, index, spelling)| StatusSel::Bitmap { service, index, spelling }),
    1 => Just(StatusSel::Unsupported),
  ]
}

fn case_strategy() -> impl Strategy<Value = Case> {
  let selection = (
    0u8..4,
    prop_oneof![6 => Just(M::AG), 3 => Just(M::AA), 2 => Just(M::BG), 1 => Just(M::AN), 1 => Just(M::BA), 1 => Just(M::BF), 1 => Just(M::AForeignF), 1 => Just(M::AForeignG), 1 => Just(M::ACI), 1 => Just(M::ACD)],
    prop_oneof![
      14 => Just(Entry::ValidateHost),
      1 => Just(Entry::ValidateOther),
      2 => Just(Entry::VerifyAB),
      2 => Just(Entry::VerifyBA),
      1 => Just(Entry::VerifyOnlyOther),
      1 => Just(Entry::VerifyNone),
    ],
    prop_oneof![
      30 => Just(KidSel::Target),
      2 => method_strategy().prop_map(KidSel::Method),
      1 => Just(KidSel::UnknownFragment),
      1 => Just(KidSel::UnknownDid),
      1 => Just(KidSel::TargetWithQuery),
      1 => Just(KidSel::FragmentOnly),
      1 => Just(KidSel::BareFragment),
      1 => Just(KidSel::Absent),
      1 => Just(KidSel::Garbage),
      1 => Just(KidSel::DidWithoutFragment),
      2 => Just(KidSel::HostDidTargetFragment),
    ],
    method_id_strategy(),
    scope_strategy(),
    signer_strategy(),
    tamper_strategy(),
    prop_oneof![
      12 => Just(IssuerSel::TargetDid),
      6 => Just(IssuerSel::TargetDidObject),
      1 => Just(IssuerSel::OtherDid),
      1 => Just(IssuerSel::UnknownDid),
      1 => Just(IssuerSel::Https),
      2 => Just(IssuerSel::HostDid),
    ],
  );
  let content = (
    nonce_pair_strategy(),
    dates_strategy(),
    prop_oneof![
      6 => Just(IssuanceClaims::Nbf),
      2 => Just(IssuanceClaims::Iat),
      2 => unix_date_strategy().prop_map(|iat| IssuanceClaims::Both { iat }),
    ],
    prop_oneof![
      24 => Just(Structure::Ok),
      1 => Just(Structure::ContextWithoutBase),
      1 => Just(Structure::BaseContextNotFirst),
      1 => Just(Structure::SingleOtherContext),
      1 => Just(Structure::EmptyContext),
      1 => Just(Structure::TypeWithoutBase),
      1 => Just(Structure::EmptyTypes),
      1 => Just(Structure::EmptySubject),
    ],
    prop::option::weighted(
      0.6,
      (prop::bool::weighted(0.8), 0u8..3).prop_map(|(is_subject, relationship)| HolderOpt {
        is_subject,
        relationship,
      }),
    ),
    prop::bool::weighted(0.9),
    prop::option::of(any::<bool>()),
    status_strategy(),
    prop_oneof![3 => Just(0u8), 1 => Just(1u8), 1 => Just(2u8), 2 => Just(3u8)],
    (
      rev_set(),
      rev_set(),
      prop::option::weighted(0.3, any::<prop::sample::Index>()),
    ),
  );
  let misc = (
    any::<bool>(),
    prop_oneof![2 => Just(Some("JWT".to_string())), 1 => Just(None), 1 => Just(Some("vc+ld+jwt".to_string()))],
    prop::bool::weighted(0.3),
    custom_claims_strategy_with(CREDENTIAL_FREE_CLAIM_NAMES),
    prop_oneof![
      16 => Just(ClaimSpelling::Library),
      2 => Just(ClaimSpelling::ExpiryInVcOnly),
      1 => Just(ClaimSpelling::IdInVcOnly),
      1 => Just(ClaimSpelling::SubjectInVcOnly),
      2 => Just(ClaimSpelling::Redundant),
    ],
    prop_oneof![9 => Just((0u8, false, false)), 1 => (1u8..4, any::<bool>(), any::<bool>())],
  );
  (selection, content, misc).prop_map(
    |(
      (family, target, entry, kid, method_id, scope, signer, tamper, issuer),
      (
        (header_nonce, option_nonce),
        dates,
        issuance_claims,
        structure,
        holder,
        subject_has_id,
        non_transferable,
        status,
        status_check,
        (rev, rev2, revoke_hint),
      ),
      (all_errors, typ, header_extra, custom, claim_spelling, (unset_bound, issued_long_ago, expires_far_ahead)),
    )| {
      // sometimes aim the status index at a member of the bitmaps so that "revoked" is not left to chance
      let status = match (status, revoke_hint) {
        (StatusSel::Bitmap { service, spelling, .. }, Some(pick)) if !rev.is_empty() || !rev2.is_empty() => {
          let pool: Vec<u32> = rev.iter().chain(rev2.iter()).copied().collect();
          StatusSel::Bitmap {
            service,
            index: pool[pick.index(pool.len())],
            spelling,
          }
        }
        (s, _) => s,
      };
      // with an unset bound only dates far from the present are decidable: move them there
      let (dates, unset_bound) = match dates {
        Dates::Explicit {
          latest_issuance,
          issuance,
          earliest_expiry,
          expiry,
        } => (
          Dates::Explicit {
            latest_issuance,
            issuance: if unset_bound & 2 != 0 { if issued_long_ago { YEAR_2000 } else { YEAR_2090 } } else { issuance },
            earliest_expiry,
            expiry: if unset_bound & 1 != 0 { expiry.map(|_| if expires_far_ahead { YEAR_2090 } else { YEAR_2000 }) } else { expiry },
          },
          unset_bound,
        ),
        d => (d, 0),
      };
      Case {
        family,
        target,
        entry,
        kid,
        method_id,
        scope,
        signer,
        tamper,
        issuer,
        header_nonce,
        option_nonce,
        dates,
        issuance_claims,
        structure,
        holder,
        subject_has_id,
        non_transferable,
        status,
        status_check,
        rev,
        rev2,
        all_errors,
        typ,
        header_extra,
        custom,
        claim_spelling,
        unset_bound,
      }
    },
  )
}

/// The all-true case the enumerated table deviates from.
fn base_case(target: M) -> Case {
  Case {
    family: 0,
    target,
    entry: Entry::ValidateHost,
    kid: KidSel::Target,
    method_id: MethodIdSel::None,
    scope: ScopeSel::None,
    signer: SignerSel::Target,
    tamper: Tamper::None,
    issuer: IssuerSel::TargetDid,
    header_nonce: Some("n1".into()),
    option_nonce: Some("n1".into()),
    dates: Dates::Explicit {
      latest_issuance: 1_700_000_000,
      issuance: 1_700_000_000,
      earliest_expiry: 1_800_000_000,
      expiry: Some(1_800_000_000),
    },
    issuance_claims: IssuanceClaims::Nbf,
    structure: Structure::Ok,
    holder: Some(HolderOpt {
      is_subject: true,
      relationship: 0,
    }),
    subject_has_id: true,
    non_transferable: Some(true),
    status: StatusSel::Bitmap {
      service: ServiceSel::Rev,
      index: 9,
      spelling: IndexSpelling::Both,
    },
    status_check: 0,
    rev: vec![3, 5],
    rev2: vec![7],
    all_errors: true,
    typ: Some("JWT".into()),
    header_extra: false,
    custom: Map::new(),
    claim_spelling: ClaimSpelling::Library,
    unset_bound: 0,
  }
}

type Deviation = fn(&mut Case);

/// One entry per alternative value of every coordinate (most make exactly one condition false).
const DEVIATIONS: &[Deviation] = &[
  |c| c.option_nonce = Some("n2".into()),
  |c| c.option_nonce = None,
  |c| c.header_nonce = None,
  |c| c.kid = KidSel::Absent,
  |c| c.kid = KidSel::Garbage,
  |c| c.kid = KidSel::DidWithoutFragment,
  |c| c.kid = KidSel::FragmentOnly,
  |c| c.kid = KidSel::UnknownFragment,
  |c| c.kid = KidSel::UnknownDid,
  |c| c.kid = KidSel::Method(M::AN),
  |c| c.kid = KidSel::Method(M::BG),
  |c| c.kid = KidSel::Method(M::AForeignF),
  |c| c.method_id = MethodIdSel::Target,
  |c| c.method_id = MethodIdSel::Method(M::AA),
  |c| c.method_id = MethodIdSel::Method(M::BF),
  |c| c.scope = ScopeSel::Fixed(Scope::VerificationMethod),
  |c| c.scope = ScopeSel::Fixed(Scope::Relationship(Rel::Authentication)),
  |c| c.scope = ScopeSel::Fixed(Scope::Relationship(Rel::AssertionMethod)),
  |c| c.scope = ScopeSel::Fixed(Scope::Relationship(Rel::KeyAgreement)),
  |c| c.signer = SignerSel::Method(M::AN),
  |c| c.signer = SignerSel::Method(M::BG),
  |c| c.signer = SignerSel::Outsider,
  |c| c.tamper = Tamper::Payload,
  |c| c.tamper = Tamper::Signature(300),
  |c| c.issuer = IssuerSel::TargetDidObject,
  |c| c.issuer = IssuerSel::OtherDid,
  |c| c.issuer = IssuerSel::Https,
  |c| c.entry = Entry::ValidateOther,
  |c| c.entry = Entry::VerifyBA,
  |c| c.entry = Entry::VerifyOnlyOther,
  |c| {
    if let Dates::Explicit { issuance, .. } = &mut c.dates {
      *issuance += 1
    }
  },
  |c| {
    if let Dates::Explicit { issuance, .. } = &mut c.dates {
      *issuance -= 1
    }
  },
  |c| {
    if let Dates::Explicit { expiry, .. } = &mut c.dates {
      *expiry = expiry.map(|e| e - 1)
    }
  },
  |c| {
    if let Dates::Explicit { expiry, .. } = &mut c.dates {
      *expiry = None
    }
  },
  |c| c.claim_spelling = ClaimSpelling::ExpiryInVcOnly,
  |c| c.claim_spelling = ClaimSpelling::IdInVcOnly,
  |c| c.claim_spelling = ClaimSpelling::SubjectInVcOnly,
  |c| c.claim_spelling = ClaimSpelling::Redundant,
  |c| c.issuance_claims = IssuanceClaims::Iat,
  |c| c.issuance_claims = IssuanceClaims::Both { iat: 1_700_000_001 },
  |c| c.issuance_claims = IssuanceClaims::Both { iat: 1_600_000_000 },
  |c| c.structure = Structure::BaseContextNotFirst,
  |c| c.structure = Structure::TypeWithoutBase,
  |c| c.structure = Structure::EmptySubject,
  |c| {
    c.holder = Some(HolderOpt {
      is_subject: false,
      relationship: 0,
    })
  },
  |c| {
    c.holder = Some(HolderOpt {
      is_subject: false,
      relationship: 1,
    })
  },
  |c| {
    c.holder = Some(HolderOpt {
      is_subject: false,
      relationship: 2,
    })
  },
  |c| c.holder = None,
  |c| c.non_transferable = None,
  |c| c.subject_has_id = false,
  |c| c.rev = vec![7, 9],
  |c| c.rev2 = vec![9],
  // the id query names another index than the property, and the bitmap holds both of them
  |c| {
    if let StatusSel::Bitmap { index, spelling, .. } = &mut c.status {
      c.rev = vec![3, *index];
      *spelling = IndexSpelling::QueryOther(3)
    }
  },
  |c| {
    if let StatusSel::Bitmap { service, .. } = &mut c.status {
      *service = ServiceSel::Rev2
    }
  },
  |c| {
    if let StatusSel::Bitmap { service, .. } = &mut c.status {
      *service = ServiceSel::Missing
    }
  },
  |c| {
    if let StatusSel::Bitmap { spelling, .. } = &mut c.status {
      *spelling = IndexSpelling::QueryOther(3)
    }
  },
  |c| c.status = StatusSel::Unsupported,
  |c| c.status = StatusSel::Absent,
  |c| c.status_check = 1,
  |c| c.status_check = 2,
  |c| c.status_check = 3,
  |c| c.all_errors = false,
];

/// Base cases, every single deviation and every pair of deviations (later deviation wins on the same field).
fn table() -> impl Iterator<Item = Case> {
  let targets = [M::AG, M::AA, M::BG];
  let n = DEVIATIONS.len();
  let singles = targets.into_iter().flat_map(move |t| {
    std::iter::once(base_case(t)).chain((0..n).map(move |i| {
      let mut c = base_case(t);
      DEVIATIONS[i](&mut c);
      c
    }))
  });
  let pairs = (0..n).flat_map(move |i| {
    ((i + 1)..n).map(move |j| {
      let mut c = base_case(M::AG);
      DEVIATIONS[i](&mut c);
      DEVIATIONS[j](&mut c);
      c
    })
  });
  // a foreign-DID method listed in the supplied document, addressed under that document's DID
  let foreign = [M::AForeignF, M::AForeignG].into_iter().flat_map(move |t| {
    let confuse = move |c: &mut Case| {
      c.kid = KidSel::HostDidTargetFragment;
      c.issuer = IssuerSel::HostDid;
      c.status = StatusSel::Absent;
    };
    let mut base = base_case(t);
    confuse(&mut base);
    std::iter::once(base).chain((0..n).map(move |i| {
      let mut c = base_case(t);
      DEVIATIONS[i](&mut c);
      confuse(&mut c);
      c
    }))
  });
  singles.chain(pairs).chain(foreign)
}

pub fn run(ctx: &mut Ctx) {
  ctx.rule = "condition vectors over (supplied documents, kid / method-id override, scope, signer key, tampering, credential issuer, \
    nonce on either side, issuance and expiry relative to explicit bounds incl. exactly -1/0/+1 s and the range ends, structure, \
    subject-holder option, RevocationBitmap2022 status against two bitmap services, StatusCheck mode, FailFast mode); table = base case x every \
    single deviation for three target methods + every pair of deviations; random = independent draws. Truth of each condition is computed \
    from the vector with the harness's own model of method selection, never from the library. Non-trivial = at least two conditions false, \
    or all conditions true, or a date exactly on / one second off its bound; distinct by case bytes."
    .into();
  ctx.assume("tokens are rendered and Ed25519-signed by the harness (iota-crypto), verified with EdDSAJwsVerifier; claims come from Credential::serialize_jwt (round trip checked by C07)");
  ctx.assume("only the direction 'accepted => every condition true' and 'rejected => each error identifies a condition that is not true' are violations; an all-true vector that is rejected only feeds a vacuity guard (>= 90% of all-true vectors must be accepted)");
  ctx.assume("'every failing condition when all errors are requested' is asserted for the validation units (issuance, expiry, structure, subject-holder, status) once the signature stage passes; a failing signature stage may report one error only");
  ctx.assume("not stated, either outcome accepted: kid given as a bare fragment or carrying a query; a RevocationBitmap2022 status whose index is malformed / contradicts the id query / whose service is missing, of another type or in another document");
  ctx.assume("admissible error variants per condition are deliberately wide (e.g. a wrong nonce may surface as JwsDecodingError or Signature; an unsupplied document as DocumentMismatch, MethodDataLookupError or IdentifierMismatch)");
  ctx.assume("the default-bounds class (no dates in the options, library reads the clock) uses dates in 2000 and 2090 and assumes the run happens in between");
  ctx.assume("revocation services are spelled by the harness (roaring + zlib); the modern spelling is used when the library's decoder accepts it, otherwise (known C06 decoder defect: endpoints not starting with 'eJy') the doubly-encoded legacy spelling; only decodability is probed, membership comes from the case");

  ctx.exhaustive("table", table, check);
  ctx.proptest("random", ctx.pick(60_000, 1_200_000), case_strategy, check);

  for sub in ["table", "random"] {
    ctx.require_class(&format!("{sub}:all-true-accepted"), 50);
    ctx.require_class(&format!("{sub}:false-conditions:2"), 100);
    for cond in [
      "nonce",
      "selector",
      "document",
      "method",
      "signature",
      "issuer",
      "issuance",
      "expiry",
      "structure",
      "subject-holder",
      "status",
    ] {
      ctx.require_class(&format!("{sub}:false:{cond}"), 20);
    }
    ctx.require_class(&format!("{sub}:all-errors:several-failing-units"), 10);
  }
  for b in [
    "issuance-1",
    "issuance+0",
    "issuance+1",
    "expiry-1",
    "expiry+0",
    "expiry+1",
  ] {
    ctx.require_class(&format!("random:boundary:{b}"), 100);
  }
  ctx.require_class("random:entry:verify_signature", 500);
  ctx.require_class("random:default-bounds", 100);
  ctx.require_class("random:open:status", 100);
  ctx.require_class("random:open:selector", 100);
  // share of all-true vectors that the validator accepts
  let count = |name: &str| -> u64 {
    ["table", "random"]
      .iter()
      .map(|s| ctx.counters.classes.get(&format!("{s}:{name}")).copied().unwrap_or(0))
      .sum()
  };
  let (ok, refused) = (count("all-true-accepted"), count("all-true-rejected"));
  ctx.extra.insert("all_true_accepted".into(), json!(ok));
  ctx.extra.insert("all_true_rejected".into(), json!(refused));
  if refused * 10 > ok + refused && ctx.violations.is_empty() {
    ctx.inconclusive.push(format!(
      "vacuity: {refused} of {} all-true vectors were rejected",
      ok + refused
    ));
  }
}

pub fn replay(v: &serde_json::Value, obs: &mut Obs) -> Result<CheckResult, String> {
  replay_with::<Case>(v, obs, check)
}
