//! C12 — StatusList2021 behaves as an independent-bit vector with one-way revocation.
//!
//! Model: `Vec<bool>` of length `len()`. Arbitrary byte contents are installed through
//! `try_from_encoded_str` of a list the harness gzip+base64-encoded itself; what the library encodes
//! is read back with the harness' own base64/gzip reader (`model::codec`), so every full-state
//! comparison is against bytes the library did not produce or interpret for us.

use identity_core::convert::FromJson;
use identity_core::convert::ToJson;
use serde_json::json;
use serde_json::Value;
use crate::engine::*;
use crate::fixture;
use crate::model::codec::*;
use crate::vensure;
use crate::vfail;
use identity_core::common::Object;
use identity_core::common::OneOrMany;
use identity_core::common::Url;
use identity_credential::credential::Credential;
use identity_credential::credential::CredentialBuilder;
use identity_credential::credential::Issuer;
use identity_credential::credential::Status;
use identity_credential::credential::Subject;
use identity_credential::revocation::status_list_2021::CredentialStatus;
use identity_credential::revocation::status_list_2021::StatusList2021;
use identity_credential::revocation::status_list_2021::StatusList2021Credential;
use identity_credential::revocation::status_list_2021::StatusList2021CredentialBuilder;
use identity_credential::revocation::status_list_2021::StatusList2021CredentialError;
use identity_credential::revocation::status_list_2021::StatusList2021Entry;
use identity_credential::revocation::status_list_2021::StatusPurpose;
use identity_credential::validator::JwtCredentialValidatorUtils;
use identity_credential::validator::JwtValidationError;
use identity_credential::validator::StatusCheck;
use proptest::prelude::*;
use serde::Deserialize;
use serde::Serialize;

/// Smallest list the library lets callers create (`MINIMUM_LIST_SIZE` in status_list.rs: 16 KiB of bits).
const MIN_ENTRIES: u64 = 16 * 1024 * 8;

/// `set(i, false)` also clears the entries of lower bit offset in the same byte.
const SIG_CLEAR_LOWER: &str = "set-false-clears-lower-offsets";
/// The same disturbance observed through `StatusList2021Credential::{set_credential_status, update}`
/// (there it un-revokes entries of a revocation list).
const SIG_CRED_CLEAR_LOWER: &str = "credential-set-false-clears-lower-offsets";
/// `get(i)` with `i >= len()` panics (slice index) instead of returning `IndexOutOfBounds`.
const SIG_GET_OOB_PANIC: &str = "get-out-of-range-panics";
/// The same panic reached through `StatusList2021Credential::{set_credential_status, update, entry}`.
const SIG_CRED_OOB_PANIC: &str = "credential-out-of-range-index-panics";
/// The same panic reached through the validator with a `statusListIndex` beyond the list.
const SIG_VALIDATOR_OOB_PANIC: &str = "validator-out-of-range-index-panics";
/// `set_credential_status` names the list by `credentialSubject.id` (fragment kept), the validator compares with the
/// credential `id` (fragment stripped by the builder): the library's own entry is answered with `InvalidStatus`.
const SIG_FRAGMENT_ID: &str = "validator-rejects-own-entry-of-fragment-list-id";

#[derive(Debug, Clone, Copy, PartialEq, Eq, Serialize, Deserialize)]
pub enum Init {
  /// `StatusList2021::new` (all entries clear).
  Zero,
  /// Harness-encoded list with every entry set.
  Ones,
  /// Harness-encoded pseudo-random content: `kind` 0 = ~50 % set, 1 = ~25 %, 2 = ~75 %, 3 = sparse bytes.
  Pattern { seed: u64, kind: u8 },
}

#[derive(Debug, Clone, Copy, PartialEq, Eq, Serialize, Deserialize)]
pub enum Purpose {
  Revocation,
  Suspension,
}

impl Purpose {
  fn lib(self) -> StatusPurpose {
    match self {
      Purpose::Revocation => StatusPurpose::Revocation,
      Purpose::Suspension => StatusPurpose::Suspension,
    }
  }
  fn other(self) -> Purpose {
    match self {
      Purpose::Revocation => Purpose::Suspension,
      Purpose::Suspension => Purpose::Revocation,
    }
  }
}

#[derive(Debug, Clone, Copy, PartialEq, Eq, Serialize, Deserialize)]
pub struct Write {
  pub idx: u64,
  pub value: bool,
}

#[derive(Debug, Clone, Serialize, Deserialize)]
pub enum CredOp {
  /// `set_credential_status(&mut credential, idx, value)`; with `validate = Some(c)` the credential that
  /// now carries the library-made entry is then given to the validator with `StatusCheck` number `c`.
  SetStatus { idx: u64, value: bool, validate: Option<u8> },
  /// `update(|l| …)` applying every write through `MutStatusList::set_entry` (errors recorded, not propagated).
  Update { writes: Vec<Write> },
  /// `entry(idx)`.
  Entry { idx: u64 },
  /// Validator on a credential whose entry the harness built with `StatusList2021Entry::new`.
  Validate { idx: u64, purpose_match: bool, list_match: bool, check: u8 },
}

#[derive(Debug, Clone, Serialize, Deserialize)]
pub enum Case {
  /// Per-byte update: a 16 KiB list with fixed non-trivial background and `byte` at byte position `pos`
  /// is installed, then `set(pos * 8 + offset, value)`.
  Byte { byte: u8, offset: u8, value: bool, pos: u32 },
  /// `StatusList2021::new(entries)`: length and initial content.
  New { entries: u64 },
  /// Write sequence on a list for `entries` entries; encode/decode round trip every `encode_every` writes.
  Seq { entries: u64, init: Init, writes: Vec<Write>, encode_every: u8 },
  /// History on a status-list credential of the given purpose (131 072 entries).
  Cred { purpose: Purpose, fragment: bool, init: Init, ops: Vec<CredOp> },
}

// ---------------------------------------------------------------------------------------------
// Harness-side content
// ---------------------------------------------------------------------------------------------

fn splitmix(state: &mut u64) -> u64 {
  *state = state.wrapping_add(0x9e3779b97f4a7c15);
  let mut z = *state;
  z = (z ^ (z >> 30)).wrapping_mul(0xbf58476d1ce4e5b9);
  z = (z ^ (z >> 27)).wrapping_mul(0x94d049bb133111eb);
  z ^ (z >> 31)
}

fn init_bytes(n_bytes: usize, init: Init) -> Vec<u8> {
  match init {
    Init::Zero => vec![0; n_bytes],
    Init::Ones => vec![0xff; n_bytes],
    Init::Pattern { seed, kind } => {
      let mut s = seed;
      (0..n_bytes)
        .map(|_| {
          let a = splitmix(&mut s);
          let (x, y, z) = (a as u8, (a >> 8) as u8, (a >> 16) as u8);
          match kind % 4 {
            0 => x,
            1 => x & y,
            2 => x | y,
            _ => {
              if z < 16 {
                x
              } else {
                0
              }
            }
          }
        })
        .collect()
    }
  }
}

/// Background of the per-byte sweep: period-256 content in which every byte has set and clear bits nearby.
fn background(n_bytes: usize) -> Vec<u8> {
  (0..n_bytes).map(|k| (k as u32 * 37 + 11) as u8).collect()
}

fn round_up8(n: u64) -> u64 {
  n.div_ceil(8) * 8
}

fn status_check(n: u8) -> StatusCheck {
  match n % 3 {
    0 => StatusCheck::Strict,
    1 => StatusCheck::SkipUnsupported,
    _ => StatusCheck::SkipAll,
  }
}

// ---------------------------------------------------------------------------------------------
// List level
// ---------------------------------------------------------------------------------------------

/// Install `bytes` through the decoder. A refusal is a fixture failure: the statement promises decoding of
/// the library's own encoded form, not of the harness' gzip stream.
fn install(bytes: &[u8]) -> Result<StatusList2021, Viol> {
  let encoded = status_list_encode(bytes);
  match catch(|| StatusList2021::try_from_encoded_str(&encoded)) {
    Ok(Ok(l)) => Ok(l),
    Ok(Err(e)) => Err(Viol::fixture(format!("harness-encoded list of {} bytes rejected: {e}", bytes.len()))),
    Err(p) => Err(Viol::fixture(format!("try_from_encoded_str panicked on a harness-encoded list: {}", p.msg))),
  }
}

/// Entries of the byte holding `idx` and of its two neighbour bytes.
fn window(len: usize, idx: usize) -> std::ops::Range<usize> {
  let b = idx / 8;
  (b.saturating_sub(1) * 8)..((b + 2) * 8).min(len)
}

/// `(index, model, actual)` for every entry in `range` whose `get` differs from the model.
/// `Ok(None)`: a tolerated violation was recorded and the case cannot go on.
fn diff(
  list: &StatusList2021,
  model: &[bool],
  range: std::ops::Range<usize>,
  obs: &mut Obs,
) -> Result<Option<Vec<(usize, bool, bool)>>, Viol> {
  let mut out = Vec::new();
  for i in range {
    match catch(|| list.get(i)) {
      Ok(Ok(actual)) => {
        if actual != model[i] {
          out.push((i, model[i], actual));
        }
      }
      Ok(Err(e)) => {
        obs.fail("get-in-range-errors", format!("get({i}) on a list of {} entries: {e}", model.len()))?;
        return Ok(None);
      }
      Err(p) => {
        obs.fail("get-panics", format!("get({i}) on a list of {} entries panicked: {}", model.len(), p.msg))?;
        return Ok(None);
      }
    }
  }
  Ok(Some(out))
}

fn describe(m: &[(usize, bool, bool)]) -> String {
  let shown: Vec<String> = m
    .iter()
    .take(12)
    .map(|(i, model, actual)| format!("entry {i}: expected {model}, reads {actual}"))
    .collect();
  format!("{}{}", shown.join("; "), if m.len() > 12 { format!("; … ({} in total)", m.len()) } else { String::new() })
}

/// Every mismatch is a set entry of lower bit offset in the byte of a `false` write that now reads clear.
fn is_clear_lower_shape(writes: &[Write], m: &[(usize, bool, bool)]) -> bool {
  !m.is_empty()
    && m.iter().all(|(j, model, actual)| {
      *model
        && !*actual
        && writes
          .iter()
          .any(|w| !w.value && (w.idx as usize) / 8 == j / 8 && j % 8 < (w.idx as usize) % 8)
    })
}

/// The list must hold exactly the entries the harness encoded.
fn check_installed(list: &StatusList2021, model: &[bool], range: std::ops::Range<usize>, obs: &mut Obs) -> Result<bool, Viol> {
  let Some(m) = diff(list, model, range, obs)? else {
    return Ok(false);
  };
  if !m.is_empty() {
    obs.fail(
      "decoded-content-differs",
      format!("list decoded from a harness-encoded bitstring (entry i = bit 7-i%8 of byte i/8): {}", describe(&m)),
    )?;
    return Ok(false);
  }
  Ok(true)
}

/// One `set` with all checks. Returns `false` when the case cannot go on.
fn write_step(list: &mut StatusList2021, model: &mut [bool], w: Write, obs: &mut Obs) -> Result<bool, Viol> {
  let len = model.len();
  let idx = w.idx as usize;
  let res = match catch(|| list.set(idx, w.value)) {
    Ok(r) => r,
    Err(p) => {
      obs.fail("set-panics", format!("set({idx}, {}) on {len} entries panicked: {}", w.value, p.msg))?;
      return Ok(false);
    }
  };
  if w.idx >= len as u64 {
    obs.label("oob-rejected");
    vensure!(
      obs,
      res.is_err(),
      "set-out-of-range-accepted",
      "set({idx}, {}) on a list of {len} entries returned Ok",
      w.value
    );
    match catch(|| list.get(idx)) {
      Ok(r) => vensure!(obs, r.is_err(), "get-out-of-range-accepted", "get({idx}) on a list of {len} entries returned {r:?}"),
      Err(p) => vfail!(obs, SIG_GET_OOB_PANIC, "get({idx}) on a list of {len} entries panicked instead of returning an error: {}", p.msg),
    }
    // nothing may have changed; where a wrapped index would land is the most likely victim
    let Some(mut m) = diff(list, model, window(len, idx % len), obs)? else {
      return Ok(false);
    };
    m.extend(diff(list, model, window(len, len - 1), obs)?.unwrap_or_default());
    if !m.is_empty() {
      obs.fail("rejected-write-changes-list", format!("set({idx}, {}) was rejected but {}", w.value, describe(&m)))?;
      return Ok(false);
    }
    return Ok(true);
  }
  if let Err(e) = res {
    obs.fail("set-in-range-errors", format!("set({idx}, {}) on a list of {len} entries: {e}", w.value))?;
    return Ok(false);
  }
  let byte = &model[idx / 8 * 8..idx / 8 * 8 + 8];
  if byte.iter().enumerate().any(|(o, b)| *b && o != idx % 8) {
    obs.nontrivial();
    obs.label(if w.value { "set-with-other-bits" } else { "clear-with-other-bits" });
  }
  model[idx] = w.value;
  let Some(m) = diff(list, model, window(len, idx), obs)? else {
    return Ok(false);
  };
  if m.is_empty() {
    return Ok(true);
  }
  let sig = if is_clear_lower_shape(&[w], &m) {
    SIG_CLEAR_LOWER
  } else if m.iter().any(|(j, ..)| *j == idx) {
    "written-entry-reads-back-wrong"
  } else {
    "write-disturbs-other-entry"
  };
  obs.fail(sig, format!("after set({idx}, {}) on {len} entries: {}", w.value, describe(&m)))?;
  // tolerated known finding: adopt what the list now holds so that later steps are judged on their own
  for (j, _, actual) in m {
    model[j] = actual;
  }
  Ok(true)
}

/// Encoded form: independent reading equals the model, and the library reads it back as the identical list.
fn roundtrip(list: &StatusList2021, model: &[bool], obs: &mut Obs) -> CheckResult {
  obs.label("roundtrip");
  let encoded = match catch(|| list.clone().into_encoded_str()) {
    Ok(s) => s,
    Err(p) => return obs.fail("encode-panics", format!("into_encoded_str panicked: {}", p.msg)),
  };
  match status_list_decode(&encoded) {
    None => vfail!(
      obs,
      "encoded-form-unreadable",
      "into_encoded_str output is not base64 of a gzip stream: {}",
      short(&encoded, 80)
    ),
    Some(bytes) => {
      let want = pack_msb_first(model);
      if bytes != want {
        let at = bytes.iter().zip(&want).position(|(a, b)| a != b);
        vfail!(
          obs,
          "encoded-form-wrong-content",
          "encoded bitstring has {} bytes, model {}; first differing byte {:?} (encoded {:?}, model {:?})",
          bytes.len(),
          want.len(),
          at,
          at.map(|i| bytes[i]),
          at.map(|i| want[i])
        );
      }
    }
  }
  match catch(|| StatusList2021::try_from_encoded_str(&encoded)) {
    Ok(Ok(back)) => vensure!(
      obs,
      &back == list && back.len() == list.len(),
      "roundtrip-not-identical",
      "try_from_encoded_str(into_encoded_str(l)) != l (lengths {} / {})",
      back.len(),
      list.len()
    ),
    Ok(Err(e)) => vfail!(obs, "roundtrip-decode-fails", "own encoded form rejected: {}", short(&e.to_string(), 120)),
    Err(p) => vfail!(obs, "decode-panics", "try_from_encoded_str panicked on own output: {}", p.msg),
  }
  Ok(())
}

fn full_scan(list: &StatusList2021, model: &[bool], obs: &mut Obs) -> CheckResult {
  vensure!(
    obs,
    list.len() == model.len(),
    "len-changed",
    "len() is {} after the writes, was {}",
    list.len(),
    model.len()
  );
  if let Some(m) = diff(list, model, 0..model.len().min(list.len()), obs)? {
    vensure!(obs, m.is_empty(), "final-scan-differs", "full scan after the sequence: {}", describe(&m));
  }
  Ok(())
}

// ---------------------------------------------------------------------------------------------
// Credential level
// ---------------------------------------------------------------------------------------------

const LIST_URL: &str = "https://example.com/credentials/status/3";
const OTHER_LIST_URL: &str = "https://example.com/credentials/status/4";

#[derive(Debug, Clone, Copy, PartialEq, Eq)]
enum Reported {
  Valid,
  Revoked,
  Suspended,
  OtherError,
}

fn reported(r: &Result<(), JwtValidationError>) -> Reported {
  match r {
    Ok(()) => Reported::Valid,
    Err(JwtValidationError::Revoked) => Reported::Revoked,
    Err(JwtValidationError::Suspended) => Reported::Suspended,
    Err(_) => Reported::OtherError,
  }
}

fn set_report(p: Purpose) -> Reported {
  match p {
    Purpose::Revocation => Reported::Revoked,
    Purpose::Suspension => Reported::Suspended,
  }
}

/// The bitstring currently stored in the credential, read by the harness from `credentialSubject.encodedList`.
fn stored_bitstring(slc: &StatusList2021Credential) -> Option<Vec<u8>> {
  let cred: Credential = slc.clone().into_inner();
  let OneOrMany::One(subject) = &cred.credential_subject else {
    return None;
  };
  status_list_decode(subject.properties.get("encodedList")?.as_str()?)
}

/// Compare the stored bitstring with the model after an operation that applied `applied`; classify differences.
fn check_stored(
  slc: &StatusList2021Credential,
  model: &mut Vec<bool>,
  purpose: Purpose,
  applied: &[Write],
  what: &str,
  obs: &mut Obs,
) -> Result<bool, Viol> {
  let Some(bytes) = stored_bitstring(slc) else {
    obs.fail("credential-encoded-list-unreadable", format!("after {what}: encodedList is not base64(gzip(bitstring))"))?;
    return Ok(false);
  };
  if bytes.len() * 8 != model.len() {
    obs.fail(
      "credential-list-length-changed",
      format!("after {what}: stored list has {} entries, had {}", bytes.len() * 8, model.len()),
    )?;
    return Ok(false);
  }
  let actual = unpack_msb_first(&bytes);
  let m: Vec<(usize, bool, bool)> = (0..model.len())
    .filter(|i| actual[*i] != model[*i])
    .map(|i| (i, model[i], actual[i]))
    .collect();
  if m.is_empty() {
    return Ok(true);
  }
  let sig = if is_clear_lower_shape(applied, &m) {
    SIG_CRED_CLEAR_LOWER
  } else if purpose == Purpose::Revocation && m.iter().any(|(_, model, actual)| *model && !*actual) {
    "revocation-entry-cleared"
  } else if m.iter().any(|(j, ..)| applied.iter().any(|w| w.idx as usize == *j)) {
    "credential-written-entry-wrong"
  } else {
    "credential-write-disturbs-other-entry"
  };
  obs.fail(sig, format!("{purpose:?} list after {what}: {}", describe(&m)))?;
  *model = actual;
  Ok(true)
}

fn expect_entry(slc: &StatusList2021Credential, model: &[bool], purpose: Purpose, idx: u64, obs: &mut Obs) -> CheckResult {
  let r = match catch(|| slc.entry(idx as usize)) {
    Ok(r) => r,
    Err(p) if idx >= model.len() as u64 => {
      return obs.fail(SIG_CRED_OOB_PANIC, format!("entry({idx}) on {} entries panicked instead of returning an error: {}", model.len(), p.msg))
    }
    Err(p) => return obs.fail("entry-panics", format!("entry({idx}) panicked: {}", p.msg)),
  };
  if idx >= model.len() as u64 {
    vensure!(obs, r.is_err(), "entry-out-of-range-accepted", "entry({idx}) on {} entries gave {r:?}", model.len());
    return Ok(());
  }
  let want = match (model[idx as usize], purpose) {
    (false, _) => CredentialStatus::Valid,
    (true, Purpose::Revocation) => CredentialStatus::Revoked,
    (true, Purpose::Suspension) => CredentialStatus::Suspended,
  };
  vensure!(
    obs,
    r.as_ref().ok() == Some(&want),
    "entry-status-wrong",
    "entry({idx}) of a {purpose:?} list is {r:?}, the entry is {} so it must be {want:?}",
    if model[idx as usize] { "set" } else { "clear" }
  );
  Ok(())
}

fn check_cred(purpose: Purpose, fragment: bool, init: Init, ops: &[CredOp], obs: &mut Obs) -> CheckResult {
  let bytes = init_bytes((MIN_ENTRIES / 8) as usize, init);
  let list = match init {
    Init::Zero => fixture!(StatusList2021::new(MIN_ENTRIES as usize), "StatusList2021::new"),
    _ => install(&bytes)?,
  };
  let mut model = unpack_msb_first(&bytes);
  let subject_id = fixture!(
    Url::parse(if fragment { format!("{LIST_URL}#list") } else { LIST_URL.to_string() }),
    "subject id"
  );
  let issuer = fixture!(Url::parse("https://example.com/issuer"), "issuer url");
  let mut slc: StatusList2021Credential = fixture!(
    StatusList2021CredentialBuilder::new(list)
      .purpose(purpose.lib())
      .subject_id(subject_id)
      .issuer(Issuer::Url(issuer.clone()))
      .build(),
    "StatusList2021CredentialBuilder::build"
  );
  let mut credential: Credential = fixture!(
    CredentialBuilder::new(Object::new())
      .id(fixture!(Url::parse("https://example.com/credentials/3732"), "credential id"))
      .issuer(Issuer::Url(issuer))
      .type_("UniversityDegreeCredential")
      .subject(Subject::with_id(fixture!(Url::parse("did:example:ebfeb1f712ebc6f1c276e12ec21"), "subject")))
      .build(),
    "CredentialBuilder::build"
  );
  obs.label(format!("{purpose:?}").to_lowercase());
  if fragment {
    obs.label("fragment-id");
  }
  if !check_stored(&slc, &mut model, purpose, &[], "build", obs)? {
    return Ok(());
  }
  let len = model.len() as u64;

  for op in ops {
    match op {
      CredOp::SetStatus { idx, value, validate } => {
        let w = Write { idx: *idx, value: *value };
        let what = format!("set_credential_status(_, {idx}, {value})");
        let r = match catch(|| slc.set_credential_status(&mut credential, *idx as usize, *value)) {
          Ok(r) => r,
          Err(p) if *idx >= len => {
            // the panic happens before anything is written; a tolerated run goes on with the next operation
            obs.fail(SIG_CRED_OOB_PANIC, format!("{what} on {len} entries panicked instead of returning an error: {}", p.msg))?;
            if !check_stored(&slc, &mut model, purpose, &[], &what, obs)? {
              return Ok(());
            }
            continue;
          }
          Err(p) => return obs.fail("set-credential-status-panics", format!("{what} panicked: {}", p.msg)),
        };
        let mut applied: Vec<Write> = Vec::new();
        if *idx >= len {
          obs.label("oob-rejected");
          vensure!(obs, r.is_err(), "credential-set-out-of-range-accepted", "{what} on {len} entries returned Ok");
        } else if purpose == Purpose::Revocation && !*value && model[*idx as usize] {
          obs.label("unrevoke-refused");
          obs.nontrivial();
          vensure!(
            obs,
            r.is_err(), // which error says "cannot be cleared" is not stated; that the entry stays set is checked on the stored list
            "revocation-cleared-on-request",
            "{what} on a revocation list whose entry {idx} is set returned {:?}",
            r.as_ref().map(|_| ())
          );
        } else {
          if purpose == Purpose::Suspension && !*value && model[*idx as usize] {
            obs.label("unsuspend-ok");
            obs.nontrivial();
          }
          match &r {
            Ok(entry) => {
              model[*idx as usize] = *value;
              applied.push(w);
              let status: Status = entry.clone().into();
              vensure!(
                obs,
                entry.index() == *idx as usize
                  && entry.purpose() == purpose.lib()
                  && credential.credential_status.as_ref() == Some(&status),
                "credential-status-entry-wrong",
                "{what} returned entry index {} purpose {} / credentialStatus {:?}",
                entry.index(),
                entry.purpose(),
                credential.credential_status
              );
            }
            Err(e) => vfail!(obs, "credential-set-refused", "{what} on a {purpose:?} list failed: {e}"),
          }
        }
        if !check_stored(&slc, &mut model, purpose, &applied, &what, obs)? {
          return Ok(());
        }
        expect_entry(&slc, &model, purpose, *idx, obs)?;
        if let (Some(c), true) = (validate, r.is_ok()) {
          // the credential now carries the entry the library itself made for this list
          let check = status_check(*c);
          let rep = match catch(|| JwtCredentialValidatorUtils::check_status_with_status_list_2021(&credential, &slc, check)) {
            Ok(r) => reported(&r),
            Err(p) => return obs.fail("validator-panics", format!("check_status_with_status_list_2021 panicked: {}", p.msg)),
          };
          let set = *idx < len && model[*idx as usize];
          if check == StatusCheck::SkipAll {
            vensure!(obs, rep == Reported::Valid, "validator-reports-under-skip-all", "SkipAll reported {rep:?}");
          } else if set {
            if fragment && rep == Reported::OtherError {
              vfail!(
                obs,
                SIG_FRAGMENT_ID,
                "entry {idx} is set in the {purpose:?} list that issued the credential's status (subject id with fragment), \
                 but the validator reports an unrelated error instead of {:?}",
                set_report(purpose)
              );
            } else {
              vensure!(
                obs,
                rep == set_report(purpose),
                "validator-misses-set-entry",
                "entry {idx} is set in the {purpose:?} list that issued the credential's status, validator reported {rep:?}"
              );
              obs.label(format!("reported-{:?}", rep).to_lowercase());
            }
          } else {
            vensure!(
              obs,
              rep != Reported::Revoked && rep != Reported::Suspended,
              "validator-reports-clear-entry",
              "entry {idx} is clear, validator reported {rep:?}"
            );
            obs.label("reported-not-set");
          }
        }
      }
      CredOp::Update { writes } => {
        // while the out-of-range panic is a tolerated known finding, leave those writes out so that the others still run
        let has_oob = writes.iter().any(|w| w.idx >= len);
        let filtered: Vec<Write>;
        let writes: &Vec<Write> = if has_oob && obs.is_known(SIG_CRED_OOB_PANIC) {
          obs.excluded(SIG_CRED_OOB_PANIC);
          filtered = writes.iter().copied().filter(|w| w.idx < len).collect();
          &filtered
        } else {
          writes
        };
        let what = format!("update({} writes)", writes.len());
        let mut results: Vec<Result<(), StatusList2021CredentialError>> = Vec::new();
        let r = match catch(|| {
          slc.update(|l| {
            for w in writes {
              results.push(l.set_entry(w.idx as usize, w.value));
            }
            Ok(())
          })
        }) {
          Ok(r) => r,
          Err(p) if has_oob => {
            return obs.fail(SIG_CRED_OOB_PANIC, format!("{what} with an index >= {len} panicked instead of set_entry returning an error: {}", p.msg))
          }
          Err(p) => return obs.fail("update-panics", format!("{what} panicked: {}", p.msg)),
        };
        if let Err(e) = r {
          return obs.fail("update-fails", format!("{what} with a closure returning Ok failed: {e}"));
        }
        let mut applied: Vec<Write> = Vec::new();
        for (w, r) in writes.iter().zip(&results) {
          if w.idx >= len {
            vensure!(obs, r.is_err(), "credential-set-out-of-range-accepted", "set_entry({}, {}) on {len} entries returned Ok", w.idx, w.value);
          } else if purpose == Purpose::Revocation
            && !w.value
            && model[w.idx as usize]
            && r.is_ok()
            && applied.iter().any(|a: &Write| !a.value && a.idx / 8 == w.idx / 8 && a.idx % 8 > w.idx % 8)
          {
            // the entry was already cleared by an earlier `false` write of this update to a higher offset of the byte
            obs.fail(
              SIG_CRED_CLEAR_LOWER,
              format!(
                "Revocation list, {what}: set_entry({}, false) on a revoked entry returned Ok because an earlier set_entry(_, false) \
                 on the same byte had already cleared it",
                w.idx
              ),
            )?;
            model[w.idx as usize] = false;
            applied.push(*w);
          } else if purpose == Purpose::Revocation && !w.value && model[w.idx as usize] {
            obs.label("unrevoke-refused");
            obs.nontrivial();
            vensure!(
              obs,
              r.is_err(), // which error says "cannot be cleared" is not stated; that the entry stays set is checked on the stored list
              "revocation-cleared-on-request",
              "MutStatusList::set_entry({}, false) on a revocation list whose entry is set returned {r:?}",
              w.idx
            );
          } else {
            if purpose == Purpose::Suspension && !w.value && model[w.idx as usize] {
              obs.label("unsuspend-ok");
              obs.nontrivial();
            }
            vensure!(obs, r.is_ok(), "credential-set-refused", "MutStatusList::set_entry({}, {}) on a {purpose:?} list: {r:?}", w.idx, w.value);
            if r.is_ok() {
              model[w.idx as usize] = w.value;
              applied.push(*w);
            }
          }
        }
        if !check_stored(&slc, &mut model, purpose, &applied, &what, obs)? {
          return Ok(());
        }
        for w in writes.iter().take(4) {
          expect_entry(&slc, &model, purpose, w.idx, obs)?;
        }
      }
      CredOp::Entry { idx } => expect_entry(&slc, &model, purpose, *idx, obs)?,
      CredOp::Validate { idx, purpose_match, list_match, check } => {
        let check = status_check(*check);
        // statusListCredential of a spec-conformant entry is the URL of the status-list credential
        let list_url = if *list_match {
          match &slc.id {
            Some(u) => u.clone(),
            None => return Err(Viol::fixture("status-list credential has no id".to_string())),
          }
        } else {
          fixture!(Url::parse(OTHER_LIST_URL), "other list url")
        };
        let entry_purpose = if *purpose_match { purpose } else { purpose.other() };
        let mut c = credential.clone();
        let status: Status = match catch(|| StatusList2021Entry::new(list_url, entry_purpose.lib(), *idx as usize, None).into()) {
          Ok(s) => s,
          Err(p) => return Err(Viol::fixture(format!("StatusList2021Entry -> Status panicked: {}", p.msg))),
        };
        c.credential_status = Some(status);
        let rep = match catch(|| JwtCredentialValidatorUtils::check_status_with_status_list_2021(&c, &slc, check)) {
          Ok(r) => reported(&r),
          Err(p) if *idx >= len => {
            obs.fail(
              SIG_VALIDATOR_OOB_PANIC,
              format!("check_status_with_status_list_2021 panicked for a credential whose statusListIndex {idx} is beyond the {len} entries of the list: {}", p.msg),
            )?;
            continue;
          }
          Err(p) => return obs.fail("validator-panics", format!("check_status_with_status_list_2021 panicked: {}", p.msg)),
        };
        let set = *idx < len && model[*idx as usize];
        let what = format!(
          "entry {idx} ({}) of the {purpose:?} list, credential entry purpose {entry_purpose:?}, list {}, {check:?}",
          if set { "set" } else { "clear" },
          if *list_match { "matching" } else { "different" }
        );
        if check == StatusCheck::SkipAll {
          vensure!(obs, rep == Reported::Valid, "validator-reports-under-skip-all", "{what}: reported {rep:?}");
          obs.label("skip-all");
        } else if set && *purpose_match && *list_match {
          vensure!(obs, rep == set_report(purpose), "validator-misses-set-entry", "{what}: reported {rep:?}");
          obs.label(format!("reported-{:?}", rep).to_lowercase());
          obs.nontrivial();
        } else {
          let sig = if !*purpose_match {
            "validator-ignores-purpose-mismatch"
          } else if !*list_match {
            "validator-ignores-list-mismatch"
          } else {
            "validator-reports-clear-entry"
          };
          vensure!(obs, rep != Reported::Revoked && rep != Reported::Suspended, sig, "{what}: reported {rep:?}");
          obs.label(if *purpose_match && *list_match { "reported-not-set" } else { "mismatch-not-reported" });
        }
        // The verifier's route: the status-list credential arrives as JSON, and the credential's status entry is the
        // W3C spelling (statusListIndex as a string) written by someone else. The verdict has to be the same.
        if check != StatusCheck::SkipAll && *idx < len {
          let reloaded = catch(|| slc.to_json().and_then(|j| StatusList2021Credential::from_json(&j)));
          let literal: Status = fixture!(
            Status::from_json_value(json!({
              "id": format!("{}#{idx}", c.credential_status.as_ref().map(|s| s.id.as_str().split('#').next().unwrap_or("").to_string()).unwrap_or_default()),
              "type": "StatusList2021Entry",
              "statusPurpose": if entry_purpose == Purpose::Revocation { "revocation" } else { "suspension" },
              "statusListIndex": idx.to_string(),
              "statusListCredential": c.credential_status.as_ref().and_then(|s| s.properties.get("statusListCredential").cloned()).unwrap_or(Value::Null),
            })),
            "literal status entry"
          );
          let mut c_literal = c.clone();
          c_literal.credential_status = Some(literal);
          match reloaded {
            Ok(Ok(slc2)) => {
              for (route, cred, list) in [("reloaded list credential", &c, &slc2), ("literal status entry", &c_literal, &slc), ("both", &c_literal, &slc2)] {
                let rep2 = match catch(|| JwtCredentialValidatorUtils::check_status_with_status_list_2021(cred, list, check)) {
                  Ok(r) => reported(&r),
                  Err(p) => return obs.fail("validator-panics", format!("check_status_with_status_list_2021 ({route}) panicked: {}", p.msg)),
                };
                vensure!(
                  obs,
                  rep2 == rep,
                  "validator-verdict-depends-on-route",
                  "{what}: reported {rep:?} for the values the library built and {rep2:?} with the {route} read from JSON"
                );
              }
              obs.label("validated-through-json-routes");
            }
            Ok(Err(e)) => vfail!(obs, "credential-own-json-rejected", "{what}: the status-list credential's own JSON does not read back: {e}"),
            Err(p) => vfail!(obs, "validator-panics", "reloading the status-list credential panicked: {}", p.msg),
          }
        }
      }
    }
  }
  Ok(())
}

// ---------------------------------------------------------------------------------------------
// check
// ---------------------------------------------------------------------------------------------

pub fn check(case: &Case, obs: &mut Obs) -> CheckResult {
  match case {
    Case::Byte { byte, offset, value, pos } => {
      let n_bytes = (MIN_ENTRIES / 8) as usize;
      let pos = (*pos as usize).min(n_bytes - 1);
      let offset = (*offset % 8) as usize;
      let mut bytes = background(n_bytes);
      bytes[pos] = *byte;
      let mut model = unpack_msb_first(&bytes);
      let mut list = install(&bytes)?;
      vensure!(obs, list.len() == model.len(), "decoded-length-differs", "decoded {} entries from {n_bytes} bytes", list.len());
      let idx = pos * 8 + offset;
      if !check_installed(&list, &model, window(model.len(), idx), obs)? {
        return Ok(());
      }
      obs.label(if *value { "set" } else { "clear" });
      if !write_step(&mut list, &mut model, Write { idx: idx as u64, value: *value }, obs)? {
        return Ok(());
      }
      // the whole list, through the encoder and the harness' own reader
      roundtrip(&list, &model, obs)
    }
    Case::New { entries } => {
      let r = match catch(|| StatusList2021::new(*entries as usize)) {
        Ok(r) => r,
        Err(p) => return obs.fail("new-panics", format!("new({entries}) panicked: {}", p.msg)),
      };
      match r {
        Err(_) => {
          obs.label(if *entries < MIN_ENTRIES { "new-rejected-below-minimum" } else { "new-rejected" });
          Ok(())
        }
        Ok(list) => {
          obs.label(if *entries < MIN_ENTRIES { "new-accepted-below-minimum" } else { "new-accepted" });
          if *entries % 8 != 0 {
            obs.nontrivial();
          }
          let len = list.len() as u64;
          vensure!(obs, len >= *entries, "new-len-smaller-than-requested", "new({entries}).len() = {len}");
          // the rustdoc says "next multiple of 8"; the statement only needs a fixed length that holds the entries
          obs.label(if len == round_up8(*entries) { "new-len-rounded-up-to-8" } else { "new-len-other" });
          let model = vec![false; len as usize];
          full_scan(&list, &model, obs)?;
          for i in [len, len + 1, len + 7, u64::MAX] {
            match catch(|| list.clone().set(i as usize, true)) {
              Ok(s) => vensure!(obs, s.is_err(), "set-out-of-range-accepted", "set({i}, true) on a list of {len} entries returned Ok"),
              Err(p) => vfail!(obs, "set-panics", "set({i}, true) on {len} entries panicked: {}", p.msg),
            }
            match catch(|| list.get(i as usize)) {
              Ok(g) => vensure!(obs, g.is_err(), "get-out-of-range-accepted", "get({i}) on a list of {len} entries returned {g:?}"),
              Err(p) => vfail!(obs, SIG_GET_OOB_PANIC, "get({i}) on a list of {len} entries panicked instead of returning an error: {}", p.msg),
            }
          }
          roundtrip(&list, &model, obs)
        }
      }
    }
    Case::Seq { entries, init, writes, encode_every } => {
      let len = round_up8(*entries) as usize;
      let bytes = init_bytes(len / 8, *init);
      let mut model = unpack_msb_first(&bytes);
      let mut list = match init {
        Init::Zero => match catch(|| StatusList2021::new(*entries as usize)) {
          Ok(Ok(l)) => l,
          Ok(Err(_)) => {
            obs.discard("size-not-permitted");
            return Ok(());
          }
          Err(p) => return obs.fail("new-panics", format!("new({entries}) panicked: {}", p.msg)),
        },
        _ => install(&bytes)?,
      };
      obs.label(match init {
        Init::Zero => "init-zero",
        Init::Ones => "init-ones",
        Init::Pattern { .. } => "init-pattern",
      });
      obs.label(if *entries == MIN_ENTRIES {
        "size-minimum"
      } else if *entries % 8 != 0 {
        "size-not-multiple-of-8"
      } else {
        "size-larger"
      });
      // A decoded list has exactly the bits of its bytes; a new one has at least the entries asked for (the rustdoc
      // rounds up to a multiple of 8, which the statement does not require) and is empty.
      let len = if matches!(init, Init::Zero) {
        vensure!(
          obs,
          list.len() >= *entries as usize,
          "new-len-smaller-than-requested",
          "new({entries}).len() = {}",
          list.len()
        );
        model = vec![false; list.len()];
        list.len()
      } else {
        vensure!(
          obs,
          list.len() == len,
          "initial-length-differs",
          "list for {entries} entries ({init:?}) has len() {}, expected {len}",
          list.len()
        );
        len
      };
      // spot-check the installed content now (first/last bytes); the final scan covers everything that was not written
      if !check_installed(&list, &model, 0..16, obs)? || !check_installed(&list, &model, len - 16..len, obs)? {
        return Ok(());
      }
      for (k, w) in writes.iter().enumerate() {
        if !write_step(&mut list, &mut model, *w, obs)? {
          return Ok(());
        }
        if *encode_every > 0 && (k + 1) % *encode_every as usize == 0 {
          roundtrip(&list, &model, obs)?;
        }
      }
      full_scan(&list, &model, obs)?;
      roundtrip(&list, &model, obs)
    }
    Case::Cred { purpose, fragment, init, ops } => check_cred(*purpose, *fragment, *init, ops, obs),
  }
}

// ---------------------------------------------------------------------------------------------
// Generators
// ---------------------------------------------------------------------------------------------

/// (byte value 0..=255) × (bit offset 0..8) × (written value) × 3 byte positions (first, middle, last).
fn byte_sweep() -> impl Iterator<Item = Case> {
  let last = (MIN_ENTRIES / 8 - 1) as u32;
  [0u32, last / 2, last].into_iter().flat_map(|pos| {
    (0u16..256).flat_map(move |byte| {
      (0u8..8).flat_map(move |offset| {
        [false, true].into_iter().map(move |value| Case::Byte {
          byte: byte as u8,
          offset,
          value,
          pos,
        })
      })
    })
  })
}

fn new_grid() -> impl Iterator<Item = Case> {
  [0u64, 1, 7, 8, 100, 1 << 16]
    .into_iter()
    .chain(MIN_ENTRIES - 9..=MIN_ENTRIES + 17)
    .chain([(1 << 20) - 1, 1 << 20, (1 << 20) + 1])
    .map(|entries| Case::New { entries })
}

fn init_strategy() -> impl Strategy<Value = Init> {
  prop_oneof![
    3 => Just(Init::Zero),
    2 => Just(Init::Ones),
    5 => (any::<u64>(), 0u8..4).prop_map(|(seed, kind)| Init::Pattern { seed, kind }),
  ]
}

/// How one index is chosen relative to the list (resolved to an absolute index when the case is built).
#[derive(Debug, Clone)]
enum Pick {
  /// bit `offset` of hot byte number `k`
  Hot(u8, u8),
  /// anywhere: fraction of the list
  Frac(u32),
  /// distance from the start / from the end
  Edge(bool, u8),
  /// `len + d`, or one of the extreme values
  Beyond(u8),
}

fn pick_strategy(oob_weight: u32) -> impl Strategy<Value = Pick> {
  prop_oneof![
    14 => (0u8..3, 0u8..8).prop_map(|(k, o)| Pick::Hot(k, o)),
    3 => any::<u32>().prop_map(Pick::Frac),
    2 => (any::<bool>(), 0u8..17).prop_map(|(end, d)| Pick::Edge(end, d)),
    oob_weight => (0u8..12).prop_map(Pick::Beyond),
  ]
}

fn resolve(p: &Pick, len: u64, hot: &[u32]) -> u64 {
  match p {
    Pick::Hot(k, o) => {
      let byte = hot[*k as usize % hot.len()] as u64 * (len / 8) >> 32;
      byte * 8 + *o as u64
    }
    Pick::Frac(f) => *f as u64 * len >> 32,
    Pick::Edge(false, d) => (*d as u64).min(len - 1),
    Pick::Edge(true, d) => len - 1 - (*d as u64).min(len - 1),
    Pick::Beyond(d) => match d {
      0..=8 => len + *d as u64,
      9 => u32::MAX as u64 + 1,
      10 => u64::MAX - 7,
      _ => u64::MAX,
    },
  }
}

fn entries_strategy(max_entries: u64) -> impl Strategy<Value = u64> {
  prop_oneof![
    4 => Just(MIN_ENTRIES),
    3 => MIN_ENTRIES + 1..=MIN_ENTRIES + 16,
    2 => MIN_ENTRIES..=MIN_ENTRIES * 2,
    1 => MIN_ENTRIES..=max_entries,
  ]
}

fn seq_strategy(max_entries: u64, max_writes: usize) -> impl Strategy<Value = Case> {
  (
    entries_strategy(max_entries),
    init_strategy(),
    prop::collection::vec(any::<u32>(), 1..=3),
    prop::collection::vec((pick_strategy(1), prop::bool::weighted(0.45)), 1..=max_writes),
    prop_oneof![Just(0u8), Just(10u8), 1u8..40],
  )
    .prop_map(|(entries, init, hot, picks, encode_every)| {
      let len = round_up8(entries);
      // a round trip costs a best-level gzip of the whole list: for big lists only the one at the end of the sequence
      let encode_every = if len > 1 << 18 { 0 } else { encode_every };
      let writes = picks
        .iter()
        .map(|(p, value)| Write {
          idx: resolve(p, len, &hot),
          value: *value,
        })
        .collect();
      Case::Seq {
        entries,
        init,
        writes,
        encode_every,
      }
    })
}

fn cred_strategy(max_ops: usize) -> impl Strategy<Value = Case> {
  #[derive(Debug, Clone)]
  enum OpPick {
    SetStatus(Pick, bool, Option<u8>),
    Update(Vec<(Pick, bool)>),
    Entry(Pick),
    Validate(Pick, bool, bool, u8),
  }
  let value = || prop::bool::weighted(0.5);
  let op = prop_oneof![
    5 => (pick_strategy(1), value(), prop::option::weighted(0.4, 0u8..3)).prop_map(|(p, v, c)| OpPick::SetStatus(p, v, c)),
    3 => prop::collection::vec((pick_strategy(1), value()), 1..=6).prop_map(OpPick::Update),
    1 => pick_strategy(1).prop_map(OpPick::Entry),
    4 => (pick_strategy(1), prop::bool::weighted(0.8), prop::bool::weighted(0.8), prop_oneof![4 => 0u8..2, 1 => Just(2u8)])
      .prop_map(|(p, pm, lm, c)| OpPick::Validate(p, pm, lm, c)),
  ];
  (
    prop_oneof![Just(Purpose::Revocation), Just(Purpose::Suspension)],
    prop::bool::weighted(0.25),
    prop_oneof![
      3 => Just(Init::Zero),
      1 => Just(Init::Ones),
      3 => (any::<u64>(), prop_oneof![Just(1u8), Just(3u8)]).prop_map(|(seed, kind)| Init::Pattern { seed, kind }),
    ],
    prop::collection::vec(any::<u32>(), 1..=2),
    prop::collection::vec(op, 1..=max_ops),
  )
    .prop_map(|(purpose, fragment, init, hot, ops)| {
      let len = MIN_ENTRIES;
      let ops = ops
        .iter()
        .map(|op| match op {
          OpPick::SetStatus(p, value, validate) => CredOp::SetStatus {
            idx: resolve(p, len, &hot),
            value: *value,
            validate: *validate,
          },
          OpPick::Update(ws) => CredOp::Update {
            writes: ws
              .iter()
              .map(|(p, value)| Write {
                idx: resolve(p, len, &hot),
                value: *value,
              })
              .collect(),
          },
          OpPick::Entry(p) => CredOp::Entry { idx: resolve(p, len, &hot) },
          OpPick::Validate(p, purpose_match, list_match, check) => CredOp::Validate {
            idx: resolve(p, len, &hot),
            purpose_match: *purpose_match,
            list_match: *list_match,
            check: *check,
          },
        })
        .collect();
      Case::Cred {
        purpose,
        fragment,
        init,
        ops,
      }
    })
}

pub fn run(ctx: &mut Ctx) {
  ctx.rule = "exhaustive: (byte value × bit offset × written value) at the first, middle and last byte of a 16 KiB list with \
    non-trivial background, installed through try_from_encoded_str of a harness-encoded list; StatusList2021::new over a size grid; \
    random: write sequences (clustered on ≤ 3 hot bytes, edges, anywhere, out of range) over lists of every size class started from \
    zero / all-ones / pseudo-random content with encode→decode round trips, and histories of set_credential_status / update / entry / \
    validator calls on status-list credentials of both purposes. Oracle: Vec<bool> model; full state compared through the library encoder \
    and the harness' own base64+gzip reader. Non-trivial = a write to a byte in which another entry is set, a refused un-revocation, \
    an un-suspension, a validator call on a set entry with matching list and purpose, or new() with a size that is not a multiple of 8; \
    distinct by case bytes."
    .into();
  ctx.assume("entry i of a list is bit 7-(i%8) of byte i/8 of the uncompressed bitstring (W3C StatusList2021: index 0 is the left-most bit)");
  ctx.assume("harness-encoded lists are base64 (standard alphabet, unpadded — Base::Base64 in status_list.rs) of a gzip stream; the library's own output may use either base64 alphabet");
  ctx.assume("StatusCheck::SkipAll is a documented opt-out: nothing is reported whatever the entry holds");
  ctx.assume("a credential whose entry names a different list or a different purpose must not be reported revoked/suspended; whether the validator answers Ok or an error is not constrained");
  ctx.assume("update(): the closure records set_entry results and returns Ok, so every accepted write is committed (behaviour after a closure error is not constrained by the statement)");

  ctx.exhaustive("byte", byte_sweep, check);
  ctx.exhaustive("new", new_grid, check);
  let max_entries = ctx.pick(1 << 19, 1 << 22);
  let max_writes = ctx.pick(120, 200);
  ctx.proptest("seq", ctx.pick(3_000, 60_000), move || seq_strategy(max_entries, max_writes), check);
  let max_ops = ctx.pick(16, 32);
  ctx.proptest("cred", ctx.pick(2_000, 30_000), move || cred_strategy(max_ops), check);

  ctx.require_class("byte:clear-with-other-bits", 1000);
  ctx.require_class("byte:set-with-other-bits", 1000);
  ctx.require_class("new:new-accepted", 10);
  ctx.require_class("seq:clear-with-other-bits", 100);
  ctx.require_class("seq:oob-rejected", 100);
  ctx.require_class("seq:size-not-multiple-of-8", 100);
  ctx.require_class("seq:init-pattern", 100);
  ctx.require_class("cred:unrevoke-refused", 50);
  ctx.require_class("cred:unsuspend-ok", 50);
  ctx.require_class("cred:reported-revoked", 50);
  ctx.require_class("cred:reported-suspended", 50);
  ctx.require_class("cred:mismatch-not-reported", 50);
  ctx.max_discard_pct(5);
}

pub fn replay(v: &serde_json::Value, obs: &mut Obs) -> Result<CheckResult, String> {
  replay_with::<Case>(v, obs, check)
}
