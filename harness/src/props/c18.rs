//! C18 — JWK public projection, thumbprint and key-type coherence never leak keys.
//!
//! JWKs are described by a `JwkSpec` (declared key type, family of the parameters carried, private subset,
//! optional/unknown/foreign members, member order), rendered to JSON text by the harness and handed to every
//! route that yields a `Jwk`. What the library then says about the key is compared with an independent reading
//! of the same members (`model::jwk_ref`): which members are private, the RFC 7638 thumbprint, the key-type family.

use crate::engine::*;
use crate::fixture;
use crate::model::jwk_ref::*;
use crate::util::b64url;
use crate::util::sha256;
use crate::vensure;
use crate::vfail;
use async_trait::async_trait;
use futures::executor::block_on;
use identity_core::common::Object;
use identity_core::common::Url;
use identity_core::convert::FromJson;
use identity_core::convert::ToJson;
use identity_did::CoreDID;
use identity_did::DIDJwk;
use identity_did::DID;
use identity_document::document::CoreDocument;
use identity_iota_core::IotaDocument;
use identity_iota_core::NetworkName;
use identity_jose::jwk::Jwk;
use identity_jose::jwk::JwkOperation;
use identity_jose::jwk::JwkParams;
use identity_jose::jwk::JwkParamsEc;
use identity_jose::jwk::JwkParamsOct;
use identity_jose::jwk::JwkParamsOkp;
use identity_jose::jwk::JwkParamsRsa;
use identity_jose::jwk::JwkParamsRsaPrime;
use identity_jose::jwk::JwkSet;
use identity_jose::jwk::JwkType;
use identity_jose::jwk::JwkUse;
use identity_jose::jws::JwsAlgorithm;
use identity_storage::JwkDocumentExt;
use identity_storage::JwkGenOutput;
use identity_storage::JwkMemStore;
use identity_storage::JwkStorage;
use identity_storage::KeyId;
use identity_storage::KeyIdMemstore;
use identity_storage::KeyStorageError;
use identity_storage::KeyStorageErrorKind;
use identity_storage::KeyStorageResult;
use identity_storage::KeyType;
use identity_storage::Storage;
use identity_verification::MethodBuilder;
use identity_verification::MethodData;
use identity_verification::MethodScope;
use identity_verification::MethodType;
use identity_verification::VerificationMethod;
use proptest::prelude::*;
use serde::Deserialize;
use serde::Serialize;
use serde_json::json;
use serde_json::Value;

// ---------------------------------------------------------------------------------------------
// Cases
// ---------------------------------------------------------------------------------------------

/// Route by which the rendered JSON becomes a `Jwk`.
#[derive(Debug, Clone, Copy, PartialEq, Eq, Serialize, Deserialize)]
pub enum Route {
  /// `Jwk::from_json(text)` — member order as rendered
  Text,
  /// `Jwk::from_json_value(value)`
  Value,
  /// element 0 of `JwkSet::from_json({"keys":[text]})`
  Set,
}

/// Key parameters of one family (also the argument of `from_params` / `set_params`).
#[derive(Debug, Clone, PartialEq, Eq, Serialize, Deserialize)]
pub struct ParamSpec {
  pub fam: Fam,
  /// index into the family's curve names (ignored for RSA/oct)
  pub crv: u8,
  /// all key material strings are derived from (seed, member name)
  pub seed: u32,
  /// bit i = the i-th private member of the family is present (EC/OKP: d; RSA: d,p,q,dp,dq,qi,oth; oct: unused)
  pub private: u8,
  /// number of entries of RSA "oth" (0 = empty array) when the oth bit is set
  pub oth_len: u8,
}

#[derive(Debug, Clone, PartialEq, Eq, Serialize, Deserialize)]
pub struct JwkSpec {
  /// the "kty" member
  pub kty: Fam,
  /// the parameters carried (`params.fam != kty` is the family-mismatch class)
  pub params: ParamSpec,
  /// additionally carry the required members of this family (as members unknown to the declared key type)
  pub foreign: Option<Fam>,
  pub use_: Option<u8>,
  pub key_ops: Option<Vec<u8>>,
  pub alg: Option<u8>,
  pub kid: Option<u8>,
  pub x5u: bool,
  pub x5c: u8,
  pub x5t: bool,
  pub x5t_s256: bool,
  /// (name index, value kind) of members no specification defines
  pub unknown: Vec<(u8, u8)>,
  /// sort keys applied (cyclically, stable) to the canonical member list; empty = canonical order
  pub order: Vec<u8>,
  pub route: Route,
}

#[derive(Debug, Clone, PartialEq, Eq, Serialize, Deserialize)]
pub enum SetOp {
  New(Fam),
  FromParams(ParamSpec),
  SetKty(Fam),
  /// the checked setter
  SetParams(ParamSpec),
  /// overwrite the parameters in place through `try_<family>_params_mut()` when that accessor agrees to hand them out
  FillMut(ParamSpec),
  /// replace the key by its public projection when there is one
  ToPublic,
  KeyOps(Vec<u8>),
  Kid(u8),
  Alg(u8),
  Use(u8),
}

#[derive(Debug, Clone, Copy, PartialEq, Eq, Serialize, Deserialize)]
pub enum DocKind {
  Core,
  Iota,
}

/// Where `generate_method` gets its key from.
#[derive(Debug, Clone, PartialEq, Eq, Serialize, Deserialize)]
pub enum Source {
  /// the library's `JwkMemStore` (fresh random Ed25519 key)
  MemStore,
  /// a key storage whose `generate` hands out the described JWK as its "public key" (possibly not public at all)
  HandOut(JwkSpec),
}

#[derive(Debug, Clone, Serialize, Deserialize)]
pub enum Case {
  /// A JWK offered through a deserialisation route, then through the projection / thumbprint / constructor battery.
  Json(JwkSpec),
  /// `Jwk::new(first)` followed by constructor/setter calls.
  Setters { first: Fam, ops: Vec<SetOp> },
  /// Key generation: `JwkStorage::generate` output and the document after `generate_method`.
  Generate {
    doc: DocKind,
    /// 0 = VerificationMethod, 1..=5 the verification relationships
    scope: u8,
    fragment: Option<u8>,
    source: Source,
  },
}

// ---------------------------------------------------------------------------------------------
// Rendering a spec (independent of the library)
// ---------------------------------------------------------------------------------------------

const CURVES_EC: [&str; 6] = ["P-256", "P-384", "P-521", "secp256k1", "BLS12381G2", "P-999"];
const CURVES_OKP: [&str; 5] = ["Ed25519", "Ed448", "X25519", "X448", "Ed999"];
const OPS: [&str; 10] = [
  "sign",
  "verify",
  "encrypt",
  "decrypt",
  "wrapKey",
  "unwrapKey",
  "deriveKey",
  "deriveBits",
  "proofGeneration",
  "proofVerification",
];
const ALGS: [&str; 6] = ["EdDSA", "ES256", "ES256K", "RS256", "HS256", "vendor-alg"];
/// The last two are shaped like RFC 7638 thumbprints (43 base64url characters = 32 bytes) of *other* keys: a kid
/// is an optional member and must not influence the thumbprint whatever it looks like.
const KIDS: [&str; 6] = [
  "key-1",
  "2011-04-29",
  "0",
  "k.e_y~9",
  "NzbLsXh8uDCcd-6MNwXF4W_7noWXFZAfHkxZsRGC9Xs",
  "kPrK_qmxVWaYVA9wwBF6Iuo3vVzz7TxHCTwXBygrS4k",
];
const UNKNOWN_NAMES: [&str; 5] = ["ext", "foo", "nbf", "x-vendor", "keyinfo"];
const FRAGMENTS: [&str; 3] = ["key-1", "#signing", "f0"];

fn pick<'a>(table: &'a [&'a str], i: u8) -> &'a str {
  table[i as usize * table.len() / 256]
}

/// Key material for member `name` of family `fam`: base64url of 1..=32 (public) or 16..=32 (private) bytes.
/// Private strings are long so that "this secret occurs in that text" cannot happen by accident.
fn material(seed: u32, fam: Fam, name: &str, private: bool) -> String {
  let h = sha256(format!("c18/{seed}/{}/{name}", fam.kty()).as_bytes());
  let min = if private { 16 } else { 1 };
  let len = min + (h[31] as usize) % (33 - min);
  b64url(&h[..len])
}

fn curve(p: &ParamSpec) -> &'static str {
  match p.fam {
    Fam::Ec => CURVES_EC[p.crv as usize * CURVES_EC.len() / 256],
    Fam::Okp => CURVES_OKP[p.crv as usize * CURVES_OKP.len() / 256],
    Fam::Rsa | Fam::Oct => "",
  }
}

/// Required members of the family (without "kty"): name, value.
fn required_members(p: &ParamSpec) -> Vec<(String, Value)> {
  p.fam
    .required()
    .iter()
    .map(|name| {
      let v = if *name == "crv" {
        curve(p).to_string()
      } else {
        material(p.seed, p.fam, name, p.fam == Fam::Oct)
      };
      (name.to_string(), Value::String(v))
    })
    .collect()
}

/// Names of the private members present according to the spec (`k` counts for oct).
fn private_names(p: &ParamSpec) -> Vec<&'static str> {
  match p.fam {
    Fam::Oct => vec!["k"],
    fam => fam
      .private()
      .iter()
      .enumerate()
      .filter(|(i, _)| p.private & (1 << i) != 0)
      .map(|(_, n)| *n)
      .collect(),
  }
}

fn oth_entries(p: &ParamSpec) -> Vec<(String, String, String)> {
  (0..p.oth_len.min(3))
    .map(|i| {
      (
        material(p.seed, p.fam, &format!("oth{i}r"), true),
        material(p.seed, p.fam, &format!("oth{i}d"), true),
        material(p.seed, p.fam, &format!("oth{i}t"), true),
      )
    })
    .collect()
}

/// Private members (besides oct's required `k`): name, value.
fn private_members(p: &ParamSpec) -> Vec<(String, Value)> {
  if p.fam == Fam::Oct {
    return Vec::new();
  }
  private_names(p)
    .into_iter()
    .map(|name| {
      let v = if name == "oth" {
        Value::Array(
          oth_entries(p)
            .into_iter()
            .map(|(r, d, t)| json!({"r": r, "d": d, "t": t}))
            .collect(),
        )
      } else {
        Value::String(material(p.seed, p.fam, name, true))
      };
      (name.to_string(), v)
    })
    .collect()
}

/// Every string of the spec that is private key material.
fn secrets(p: &ParamSpec) -> Vec<String> {
  let mut out = Vec::new();
  if p.fam == Fam::Oct {
    out.push(material(p.seed, p.fam, "k", true));
  }
  for (_, v) in private_members(p) {
    match v {
      Value::String(s) => out.push(s),
      Value::Array(items) => {
        for item in items {
          for part in ["r", "d", "t"] {
            if let Some(s) = item.get(part).and_then(Value::as_str) {
              out.push(s.to_string());
            }
          }
        }
      }
      _ => {}
    }
  }
  out
}

fn op_names(idx: &[u8]) -> Vec<&'static str> {
  let mut out: Vec<&'static str> = Vec::new();
  for i in idx {
    let name = OPS[*i as usize * OPS.len() / 256];
    if !out.contains(&name) {
      out.push(name);
    }
  }
  out
}

fn optional_members(s: &JwkSpec) -> Vec<(String, Value)> {
  let mut m: Vec<(String, Value)> = Vec::new();
  if let Some(u) = s.use_ {
    m.push(("use".into(), json!(if u < 128 { "sig" } else { "enc" })));
  }
  if let Some(ops) = &s.key_ops {
    m.push(("key_ops".into(), json!(op_names(ops))));
  }
  if let Some(a) = s.alg {
    m.push(("alg".into(), json!(pick(&ALGS, a))));
  }
  if let Some(k) = s.kid {
    m.push(("kid".into(), json!(pick(&KIDS, k))));
  }
  if s.x5u {
    m.push(("x5u".into(), json!("https://example.com/certs/key.pem")));
  }
  if s.x5c > 0 {
    let chain: Vec<String> = (0..s.x5c.min(3)).map(|i| format!("MIIB{i}AAAA")).collect();
    m.push(("x5c".into(), json!(chain)));
  }
  if s.x5t {
    m.push(("x5t".into(), json!("dGh1bWJwcmludC1zaGEx")));
  }
  if s.x5t_s256 {
    m.push(("x5t#S256".into(), json!("dGh1bWJwcmludC1zaGEyNTYtMzItYnl0ZXMtbG9uZw")));
  }
  for (n, kind) in &s.unknown {
    let name = pick(&UNKNOWN_NAMES, *n);
    if m.iter().any(|(k, _)| k == name) {
      continue;
    }
    let v = match *kind as usize * 6 / 256 {
      0 => json!("text"),
      1 => json!(7),
      2 => json!(true),
      3 => Value::Null,
      4 => json!({"a": 1}),
      _ => json!([1, "two"]),
    };
    m.push((name.to_string(), v));
  }
  m
}

/// Which parts of the spec a rendering includes.
#[derive(Clone, Copy)]
struct Parts {
  private: bool,
  optional: bool,
  foreign: bool,
  permute: bool,
}

const FULL: Parts = Parts {
  private: true,
  optional: true,
  foreign: true,
  permute: true,
};

/// Member list of the JWK: "kty", the parameters carried, then whatever `parts` selects.
fn members(s: &JwkSpec, parts: Parts) -> Vec<(String, Value)> {
  let mut m: Vec<(String, Value)> = vec![("kty".into(), json!(s.kty.kty()))];
  m.extend(required_members(&s.params));
  if parts.private {
    m.extend(private_members(&s.params));
  }
  if parts.foreign {
    if let Some(f) = s.foreign {
      let foreign = ParamSpec {
        fam: f,
        ..s.params.clone()
      };
      for (name, v) in required_members(&foreign) {
        if !m.iter().any(|(k, _)| *k == name) {
          m.push((name, v));
        }
      }
    }
  }
  if parts.optional {
    m.extend(optional_members(s));
  }
  if parts.permute && !s.order.is_empty() {
    let mut keyed: Vec<(u8, (String, Value))> = m
      .into_iter()
      .enumerate()
      .map(|(i, kv)| (s.order[i % s.order.len()], kv))
      .collect();
    keyed.sort_by_key(|(k, _)| *k);
    m = keyed.into_iter().map(|(_, kv)| kv).collect();
  }
  m
}

/// JSON object text with the members in exactly the given order.
fn render(members: &[(String, Value)]) -> String {
  let body: Vec<String> = members
    .iter()
    .map(|(k, v)| format!("{}:{}", Value::String(k.clone()), v))
    .collect();
  format!("{{{}}}", body.join(","))
}

fn as_value(members: &[(String, Value)]) -> Value {
  Value::Object(members.iter().cloned().collect())
}

/// Families whose complete set of required members occurs in the rendered JWK.
fn carried_families(m: &[(String, Value)]) -> Vec<Fam> {
  FAMILIES
    .into_iter()
    .filter(|f| f.required().iter().all(|name| m.iter().any(|(k, _)| k == name)))
    .collect()
}

// ---------------------------------------------------------------------------------------------
// Library-side helpers
// ---------------------------------------------------------------------------------------------

fn fam_of_kty(k: JwkType) -> Fam {
  match k {
    JwkType::Ec => Fam::Ec,
    JwkType::Rsa => Fam::Rsa,
    JwkType::Oct => Fam::Oct,
    JwkType::Okp => Fam::Okp,
  }
}

fn kty_of(f: Fam) -> JwkType {
  match f {
    Fam::Ec => JwkType::Ec,
    Fam::Rsa => JwkType::Rsa,
    Fam::Oct => JwkType::Oct,
    Fam::Okp => JwkType::Okp,
  }
}

fn fam_of_params(p: &JwkParams) -> Fam {
  match p {
    JwkParams::Ec(_) => Fam::Ec,
    JwkParams::Rsa(_) => Fam::Rsa,
    JwkParams::Oct(_) => Fam::Oct,
    JwkParams::Okp(_) => Fam::Okp,
  }
}

/// The library's parameter struct for a spec, filled through its public fields.
fn lib_params(p: &ParamSpec) -> JwkParams {
  let pub_mat = |name: &str| material(p.seed, p.fam, name, p.fam == Fam::Oct);
  let priv_mat = |name: &'static str| -> Option<String> {
    private_names(p)
      .contains(&name)
      .then(|| material(p.seed, p.fam, name, true))
  };
  match p.fam {
    Fam::Ec => {
      let mut x = JwkParamsEc::new();
      x.crv = curve(p).to_string();
      x.x = pub_mat("x");
      x.y = pub_mat("y");
      x.d = priv_mat("d");
      JwkParams::Ec(x)
    }
    Fam::Okp => {
      let mut x = JwkParamsOkp::new();
      x.crv = curve(p).to_string();
      x.x = pub_mat("x");
      x.d = priv_mat("d");
      JwkParams::Okp(x)
    }
    Fam::Oct => {
      let mut x = JwkParamsOct::new();
      x.k = pub_mat("k");
      JwkParams::Oct(x)
    }
    Fam::Rsa => {
      let mut x = JwkParamsRsa::new();
      x.n = pub_mat("n");
      x.e = pub_mat("e");
      x.d = priv_mat("d");
      x.p = priv_mat("p");
      x.q = priv_mat("q");
      x.dp = priv_mat("dp");
      x.dq = priv_mat("dq");
      x.qi = priv_mat("qi");
      if private_names(p).contains(&"oth") {
        x.oth = Some(
          oth_entries(p)
            .into_iter()
            .map(|(r, d, t)| JwkParamsRsaPrime { r, d, t })
            .collect(),
        );
      }
      JwkParams::Rsa(x)
    }
  }
}

fn lib_ops(idx: &[u8]) -> Vec<JwkOperation> {
  op_names(idx)
    .into_iter()
    .map(|n| match n {
      "sign" => JwkOperation::Sign,
      "verify" => JwkOperation::Verify,
      "encrypt" => JwkOperation::Encrypt,
      "decrypt" => JwkOperation::Decrypt,
      "wrapKey" => JwkOperation::WrapKey,
      "unwrapKey" => JwkOperation::UnwrapKey,
      "deriveKey" => JwkOperation::DeriveKey,
      "deriveBits" => JwkOperation::DeriveBits,
      "proofGeneration" => JwkOperation::ProofGeneration,
      _ => JwkOperation::ProofVerification,
    })
    .collect()
}

/// Serialisation of a library value; failing to serialise is outside this property.
fn to_value<T: ToJson>(x: &T, what: &str) -> Result<Value, Viol> {
  x.to_json_value()
    .map_err(|e| Viol::fixture(format!("{what}: to_json_value failed: {e}")))
}

fn find_secret<'a>(text: &str, secrets: &'a [String]) -> Option<&'a String> {
  secrets.iter().find(|s| text.contains(s.as_str()))
}

// ---------------------------------------------------------------------------------------------
// The battery every obtained JWK goes through
// ---------------------------------------------------------------------------------------------

/// A verification method that the library agreed to build must not carry private key members.
fn inspect_method(m: &VerificationMethod, route: &str, via: &str, secrets: &[String], plain_id: bool, obs: &mut Obs) -> CheckResult {
  obs.label(format!("method-built:{route}"));
  let mv = to_value(m, "VerificationMethod")?;
  let jwk = mv.get("publicKeyJwk").cloned().unwrap_or(Value::Null);
  let leaked = private_members_present(&jwk);
  vensure!(
    obs,
    leaked.is_empty(),
    format!("method-contains-private-member:{route}"),
    "{via}: {route} built a verification method whose publicKeyJwk has the private member(s) {leaked:?}: {jwk}"
  );
  // a did:jwk identifier is the base64url of the whole JWK, so only the key object is searched on that route
  let text = if plain_id { mv.to_string() } else { jwk.to_string() };
  if let Some(s) = find_secret(&text, secrets) {
    vfail!(
      obs,
      format!("method-contains-private-value:{route}"),
      "{via}: {route} built a verification method containing the private value {s}: {text}"
    );
  }
  Ok(())
}

/// `VerificationMethod::new_from_jwk` (explicit fragment and `kid` fragment), `MethodBuilder::build`,
/// `TryFrom<DIDJwk>`: whatever they accept must be free of private members.
fn constructors(j: &Jwk, via: &str, secrets: &[String], obs: &mut Obs) -> CheckResult {
  let did: CoreDID = fixture!(CoreDID::parse("did:example:123"), "CoreDID::parse");
  let mut attempts: Vec<(&str, bool, Result<identity_verification::Result<VerificationMethod>, PanicInfo>)> = Vec::new();
  attempts.push((
    "new_from_jwk",
    true,
    catch(|| VerificationMethod::new_from_jwk(did.clone(), j.clone(), Some("key-1"))),
  ));
  if j.kid().is_some() {
    attempts.push((
      "new_from_jwk-kid-fragment",
      true,
      catch(|| VerificationMethod::new_from_jwk(did.clone(), j.clone(), None)),
    ));
  }
  let id = fixture!(did.to_url().join("#key-1"), "DIDUrl::join");
  // the builder under every kind of method type: the private-material guard must not depend on the type
  for (route, type_) in [
    ("builder", MethodType::JSON_WEB_KEY_2020),
    ("builder:JsonWebKey", MethodType::custom("JsonWebKey")),
    ("builder:Ed25519VerificationKey2018", MethodType::ED25519_VERIFICATION_KEY_2018),
    ("builder:custom-type", MethodType::custom("VcheckKey2024")),
  ] {
    attempts.push((
      route,
      true,
      catch(|| {
        MethodBuilder::new(Object::new())
          .id(id.clone())
          .controller(did.clone())
          .type_(type_)
          .data(MethodData::PublicKeyJwk(j.clone()))
          .build()
      }),
    ));
  }
  let jwk_text = fixture!(j.to_json(), "Jwk::to_json");
  let did_jwk = format!("did:jwk:{}", b64url(jwk_text.as_bytes()));
  match catch(|| DIDJwk::parse(&did_jwk)) {
    Ok(Ok(d)) => attempts.push(("did-jwk", false, catch(|| VerificationMethod::try_from(d)))),
    Ok(Err(_)) => obs.label("did-jwk-rejected"),
    Err(p) => return Err(Viol::fixture(format!("{via}: DIDJwk::parse panicked: {}", p.msg))),
  }
  let has_private = !private_members_present(&to_value(j, "Jwk")?).is_empty();
  for (route, plain_id, outcome) in attempts {
    match outcome {
      // a panic here is not a leak; it is outside this property (C05 owns panics)
      Err(p) => return Err(Viol::fixture(format!("{via}: {route} panicked: {}", p.msg))),
      Ok(Ok(m)) => inspect_method(&m, route, via, secrets, plain_id, obs)?,
      Ok(Err(_)) => obs.label(if has_private {
        "private-jwk-refused-by-constructor"
      } else {
        "public-jwk-refused-by-constructor"
      }),
    }
  }
  Ok(())
}

/// Everything the statement says about one `Jwk` value, whatever its origin. `mismatch_sig` is the signature
/// reported when the declared key type and the parameter family differ on this route. Returns whether they agree.
fn battery(j: &Jwk, via: &str, mismatch_sig: &str, secrets: &[String], with_methods: bool, obs: &mut Obs) -> Result<bool, Viol> {
  let jv = to_value(j, "Jwk")?;
  let present = private_members_present(&jv);

  // "a key reports itself public exactly when it has no private member"
  let (is_public, is_private, params_public) = match catch(|| (j.is_public(), j.is_private(), j.params().is_public())) {
    Ok(t) => t,
    Err(p) => return Err(Viol::fixture(format!("{via}: is_public/is_private panicked: {}", p.msg))),
  };
  vensure!(
    obs,
    is_public == present.is_empty() && params_public == is_public,
    "is-public-disagrees-with-members",
    "{via}: is_public() = {is_public}, params().is_public() = {params_public}, private members present: {present:?} in {jv}"
  );
  vensure!(
    obs,
    !(is_public && is_private),
    "is-public-and-is-private",
    "{via}: the key reports itself both public and private: {jv}"
  );
  obs.label(if present.is_empty() { "jwk-public" } else { "jwk-has-private-member" });

  // The thumbprint of the value as it is *now* (after whatever setters were applied to it): RFC 7638 over the
  // required public members it currently serialises. Empty keys (no required members yet) have none.
  if let (Ok(input), Ok(reference)) = (thumbprint_input(&jv), thumbprint_b64(&jv)) {
    if !input.contains("\"\"") {
      check_thumbprint(j, "thumbprint-differs-from-current-members", via, &input, &reference, obs)?;
      obs.label("thumbprint-of-current-value");
    }
  }

  // "the public projection contains no private member"
  let projection = match catch(|| j.to_public()) {
    Ok(p) => p,
    Err(p) => return obs.fail("to-public-panics", format!("{via}: to_public() panicked: {}", p.msg)).map(|_| false),
  };
  let pv = match &projection {
    None => {
      obs.label("projection-none");
      vensure!(
        obs,
        fam_of_params(j.params()) == Fam::Oct,
        "to-public-none-for-asymmetric-key",
        "{via}: to_public() is None for a key that is not an octet sequence: {jv}"
      );
      None
    }
    Some(p) => {
      obs.label("projection-some");
      let pv = to_value(p, "projection")?;
      let leaked = private_members_present(&pv);
      vensure!(
        obs,
        leaked.is_empty(),
        "to-public-leaks-private-member",
        "{via}: to_public() of {jv} still has the private member(s) {leaked:?}: {pv}"
      );
      if let Some(s) = find_secret(&pv.to_string(), secrets) {
        vfail!(
          obs,
          "to-public-leaks-private-value",
          "{via}: to_public() of {jv} contains the private value {s}: {pv}"
        );
      }
      vensure!(
        obs,
        p.is_public(),
        "to-public-result-not-public",
        "{via}: to_public() of {jv} does not report itself public: {pv}"
      );
      Some(pv)
    }
  };

  // constructors must refuse (or strip) private material whatever the key looks like
  if with_methods {
    constructors(j, via, secrets, obs)?;
  }

  // "the declared key type always matches the family of parameters carried"
  let declared = fam_of_kty(j.kty());
  let carried = fam_of_params(j.params());
  if declared != carried {
    obs.label("kty-params-mismatch");
    obs.fail(
      mismatch_sig,
      format!(
        "{via}: kty() is {} but params() are {} parameters: {jv}",
        declared.kty(),
        carried.kty()
      ),
    )?;
    return Ok(false);
  }
  vensure!(
    obs,
    jv.get("kty").and_then(Value::as_str) == Some(declared.kty()),
    "kty-accessor-disagrees-with-json",
    "{via}: kty() is {} but the key serialises as {jv}",
    declared.kty()
  );

  // "keeps the public key parameters and key type and is idempotent"
  if let (Some(p), Some(pv)) = (&projection, &pv) {
    vensure!(
      obs,
      p.kty() == j.kty() && pv.get("kty") == jv.get("kty"),
      "to-public-changes-kty",
      "{via}: to_public() of {jv} has another key type: {pv}"
    );
    for name in declared.public_required() {
      vensure!(
        obs,
        pv.get(*name).is_some() && pv.get(*name) == jv.get(*name),
        "to-public-loses-public-parameter",
        "{via}: to_public() of {jv} changed or dropped {name:?}: {pv}"
      );
    }
    match catch(|| p.to_public()) {
      Err(panic) => vfail!(obs, "to-public-panics", "{via}: to_public() of a projection panicked: {}", panic.msg),
      Ok(None) => vfail!(
        obs,
        "to-public-not-idempotent-key-material",
        "{via}: the projection {pv} has no projection itself"
      ),
      Ok(Some(p2)) => {
        let p2v = to_value(&p2, "second projection")?;
        vensure!(
          obs,
          p2.kty() == p.kty() && p2.params() == p.params(),
          "to-public-not-idempotent-key-material",
          "{via}: projecting twice changes the key: {pv} -> {p2v}"
        );
        if p2 != *p {
          let strip = |v: &Value| {
            let mut v = v.clone();
            if let Some(m) = v.as_object_mut() {
              m.remove("key_ops");
            }
            v
          };
          if strip(&p2v) == strip(pv) {
            obs.label("second-projection-differs-in-key-ops");
            vfail!(
              obs,
              "to-public-key-ops-not-idempotent",
              "{via}: to_public(to_public(k)) != to_public(k): key_ops {} became {} (k = {jv})",
              pv.get("key_ops").unwrap_or(&Value::Null),
              p2v.get("key_ops").unwrap_or(&Value::Null)
            );
          } else {
            vfail!(
              obs,
              "to-public-not-idempotent-other-members",
              "{via}: to_public(to_public(k)) != to_public(k): {pv} -> {p2v}"
            );
          }
        } else {
          obs.label("second-projection-equal");
        }
      }
    }
  }
  Ok(true)
}

// ---------------------------------------------------------------------------------------------
// Case::Json
// ---------------------------------------------------------------------------------------------

fn parse_route(text: &str, value: &Value, route: Route) -> Result<Result<Jwk, String>, PanicInfo> {
  catch(|| match route {
    Route::Text => Jwk::from_json(text).map_err(|e| e.to_string()),
    Route::Value => Jwk::from_json_value(value.clone()).map_err(|e| e.to_string()),
    Route::Set => JwkSet::from_json(&format!(r#"{{"keys":[{text}]}}"#))
      .map_err(|e| e.to_string())
      .and_then(|set| set.as_slice().first().cloned().ok_or_else(|| "empty set".to_string())),
  })
}

/// Thumbprint of a library key against the reference; `None` when they agree.
fn thumbprint_diff(j: &Jwk, reference_input: &str, reference: &str) -> Result<Option<String>, PanicInfo> {
  catch(|| {
    let got = j.thumbprint_sha256_b64();
    let raw = b64url(&j.thumbprint_sha256());
    if got == reference && raw == reference {
      None
    } else {
      Some(format!(
        "thumbprint_sha256_b64() = {got}, thumbprint_sha256() = {raw}, hash input {:?}; RFC 7638 gives {reference} over {reference_input:?}",
        j.thumbprint_hash_input()
      ))
    }
  })
}

fn check_thumbprint(j: &Jwk, sig: &str, what: &str, reference_input: &str, reference: &str, obs: &mut Obs) -> CheckResult {
  match thumbprint_diff(j, reference_input, reference) {
    Err(p) => vfail!(obs, "thumbprint-panics", "{what}: thumbprint computation panicked: {}", p.msg),
    Ok(Some(diff)) => vfail!(obs, sig, "{what}: {diff}"),
    Ok(None) => {}
  }
  Ok(())
}

fn check_json(s: &JwkSpec, obs: &mut Obs) -> CheckResult {
  let main = members(s, FULL);
  let text = render(&main);
  let value = as_value(&main);
  let secret_list = secrets(&s.params);
  let canonical = members(s, Parts { permute: false, ..FULL });
  let permuted = main != canonical;
  let carried = carried_families(&main);
  let declared_present = carried.contains(&s.kty);
  // the foreign family contributes members only where the carried family does not already use the same names
  let foreign_effective = members(s, Parts { foreign: false, ..FULL }).len() != main.len();
  let private_count = private_names(&s.params).len();
  let has_optional = !optional_members(s).is_empty();

  obs.label(if s.kty == s.params.fam { "declared-family" } else { "other-family" });
  if foreign_effective {
    obs.label("foreign-members");
  }
  obs.label(match (s.params.fam, private_count) {
    (Fam::Oct, _) => "private:oct",
    (_, 0) => "private:none",
    (Fam::Rsa, n) if n < 7 => "private:partial-rsa",
    _ => "private:all",
  });
  if permuted && has_optional {
    obs.label("optional-and-permuted");
  }
  let partial_rsa = s.params.fam == Fam::Rsa && (1..7).contains(&private_count);
  if partial_rsa || s.kty != s.params.fam || foreign_effective || (permuted && has_optional) {
    obs.nontrivial();
  }

  let j = match parse_route(&text, &value, s.route) {
    Err(p) => return Err(Viol::fixture(format!("deserialising {text} panicked: {}", p.msg))),
    Ok(Err(_)) => {
      obs.label(if s.kty == s.params.fam && !foreign_effective {
        "plain-jwk-rejected"
      } else {
        "rejected"
      });
      return Ok(());
    }
    Ok(Ok(j)) => j,
  };
  obs.label("accepted");
  let via = format!("{:?} route on {text}", s.route);
  if !battery(&j, &via, "kty-params-mismatch-on-deserialisation", &secret_list, true, obs)? {
    return Ok(());
  }

  // The same key obtained through the JSON-proof-token library's key type (issuer keys of JPTs arrive that way),
  // under both kty labels its untagged parameter enum lets through: whatever comes out of the conversion is a `Jwk`
  // like any other.
  if j.try_ec_params().is_ok() {
    for label in ["EC", "OKP"] {
      let mut foreign = value.clone();
      if let Some(o) = foreign.as_object_mut() {
        o.insert("kty".into(), json!(label));
      }
      let Ok(ext) = serde_json::from_value::<jsonprooftoken::jwk::key::Jwk>(foreign) else { continue };
      for (how, ext) in [("as read", ext.clone()), ("its to_public()", ext.to_public().unwrap_or(ext))] {
        match catch(|| Jwk::try_from(ext)) {
          Ok(Ok(converted)) => {
            obs.label("converted-from-jpt-jwk");
            let cvia = format!("Jwk::try_from(jsonprooftoken Jwk read from {text} with kty {label}, {how})");
            battery(&converted, &cvia, "kty-params-mismatch-after-jpt-conversion", &secret_list, false, obs)?;
          }
          Ok(Err(_)) => obs.label("jpt-jwk-conversion-refused"),
          Err(p) => return Err(Viol::fixture(format!("Jwk::try_from(jsonprooftoken Jwk) panicked: {}", p.msg))),
        }
      }
    }
  }

  // From here on the key is coherent: kty() names the family of params().
  let family = fam_of_kty(j.kty());

  // is_public against the members that were offered (the library's own serialisation is not consulted)
  if family == s.params.fam {
    let expect_public = family != Fam::Oct && private_count == 0;
    vensure!(
      obs,
      j.is_public() == expect_public,
      "is-public-disagrees-with-input-members",
      "{via}: is_public() = {}, the JWK was offered with the private members {:?}",
      j.is_public(),
      private_names(&s.params)
    );
    // the projection keeps the public parameters that were offered
    if let Some(p) = j.to_public() {
      let pv = to_value(&p, "projection")?;
      for name in family.public_required() {
        vensure!(
          obs,
          pv.get(*name).is_some() && pv.get(*name) == value.get(*name),
          "to-public-loses-public-parameter",
          "{via}: the projection {pv} does not carry the offered {name:?}"
        );
      }
    }
  }

  // Thumbprint: defined by the declared key type and its required members alone.
  if !(declared_present && family == s.kty) {
    obs.label("thumbprint-reference-undefined");
    return Ok(());
  }
  let reference_input = fixture!(thumbprint_input(&value), "reference thumbprint input");
  let reference = fixture!(thumbprint_b64(&value), "reference thumbprint");
  obs.label("thumbprint-checked");
  let main_sig = if foreign_effective {
    "thumbprint-varies-with-foreign-members"
  } else if permuted {
    "thumbprint-varies-with-member-order"
  } else {
    "thumbprint-varies-with-optional-members"
  };
  if s.kty == s.params.fam {
    // the same key with fewer members, in canonical order, each through from_json
    let none = Parts {
      private: false,
      optional: false,
      foreign: false,
      permute: false,
    };
    let variants: [(&str, &str, Parts); 4] = [
      ("required members only", "thumbprint-differs-from-rfc7638", none),
      ("required + private members", "thumbprint-varies-with-private-part", Parts { private: true, ..none }),
      ("required + optional members", "thumbprint-varies-with-optional-members", Parts { optional: true, ..none }),
      (
        "all members in canonical order",
        "thumbprint-varies-with-optional-members",
        Parts {
          private: true,
          optional: true,
          ..none
        },
      ),
    ];
    for (what, sig, parts) in variants {
      let vtext = render(&members(s, parts));
      match catch(|| Jwk::from_json(&vtext)) {
        Ok(Ok(v)) if fam_of_kty(v.kty()) == fam_of_params(v.params()) => {
          check_thumbprint(&v, sig, &format!("{what}: {vtext}"), &reference_input, &reference, obs)?
        }
        Ok(_) => obs.label("variant-unusable"),
        Err(p) => return Err(Viol::fixture(format!("deserialising {vtext} panicked: {}", p.msg))),
      }
    }
    // the same key assembled through from_params and the setters
    let built = build_with_setters(s)?;
    let bvia = format!("from_params + setters for {text}");
    if battery(&built, &bvia, "kty-params-mismatch-after-setters", &secret_list, false, obs)? {
      check_thumbprint(&built, "thumbprint-differs-via-setters", &bvia, &reference_input, &reference, obs)?;
    }
  }
  check_thumbprint(&j, main_sig, &via, &reference_input, &reference, obs)?;
  if let Some(p) = j.to_public() {
    check_thumbprint(
      &p,
      "thumbprint-varies-under-to-public",
      &format!("public projection, {via}"),
      &reference_input,
      &reference,
      obs,
    )?;
  }
  Ok(())
}

/// `Jwk::from_params(params)` then every optional-member setter the spec asks for.
fn build_with_setters(s: &JwkSpec) -> Result<Jwk, Viol> {
  let mut j = Jwk::from_params(lib_params(&s.params));
  if let Some(u) = s.use_ {
    j.set_use(if u < 128 { JwkUse::Signature } else { JwkUse::Encryption });
  }
  if let Some(ops) = &s.key_ops {
    j.set_key_ops(lib_ops(ops));
  }
  if let Some(a) = s.alg {
    j.set_alg(pick(&ALGS, a));
  }
  if let Some(k) = s.kid {
    j.set_kid(pick(&KIDS, k));
  }
  if s.x5u {
    j.set_x5u(fixture!(Url::parse("https://example.com/certs/key.pem"), "Url::parse"));
  }
  if s.x5c > 0 {
    j.set_x5c((0..s.x5c.min(3)).map(|i| format!("MIIB{i}AAAA")));
  }
  if s.x5t {
    j.set_x5t("dGh1bWJwcmludC1zaGEx");
  }
  if s.x5t_s256 {
    j.set_x5t_s256("dGh1bWJwcmludC1zaGEyNTYtMzItYnl0ZXMtbG9uZw");
  }
  Ok(j)
}

// ---------------------------------------------------------------------------------------------
// Case::Setters
// ---------------------------------------------------------------------------------------------

fn check_setters(first: Fam, ops: &[SetOp], obs: &mut Obs) -> CheckResult {
  let mut j = Jwk::new(kty_of(first));
  let mut secret_list: Vec<String> = Vec::new();
  let mut history = format!("Jwk::new({})", first.kty());
  let sig = "kty-params-mismatch-after-setters";
  if !battery(&j, &history, sig, &secret_list, false, obs)? {
    return Ok(());
  }
  let mut refused = false;
  let mut replaced = false;
  for op in ops {
    history.push_str(&format!(" -> {op:?}"));
    let step = catch(|| -> Result<(), String> {
      match op {
        SetOp::New(f) => j = Jwk::new(kty_of(*f)),
        SetOp::FromParams(p) => j = Jwk::from_params(lib_params(p)),
        SetOp::SetKty(f) => j.set_kty(kty_of(*f)),
        SetOp::SetParams(p) => return j.set_params(lib_params(p)).map_err(|e| e.to_string()),
        SetOp::FillMut(p) => {
          return match &lib_params(p) {
            JwkParams::Ec(x) => j.try_ec_params_mut().map(|m| *m = x.clone()),
            JwkParams::Rsa(x) => j.try_rsa_params_mut().map(|m| *m = x.clone()),
            JwkParams::Oct(x) => j.try_oct_params_mut().map(|m| *m = x.clone()),
            JwkParams::Okp(x) => j.try_okp_params_mut().map(|m| *m = x.clone()),
          }
          .map_err(|e| e.to_string())
        }
        SetOp::ToPublic => {
          if let Some(p) = j.to_public() {
            j = p;
          }
        }
        SetOp::KeyOps(ops) => j.set_key_ops(lib_ops(ops)),
        SetOp::Kid(k) => j.set_kid(pick(&KIDS, *k)),
        SetOp::Alg(a) => j.set_alg(pick(&ALGS, *a)),
        SetOp::Use(u) => j.set_use(if *u < 128 { JwkUse::Signature } else { JwkUse::Encryption }),
      }
      Ok(())
    });
    match (op, step) {
      (_, Err(p)) => return Err(Viol::fixture(format!("{history}: panicked: {}", p.msg))),
      (SetOp::SetParams(p), Ok(outcome)) => {
        secret_list.extend(secrets(p));
        match outcome {
          Ok(()) => {
            replaced = true;
            obs.label("set-params-accepted");
          }
          Err(_) => {
            refused = true;
            obs.label("set-params-refused");
          }
        }
      }
      (SetOp::FromParams(p) | SetOp::FillMut(p), Ok(_)) => secret_list.extend(secrets(p)),
      _ => {}
    }
    if !battery(&j, &history, sig, &secret_list, false, obs)? {
      return Ok(());
    }
  }
  if refused && replaced {
    obs.nontrivial();
  }
  // once more with the verification-method constructors
  battery(&j, &history, sig, &secret_list, true, obs)?;
  Ok(())
}

// ---------------------------------------------------------------------------------------------
// Case::Generate
// ---------------------------------------------------------------------------------------------

/// A key storage whose `generate` hands out a JWK chosen by the harness (everything else is inert).
struct HandOutStore {
  jwk: Jwk,
}

#[async_trait(?Send)]
impl JwkStorage for HandOutStore {
  async fn generate(&self, _key_type: KeyType, _alg: JwsAlgorithm) -> KeyStorageResult<JwkGenOutput> {
    Ok(JwkGenOutput::new(KeyId::new("handed-out"), self.jwk.clone()))
  }
  async fn insert(&self, _jwk: Jwk) -> KeyStorageResult<KeyId> {
    Err(KeyStorageError::new(KeyStorageErrorKind::Unspecified))
  }
  async fn sign(&self, _key_id: &KeyId, _data: &[u8], _public_key: &Jwk) -> KeyStorageResult<Vec<u8>> {
    Err(KeyStorageError::new(KeyStorageErrorKind::Unspecified))
  }
  async fn delete(&self, _key_id: &KeyId) -> KeyStorageResult<()> {
    Ok(())
  }
  async fn exists(&self, _key_id: &KeyId) -> KeyStorageResult<bool> {
    Ok(true)
  }
}

fn scope_of(i: u8) -> MethodScope {
  match i.min(5) {
    0 => MethodScope::VerificationMethod,
    1 => MethodScope::authentication(),
    2 => MethodScope::assertion_method(),
    3 => MethodScope::key_agreement(),
    4 => MethodScope::capability_delegation(),
    _ => MethodScope::capability_invocation(),
  }
}

enum AnyDoc {
  Core(CoreDocument),
  Iota(IotaDocument),
}

impl AnyDoc {
  fn new(kind: DocKind) -> Result<AnyDoc, Viol> {
    Ok(match kind {
      DocKind::Core => {
        let did = fixture!(CoreDID::parse("did:example:c18"), "CoreDID::parse");
        AnyDoc::Core(fixture!(CoreDocument::builder(Object::new()).id(did).build(), "CoreDocument::builder"))
      }
      DocKind::Iota => {
        let network = fixture!(NetworkName::try_from("tst"), "NetworkName::try_from");
        AnyDoc::Iota(IotaDocument::new(&network))
      }
    })
  }

  fn generate<K: JwkStorage>(
    &mut self,
    storage: &Storage<K, KeyIdMemstore>,
    fragment: Option<&str>,
    scope: MethodScope,
  ) -> Result<String, String> {
    let key_type = JwkMemStore::ED25519_KEY_TYPE;
    match self {
      AnyDoc::Core(d) => block_on(d.generate_method(storage, key_type, JwsAlgorithm::EdDSA, fragment, scope)),
      AnyDoc::Iota(d) => block_on(d.generate_method(storage, key_type, JwsAlgorithm::EdDSA, fragment, scope)),
    }
    .map_err(|e| e.to_string())
  }

  fn value(&self) -> Result<Value, Viol> {
    match self {
      AnyDoc::Core(d) => to_value(d, "CoreDocument"),
      AnyDoc::Iota(d) => to_value(d, "IotaDocument"),
    }
  }
}

/// No `publicKeyJwk` anywhere in the document has a private member, no secret occurs in its text.
fn inspect_document(doc: &AnyDoc, when: &str, secrets: &[String], obs: &mut Obs) -> Result<usize, Viol> {
  let dv = doc.value()?;
  let mut keys = Vec::new();
  objects_under(&dv, "publicKeyJwk", &mut keys);
  for k in &keys {
    let leaked = private_members_present(k);
    vensure!(
      obs,
      leaked.is_empty(),
      "generated-document-contains-private-member",
      "{when}: a publicKeyJwk of the document has the private member(s) {leaked:?}: {dv}"
    );
  }
  if let Some(s) = find_secret(&dv.to_string(), secrets) {
    vfail!(
      obs,
      "generated-document-contains-private-value",
      "{when}: the document contains the private value {s}: {dv}"
    );
  }
  Ok(keys.len())
}

fn check_generate(kind: DocKind, scope: u8, fragment: Option<u8>, source: &Source, obs: &mut Obs) -> CheckResult {
  let fragment: Option<&str> = fragment.map(|f| pick(&FRAGMENTS, f));
  let mut doc = AnyDoc::new(kind)?;
  let when = format!("generate_method({kind:?}, scope {}, fragment {fragment:?})", scope_of(scope).as_str());
  match source {
    Source::MemStore => {
      obs.label("memstore");
      // the storage's own output
      let store = JwkMemStore::new();
      let out = match catch(|| block_on(store.generate(JwkMemStore::ED25519_KEY_TYPE, JwsAlgorithm::EdDSA))) {
        Ok(Ok(out)) => out,
        Ok(Err(e)) => return Err(Viol::fixture(format!("JwkMemStore::generate failed: {e}"))),
        Err(p) => return Err(Viol::fixture(format!("JwkMemStore::generate panicked: {}", p.msg))),
      };
      let ov = to_value(&out.jwk, "generated JWK")?;
      let leaked = private_members_present(&ov);
      vensure!(
        obs,
        leaked.is_empty() && out.jwk.is_public(),
        "generated-jwk-contains-private-member",
        "JwkMemStore::generate returned a JWK with the private member(s) {leaked:?} (is_public = {}): {ov}",
        out.jwk.is_public()
      );
      if !battery(&out.jwk, "JwkMemStore::generate output", "kty-params-mismatch-in-generated-key", &[], true, obs)? {
        return Ok(());
      }
      let reference = fixture!(thumbprint_b64(&ov), "reference thumbprint of the generated key");
      let reference_input = fixture!(thumbprint_input(&ov), "reference thumbprint input of the generated key");
      check_thumbprint(
        &out.jwk,
        "thumbprint-differs-from-rfc7638",
        "JwkMemStore::generate output",
        &reference_input,
        &reference,
        obs,
      )?;
      // the document produced from such a key
      let storage = Storage::new(JwkMemStore::new(), KeyIdMemstore::new());
      match catch(|| doc.generate(&storage, fragment, scope_of(scope))) {
        Ok(Ok(_)) => {}
        Ok(Err(e)) => return Err(Viol::fixture(format!("{when} with JwkMemStore failed: {e}"))),
        Err(p) => return Err(Viol::fixture(format!("{when} with JwkMemStore panicked: {}", p.msg))),
      }
      let n = inspect_document(&doc, &when, &[], obs)?;
      if n == 0 {
        return Err(Viol::fixture(format!("{when}: the document has no publicKeyJwk after generate_method")));
      }
      obs.label("document-with-generated-method");
      obs.nontrivial();
    }
    Source::HandOut(spec) => {
      let text = render(&members(spec, FULL));
      let jwk = match catch(|| Jwk::from_json(&text)) {
        Ok(Ok(j)) => j,
        Ok(Err(_)) => {
          obs.discard("handed-out-jwk-rejected");
          return Ok(());
        }
        Err(p) => return Err(Viol::fixture(format!("deserialising {text} panicked: {}", p.msg))),
      };
      let secret_list = secrets(&spec.params);
      let has_private = !private_members_present(&to_value(&jwk, "Jwk")?).is_empty();
      let storage = Storage::new(HandOutStore { jwk }, KeyIdMemstore::new());
      let when = format!("{when} with a storage handing out {text}");
      let outcome = match catch(|| doc.generate(&storage, fragment, scope_of(scope))) {
        Ok(r) => r,
        Err(p) => return Err(Viol::fixture(format!("{when} panicked: {}", p.msg))),
      };
      let n = inspect_document(&doc, &when, &secret_list, obs)?;
      match (outcome.is_ok(), has_private) {
        (true, true) => obs.label("handed-out-private-accepted-but-clean"),
        (true, false) => {
          if n > 0 {
            obs.label("handed-out-public-inserted");
          }
        }
        (false, true) => {
          obs.label("handed-out-private-refused");
          obs.nontrivial();
        }
        (false, false) => obs.label("handed-out-public-refused"),
      }
    }
  }
  Ok(())
}

// ---------------------------------------------------------------------------------------------
// check
// ---------------------------------------------------------------------------------------------

pub fn check(case: &Case, obs: &mut Obs) -> CheckResult {
  match case {
    Case::Json(spec) => check_json(spec, obs),
    Case::Setters { first, ops } => check_setters(*first, ops, obs),
    Case::Generate {
      doc,
      scope,
      fragment,
      source,
    } => check_generate(*doc, *scope, *fragment, source, obs),
  }
}

// ---------------------------------------------------------------------------------------------
// Enumerators and strategies
// ---------------------------------------------------------------------------------------------

fn plain_spec(kty: Fam, params: ParamSpec) -> JwkSpec {
  JwkSpec {
    kty,
    params,
    foreign: None,
    use_: None,
    key_ops: None,
    alg: None,
    kid: None,
    x5u: false,
    x5c: 0,
    x5t: false,
    x5t_s256: false,
    unknown: Vec::new(),
    order: Vec::new(),
    route: Route::Text,
  }
}

/// Number of private-subset masks of a family.
fn masks(f: Fam) -> u16 {
  match f {
    Fam::Rsa => 128,
    Fam::Ec | Fam::Okp => 2,
    Fam::Oct => 1,
  }
}

/// Every declared type × every parameter family × every subset of that family's private members × every foreign
/// family × three key_ops settings × the three routes.
fn grid() -> impl Iterator<Item = Case> {
  FAMILIES.into_iter().flat_map(|kty| {
    FAMILIES.into_iter().flat_map(move |fam| {
      (0..masks(fam)).flat_map(move |mask| {
        [None, Some(Fam::Ec), Some(Fam::Rsa), Some(Fam::Oct), Some(Fam::Okp)]
          .into_iter()
          .flat_map(move |foreign| {
            [None, Some(vec![0u8]), Some(vec![30u8, 160]), Some(vec![160u8])]
              .into_iter()
              .flat_map(move |key_ops| {
                [Route::Text, Route::Value, Route::Set].into_iter().map(move |route| {
                  let params = ParamSpec {
                    fam,
                    crv: 0,
                    seed: mask as u32,
                    private: mask as u8,
                    oth_len: (mask % 3) as u8,
                  };
                  Case::Json(JwkSpec {
                    foreign,
                    key_ops: key_ops.clone(),
                    route,
                    ..plain_spec(kty, params)
                  })
                })
              })
          })
      })
    })
  })
}

fn generate_grid() -> impl Iterator<Item = Case> {
  let sources = {
    let mut v = vec![Source::MemStore];
    for (fam, mask) in [
      (Fam::Okp, 0u8),
      (Fam::Okp, 1),
      (Fam::Ec, 0),
      (Fam::Ec, 1),
      (Fam::Rsa, 0),
      (Fam::Rsa, 1),
      (Fam::Rsa, 0b0100_0000),
      (Fam::Rsa, 0b0010_0000),
      (Fam::Rsa, 0b0111_1111),
      (Fam::Oct, 0),
    ] {
      let params = ParamSpec {
        fam,
        crv: 0,
        seed: 7,
        private: mask,
        oth_len: 1,
      };
      v.push(Source::HandOut(JwkSpec {
        kid: Some(0),
        ..plain_spec(fam, params)
      }));
    }
    v
  };
  [DocKind::Core, DocKind::Iota].into_iter().flat_map(move |doc| {
    let sources = sources.clone();
    (0u8..6).flat_map(move |scope| {
      let sources = sources.clone();
      [None, Some(0u8), Some(100)].into_iter().flat_map(move |fragment| {
        sources.clone().into_iter().map(move |source| Case::Generate {
          doc,
          scope,
          fragment,
          source,
        })
      })
    })
  })
}

fn fam_strategy() -> impl Strategy<Value = Fam> {
  prop_oneof![Just(Fam::Ec), Just(Fam::Rsa), Just(Fam::Oct), Just(Fam::Okp)]
}

fn param_strategy() -> impl Strategy<Value = ParamSpec> {
  (
    fam_strategy(),
    any::<u8>(),
    any::<u32>(),
    prop_oneof![2 => Just(0u8), 1 => Just(0x7f), 1 => Just(0x3f), 4 => 0u8..=0x7f],
    0u8..=3,
  )
    .prop_map(|(fam, crv, seed, private, oth_len)| ParamSpec {
      fam,
      crv,
      seed,
      private,
      oth_len,
    })
}

fn key_ops_strategy() -> impl Strategy<Value = Vec<u8>> {
  prop::collection::vec(any::<u8>(), 0..=4)
}

fn spec_strategy() -> impl Strategy<Value = JwkSpec> {
  let optional = (
    prop::option::weighted(0.3, any::<u8>()),
    prop::option::weighted(0.4, key_ops_strategy()),
    prop::option::weighted(0.4, any::<u8>()),
    prop::option::weighted(0.4, any::<u8>()),
    prop::bool::weighted(0.2),
    prop_oneof![4 => Just(0u8), 1 => 1u8..=3],
    prop::bool::weighted(0.2),
    prop::bool::weighted(0.2),
  );
  (
    param_strategy(),
    // declared type: mostly the family of the parameters
    prop::option::weighted(0.2, fam_strategy()),
    prop::option::weighted(0.2, fam_strategy()),
    optional,
    prop::collection::vec((any::<u8>(), any::<u8>()), 0..=3),
    prop_oneof![1 => Just(Vec::new()), 3 => prop::collection::vec(any::<u8>(), 1..=12)],
    prop_oneof![4 => Just(Route::Text), 1 => Just(Route::Value), 1 => Just(Route::Set)],
  )
    .prop_map(|(params, other_kty, foreign, o, unknown, order, route)| JwkSpec {
      kty: other_kty.unwrap_or(params.fam),
      params,
      foreign,
      use_: o.0,
      key_ops: o.1,
      alg: o.2,
      kid: o.3,
      x5u: o.4,
      x5c: o.5,
      x5t: o.6,
      x5t_s256: o.7,
      unknown,
      order,
      route,
    })
}

fn setters_strategy() -> impl Strategy<Value = Case> {
  let op = prop_oneof![
    1 => fam_strategy().prop_map(SetOp::New),
    2 => param_strategy().prop_map(SetOp::FromParams),
    2 => fam_strategy().prop_map(SetOp::SetKty),
    5 => param_strategy().prop_map(SetOp::SetParams),
    2 => param_strategy().prop_map(SetOp::FillMut),
    2 => Just(SetOp::ToPublic),
    1 => key_ops_strategy().prop_map(SetOp::KeyOps),
    1 => any::<u8>().prop_map(SetOp::Kid),
    1 => any::<u8>().prop_map(SetOp::Alg),
    1 => any::<u8>().prop_map(SetOp::Use),
  ];
  (fam_strategy(), prop::collection::vec(op, 0..=8)).prop_map(|(first, ops)| Case::Setters { first, ops })
}

fn generate_strategy() -> impl Strategy<Value = Case> {
  let source = prop_oneof![
    1 => Just(Source::MemStore),
    3 => spec_strategy().prop_map(|mut s| {
      // a storage hands out a well-formed key of one family; what varies is how much of it is private
      s.kty = s.params.fam;
      s.foreign = None;
      Source::HandOut(s)
    }),
  ];
  (
    prop_oneof![Just(DocKind::Core), Just(DocKind::Iota)],
    0u8..6,
    prop::option::of(any::<u8>()),
    source,
  )
    .prop_map(|(doc, scope, fragment, source)| Case::Generate {
      doc,
      scope,
      fragment,
      source,
    })
}

pub fn run(ctx: &mut Ctx) {
  ctx.rule = "JWK descriptions (declared kty x family of the parameters carried x every subset of that family's private members incl. \
    partial RSA sets and 'oth' x required members of a further family as foreign members x optional members use/key_ops/alg/kid/x5u/x5c/\
    x5t/x5t#S256 x unknown members x member order) rendered to JSON by the harness and obtained through Jwk::from_json, from_json_value \
    and JwkSet; the same keys through from_params + setters; constructor/setter sequences (new, from_params, set_kty, set_params, \
    try_*_params_mut, to_public); JwkMemStore::generate output and documents after generate_method (CoreDocument and IotaDocument, all scopes), also with \
    a key storage that hands out private or partially private JWKs. Oracle: independent classification of private members and RFC 7638 \
    thumbprint on serde_json::Value, secret strings searched in every output. Non-trivial = JWK with a partial RSA private set, a \
    declared type differing from the parameter family, foreign members, or optional members with permuted order / setter sequence with \
    both an accepted and a refused set_params / generated document with a method / handed-out private JWK refused; distinct by case bytes."
    .into();
  ctx.assume("key material strings are base64url text and curve names are plain ASCII names (no characters needing JSON escapes)");
  ctx.assume("set_params_unchecked and params_mut are documented as unchecked and are not part of the coherence clause");
  ctx.assume("a deserialisation route may reject any offered JWK (also well-formed ones: only counted); whatever it accepts must satisfy the statement");
  ctx.assume("to_public() returning None for an octet-sequence key is the documented meaning of 'no public projection'");
  ctx.assume("idempotence is read as to_public(to_public(k)) == to_public(k) on the whole value; a difference confined to key_ops is reported under its own signature, a difference in key type or parameters under another");
  ctx.assume("'constructors' of verification methods are new_from_jwk, MethodBuilder::build and TryFrom<DIDJwk>; serde deserialisation of a method and data_mut() are not constructors");
  ctx.assume("JwkMemStore::generate draws its key from the OS RNG, so the Generate cases are not bit-reproducible; the checked predicate does not depend on the key drawn");

  ctx.exhaustive("grid", grid, check);
  ctx.proptest("jwk", ctx.pick(120_000, 4_000_000), || spec_strategy().prop_map(Case::Json), check);
  ctx.proptest("setters", ctx.pick(30_000, 1_000_000), setters_strategy, check);
  ctx.exhaustive("generate-grid", generate_grid, check);
  ctx.proptest("generate", ctx.pick(6_000, 200_000), generate_strategy, check);

  for sub in ["grid", "jwk"] {
    ctx.require_class(&format!("{sub}:accepted"), 1000);
    ctx.require_class(&format!("{sub}:private:partial-rsa"), 500);
    ctx.require_class(&format!("{sub}:private:all"), 100);
    ctx.require_class(&format!("{sub}:private:none"), 100);
    ctx.require_class(&format!("{sub}:other-family"), 100);
    ctx.require_class(&format!("{sub}:foreign-members"), 100);
    ctx.require_class(&format!("{sub}:thumbprint-checked"), 1000);
    ctx.require_class(&format!("{sub}:projection-some"), 1000);
    ctx.require_class(&format!("{sub}:projection-none"), 50);
    ctx.require_class(&format!("{sub}:private-jwk-refused-by-constructor"), 500);
    ctx.require_class(&format!("{sub}:method-built:new_from_jwk"), 100);
    ctx.require_class(&format!("{sub}:method-built:builder"), 100);
    ctx.require_class(&format!("{sub}:method-built:did-jwk"), 100);
  }
  ctx.require_class("jwk:optional-and-permuted", 1000);
  ctx.require_class("setters:set-params-accepted", 500);
  ctx.require_class("setters:set-params-refused", 500);
  ctx.require_class("generate-grid:document-with-generated-method", 30);
  ctx.require_class("generate-grid:handed-out-private-refused", 100);
  ctx.require_class("generate-grid:handed-out-public-inserted", 30);
  ctx.require_class("generate:handed-out-private-refused", 100);
  ctx.max_discard_pct(10);
}

pub fn replay(v: &serde_json::Value, obs: &mut Obs) -> Result<CheckResult, String> {
  replay_with::<Case>(v, obs, check)
}
