//! C04 — DID document id-uniqueness and round trip hold across every mutation history.
//!
//! Model-based check: a case is a starting document (generated content, built through `DocumentBuilder` or
//! rendered to JSON by the harness and deserialised) and a history of checked mutations. The history is
//! interpreted on the real `CoreDocument`; after **every** step the document is serialised and the JSON is
//! judged by harness code only (`model::doc_model`): id constraints, frame conditions against the pre-state,
//! JSON round trip, and every resolution query of the universe against the abstract set-of-entries lookup.

use crate::engine::*;
use crate::fixture;
use crate::model::doc_model::*;
use crate::vensure;
use crate::vfail;
use identity_core::common::Object;
use identity_core::common::Url;
use identity_core::convert::FromJson;
use identity_core::convert::ToJson;
use identity_did::CoreDID;
use identity_did::DIDUrl;
use identity_document::document::CoreDocument;
use identity_document::service::Service;
use identity_verification::MethodData;
use identity_verification::MethodRelationship;
use identity_verification::MethodScope;
use identity_verification::MethodType;
use identity_verification::VerificationMethod;
use proptest::prelude::*;
use serde::Deserialize;
use serde::Serialize;
use serde_json::Value;

// ---------------------------------------------------------------------------------------------
// Cases
// ---------------------------------------------------------------------------------------------

#[derive(Debug, Clone, Copy, PartialEq, Eq, Serialize, Deserialize)]
pub enum Via {
  /// `CoreDocument::builder(..).id(D)…build()`.
  Builder,
  /// Content rendered to JSON by the harness, then `CoreDocument::from_json`.
  Json,
}

#[derive(Debug, Clone, Serialize, Deserialize)]
pub struct Start {
  pub via: Via,
  /// Empty content = the empty document (id only).
  pub content: Vec<Item>,
}

#[derive(Debug, Clone, PartialEq, Eq, Serialize, Deserialize)]
pub enum Op {
  InsertMethod { id: String, key: u8, scope: Scope },
  /// `remove_method` or `remove_method_and_scope`.
  RemoveMethod { id: String, and_scope: bool },
  Attach { query: String, rel: Rel },
  Detach { query: String, rel: Rel },
  InsertService { id: String, tag: u8 },
  RemoveService { id: String },
}

#[derive(Debug, Clone, Serialize, Deserialize)]
pub struct Case {
  pub start: Start,
  pub ops: Vec<Op>,
}

// ---------------------------------------------------------------------------------------------
// Universe
// ---------------------------------------------------------------------------------------------

/// The document's own DID and a foreign one.
pub const D: &str = "did:x:1";
pub const F: &str = "did:x:2";

/// Method ids of the full universe: three fragments under the own DID, two under the foreign one, two ids that
/// differ from another one only in query/path (distinct set keys that every query matches alike), and an id that
/// collides with a service id.
const METHOD_IDS: [&str; 10] = [
  // a fragment that begins with the letters `did` (a bare fragment query for it must not be taken for a DID)
  "did:x:1#didkey",
  // a fragment containing `/` (legal: fragment = *( pchar / "/" / "?" )); the DID part of such an id ends at the `#`
  "did:x:1#k/1",
  "did:x:1#a",
  "did:x:1#b",
  "did:x:1#c",
  "did:x:2#a",
  "did:x:2#b",
  "did:x:1?v=1#a",
  "did:x:1/p#b",
  "did:x:1#s",
];
const SERVICE_IDS: [&str; 7] = [
  "did:x:1#s",
  "did:x:1#a",
  "did:x:2#s",
  "did:x:2#a",
  "did:x:1?v=1#s",
  // fragments containing `?` and `/`
  "did:x:1#s?x",
  "did:x:1#k/1",
];
const RELATIVE_QUERIES: [&str; 11] = ["#a", "#b", "#c", "#s", "a", "b", "c", "#k/1", "k/1", "didkey", "#didkey"];
/// Queries resolved after every step (× scope ∈ {None, 6 scopes}).
const RESOLVE_QUERIES: [&str; 29] = [
  "did:x:1#didkey",
  "#didkey",
  "didkey",
  "did:x:1#k/1",
  "#k/1",
  "k/1",
  "did:x:1#s?x",
  "#s?x",
  "did:x:1#a",
  "did:x:1#b",
  "did:x:1#c",
  "did:x:2#a",
  "did:x:2#b",
  "did:x:1?v=1#a",
  "did:x:1/p#b",
  "did:x:1#s",
  "did:x:2#s",
  "did:x:1?v=1#s",
  "did:x:1?v=2#a",
  "#a",
  "#b",
  "#c",
  "#s",
  "a",
  "b",
  "c",
  "s",
  "",
  "did:x:1",
];

// Signatures of the two ways `insert_method` mishandles an id that a reference already carries.
const SIG_INSERT_ALIASES: &str = "insert-ok-over-dangling-ref-aliases";
const SIG_INSERT_NOTHING: &str = "insert-ok-but-nothing-inserted";
// The same two outcomes when a method with exactly the new id exists but a variant-keyed dangling reference hides it.
const SIG_SHADOW_DUPLICATE: &str = "insert-ok-duplicates-method-behind-variant-reference";
const SIG_SHADOW_NOTHING: &str = "insert-ok-but-nothing-inserted-behind-variant-reference";
// Signatures of lookups that treat two distinct set keys (same DID and fragment, other path/query) as one.
const SIG_VARIANT_FULL_ID: &str = "full-id-query-returns-variant-entry";
const SIG_VARIANT_REFERENCE: &str = "reference-resolves-to-variant-keyed-method";

// ---------------------------------------------------------------------------------------------
// Library-side construction (fixtures: none of this is the mechanism under test)
// ---------------------------------------------------------------------------------------------

fn lib_rel(r: Rel) -> MethodRelationship {
  match r {
    Rel::Authentication => MethodRelationship::Authentication,
    Rel::AssertionMethod => MethodRelationship::AssertionMethod,
    Rel::KeyAgreement => MethodRelationship::KeyAgreement,
    Rel::CapabilityDelegation => MethodRelationship::CapabilityDelegation,
    Rel::CapabilityInvocation => MethodRelationship::CapabilityInvocation,
  }
}

fn lib_scope(s: Scope) -> MethodScope {
  match s {
    Scope::General => MethodScope::VerificationMethod,
    Scope::Rel(r) => MethodScope::VerificationRelationship(lib_rel(r)),
  }
}

fn from_lib_scope(s: MethodScope) -> Scope {
  match s {
    MethodScope::VerificationMethod => Scope::General,
    MethodScope::VerificationRelationship(r) => Scope::Rel(match r {
      MethodRelationship::Authentication => Rel::Authentication,
      MethodRelationship::AssertionMethod => Rel::AssertionMethod,
      MethodRelationship::KeyAgreement => Rel::KeyAgreement,
      MethodRelationship::CapabilityDelegation => Rel::CapabilityDelegation,
      MethodRelationship::CapabilityInvocation => Rel::CapabilityInvocation,
    }),
  }
}

fn lib_url(id: &str) -> Result<DIDUrl, Viol> {
  Ok(fixture!(DIDUrl::parse(id), format!("DIDUrl::parse({id:?})")))
}

fn lib_method(id: &str, key: u8) -> Result<VerificationMethod, Viol> {
  let did = parts(id).did.unwrap_or(id);
  let m = VerificationMethod::builder(Object::new())
    .id(lib_url(id)?)
    .controller(fixture!(CoreDID::parse(did), format!("CoreDID::parse({did:?})")))
    .type_(MethodType::ED25519_VERIFICATION_KEY_2018)
    .data(MethodData::PublicKeyMultibase(key_text(key)))
    .build();
  Ok(fixture!(m, format!("building method {id}")))
}

fn lib_service(id: &str, tag: u8) -> Result<Service, Viol> {
  let s = Service::builder(Object::new())
    .id(lib_url(id)?)
    .type_(service_type(tag))
    .service_endpoint(fixture!(Url::parse(service_endpoint(tag)), "service endpoint url"))
    .build();
  Ok(fixture!(s, format!("building service {id}")))
}

/// `Ok(None)` = the library rejected the content.
fn build_start(start: &Start) -> Result<Option<CoreDocument>, Viol> {
  match start.via {
    Via::Json => Ok(CoreDocument::from_json(&render_document(D, &start.content).to_string()).ok()),
    Via::Builder => {
      let mut b = CoreDocument::builder(Object::new()).id(fixture!(CoreDID::parse(D), "document DID"));
      for it in &start.content {
        b = match it {
          Item::Method { id, key, scope: Scope::General } => b.verification_method(lib_method(id, *key)?),
          Item::Method { id, key, scope: Scope::Rel(r) } => {
            let m = lib_method(id, *key)?;
            match r {
              Rel::Authentication => b.authentication(m),
              Rel::AssertionMethod => b.assertion_method(m),
              Rel::KeyAgreement => b.key_agreement(m),
              Rel::CapabilityDelegation => b.capability_delegation(m),
              Rel::CapabilityInvocation => b.capability_invocation(m),
            }
          }
          Item::Ref { id, rel } => {
            let u = lib_url(id)?;
            match rel {
              Rel::Authentication => b.authentication(u),
              Rel::AssertionMethod => b.assertion_method(u),
              Rel::KeyAgreement => b.key_agreement(u),
              Rel::CapabilityDelegation => b.capability_delegation(u),
              Rel::CapabilityInvocation => b.capability_invocation(u),
            }
          }
          Item::Service { id, tag } => b.service(lib_service(id, *tag)?),
        };
      }
      Ok(b.build().ok())
    }
  }
}

// ---------------------------------------------------------------------------------------------
// Observation of the real document
// ---------------------------------------------------------------------------------------------

/// The serialised document and what the harness reads from it.
struct Snapshot {
  text: String,
  view: DocView,
  model: DocModel,
}

fn snapshot(doc: &CoreDocument, at: &str, obs: &mut Obs) -> Result<Option<Snapshot>, Viol> {
  let text = match doc.to_json() {
    Ok(t) => t,
    Err(e) => {
      obs.fail("to-json-fails", format!("{at}: to_json failed: {e}"))?;
      return Ok(None);
    }
  };
  let shaped = serde_json::from_str::<Value>(&text)
    .map_err(|e| e.to_string())
    .and_then(|v| view(&v));
  match shaped {
    Ok(view) => {
      let model = view.to_model();
      Ok(Some(Snapshot { text, view, model }))
    }
    Err(e) => {
      obs.fail("to-json-malformed", format!("{at}: {e}; json={text}"))?;
      Ok(None)
    }
  }
}

fn seen_method(m: &VerificationMethod) -> Found {
  Found {
    id: m.id().to_string(),
    mark: match m.data() {
      MethodData::PublicKeyMultibase(s) => s.clone(),
      other => format!("{other:?}"),
    },
  }
}

fn seen_service(s: &Service) -> Found {
  Found {
    id: s.id().to_string(),
    mark: s.type_().iter().cloned().collect::<Vec<_>>().join(","),
  }
}

// ---------------------------------------------------------------------------------------------
// Oracle parts 1, 2, 4 — run on every new state
// ---------------------------------------------------------------------------------------------

/// Part 1. `cause` narrows the signature of the one breach that a recognised trigger of this step explains.
/// Returns `false` when a breach was found and tolerated (the state is corrupt; the history stops).
fn check_invariant(snap: &Snapshot, at: &str, cause: Option<&(Breach, &'static str)>, start: bool, obs: &mut Obs) -> Result<bool, Viol> {
  let breaches = snap.view.breaches();
  for b in &breaches {
    let sig = match cause {
      Some((expected, cause_sig)) if expected == b => cause_sig.to_string(),
      _ if start => format!("accepted-start-has-{}", b.name()),
      _ => format!("invariant-{}", b.name()),
    };
    obs.fail(sig, format!("{at}: {b:?}; document {}", snap.text))?;
  }
  Ok(breaches.is_empty())
}

/// Part 2.
fn check_round_trip(doc: &CoreDocument, snap: &Snapshot, at: &str, obs: &mut Obs) -> CheckResult {
  match catch(|| CoreDocument::from_json(&snap.text)) {
    Ok(Ok(back)) => vensure!(
      obs,
      back == *doc,
      "roundtrip-differs",
      "{at}: from_json(to_json(doc)) != doc; json={}; reparsed={}",
      snap.text,
      back.to_json().unwrap_or_default()
    ),
    Ok(Err(e)) => vfail!(obs, "roundtrip-own-json-rejected", "{at}: from_json rejects the document's own JSON: {e}; json={}", snap.text),
    Err(p) => vfail!(obs, "roundtrip-panics", "{at}: from_json panicked: {}", p.msg),
  }
  Ok(())
}

fn judge_lookup(
  what: &str,
  query: &str,
  scope: Option<Scope>,
  got: &Option<Found>,
  pred: &Prediction,
  model: &DocModel,
  at: &str,
  obs: &mut Obs,
) -> CheckResult {
  if pred.accepts(got) {
    if let Some(exact) = &pred.exact {
      vensure!(
        obs,
        got == exact,
        SIG_VARIANT_FULL_ID,
        "{at}: {what}({query:?}, {scope:?}) returned {got:?}; an entry with exactly that id is present and answers {exact:?}; state {}",
        model.describe()
      );
    }
    return Ok(());
  }
  let sig = match got {
    Some(g) if model.general.contains_key(&g.id) && pred.matching_refs.iter().any(|r| is_variant_of(r, &g.id)) => {
      SIG_VARIANT_REFERENCE.to_string()
    }
    None => format!("{what}-none-though-every-match-resolves"),
    Some(_) if pred.matching == 0 => format!("{what}-some-though-nothing-matches"),
    Some(_) => format!("{what}-wrong-entry"),
  };
  obs.fail(
    sig,
    format!(
      "{at}: {what}({query:?}, {scope:?}) returned {got:?}; the model allows {:?}; state {}",
      pred.acceptable,
      model.describe()
    ),
  )
}

/// Part 4: every query of the universe × every scope, against the abstract lookup over `snap.model`.
fn check_resolution(doc: &mut CoreDocument, snap: &Snapshot, at: &str, obs: &mut Obs) -> CheckResult {
  let model = &snap.model;
  let scopes: [Option<Scope>; 7] = [
    None,
    Some(Scope::ALL[0]),
    Some(Scope::ALL[1]),
    Some(Scope::ALL[2]),
    Some(Scope::ALL[3]),
    Some(Scope::ALL[4]),
    Some(Scope::ALL[5]),
  ];
  for query in RESOLVE_QUERIES {
    for scope in scopes {
      let pred = model.predict_method(query, scope);
      if pred.matching > 1 && parts(query).did.is_none() {
        obs.label("resolve-ambiguous-fragment");
      }
      if pred.matching > 0 && pred.acceptable.contains(&None) {
        obs.label("resolve-through-dangling-reference");
      }
      let got = doc.resolve_method(query, scope.map(lib_scope)).map(seen_method);
      if got.is_some() && !pred.matching_refs.is_empty() {
        obs.label("resolve-through-reference");
      }
      judge_lookup("resolve-method", query, scope, &got, &pred, model, at, obs)?;
      // the same query handed over in the other types `DIDUrlQuery` converts from
      let owned: String = query.to_string();
      let got_string = doc.resolve_method(&owned, scope.map(lib_scope)).map(seen_method);
      vensure!(
        obs,
        got_string == got,
        "resolve-method-query-types-disagree",
        "{at}: resolve_method({query:?}, {scope:?}) finds {got:?} for a &str and {got_string:?} for a &String"
      );
      if let Ok(url) = DIDUrl::parse(query) {
        // (a DID URL that does not print as it was written would be another query)
        if url.to_string() == query {
          obs.label("resolve-typed-did-url-query");
          let by_ref = doc.resolve_method(&url, scope.map(lib_scope)).map(seen_method);
          let by_value = doc.resolve_method(url.clone(), scope.map(lib_scope)).map(seen_method);
          vensure!(
            obs,
            by_ref == got && by_value == got,
            "resolve-method-query-types-disagree",
            "{at}: resolve_method({query:?}, {scope:?}) finds {got:?} for a &str, {by_ref:?} for a &DIDUrl, {by_value:?} for a DIDUrl"
          );
        }
      }
      let got_mut = doc.resolve_method_mut(query, scope.map(lib_scope)).map(|m| seen_method(m));
      judge_lookup("resolve-method-mut", query, scope, &got_mut, &pred, model, at, obs)?;
    }
    let pred = model.predict_service(query);
    let got = doc.resolve_service(query).map(seen_service);
    judge_lookup("resolve-service", query, None, &got, &pred, model, at, obs)?;
  }
  for scope in scopes {
    let want = model.predict_methods(scope);
    let mut got: Vec<Found> = doc.methods(scope.map(lib_scope)).into_iter().map(seen_method).collect();
    got.sort();
    if got != want {
      // multiset difference got − want
      let mut missing = want.clone();
      let mut extras: Vec<&Found> = Vec::new();
      for g in &got {
        match missing.iter().position(|w| w == g) {
          Some(i) => {
            missing.remove(i);
          }
          None => extras.push(g),
        }
      }
      // explained by references that were resolved by matching instead of by key: every surplus method is a variant
      // of a reference of this relationship, every absent one is the exact target of such a reference
      let variant_explains = !extras.is_empty()
        && match scope {
          Some(Scope::Rel(r)) => {
            let refs: Vec<&str> = model.rels[r.index()]
              .iter()
              .filter(|(_, e)| **e == Entry::Refer)
              .map(|(id, _)| id.as_str())
              .collect();
            extras.iter().all(|g| refs.iter().any(|x| is_variant_of(x, &g.id)))
              && missing
                .iter()
                .all(|w| refs.contains(&w.id.as_str()) && extras.iter().any(|g| is_variant_of(&w.id, &g.id)))
          }
          _ => false,
        };
      let sig = if variant_explains { SIG_VARIANT_REFERENCE } else { "methods-listing-differs" };
      obs.fail(
        sig,
        format!("{at}: methods({scope:?}) = {got:?}, model says {want:?}; state {}", model.describe()),
      )?;
    }
  }
  Ok(())
}

// ---------------------------------------------------------------------------------------------
// Oracle part 3 — one step: apply the operation, judge the reported result against pre/post
// ---------------------------------------------------------------------------------------------

fn op_fragment(op: &Op) -> Option<&str> {
  let s = match op {
    Op::InsertMethod { id, .. } | Op::RemoveMethod { id, .. } | Op::InsertService { id, .. } | Op::RemoveService { id } => id,
    Op::Attach { query, .. } | Op::Detach { query, .. } => query,
  };
  parts(s).fragment
}

/// Recognised ways in which `insert_method`'s conflict test (an unscoped lookup of the new id) is blind.
#[derive(Debug, Clone, Copy, PartialEq, Eq)]
enum InsertTrigger {
  /// The target relationship itself holds a dangling reference with exactly the new id.
  DanglingSameRelationship,
  /// Another relationship holds a dangling reference with exactly the new id.
  DanglingOtherRelationship,
  /// A method with exactly the new id is carried, and so is a reference whose id differs from it only in path/query
  /// (the lookup may stop at that reference, find no target for it, and report "no such method").
  ShadowedByVariantReference,
}

impl InsertTrigger {
  /// Signature when the call reports Ok and the document is unchanged.
  fn sig_nothing_inserted(self) -> &'static str {
    match self {
      InsertTrigger::ShadowedByVariantReference => SIG_SHADOW_NOTHING,
      _ => SIG_INSERT_NOTHING,
    }
  }
  /// The id-constraint breach the call produces when it reports Ok and does insert, and its signature.
  fn breach(self, id: &str) -> (Breach, &'static str) {
    match self {
      InsertTrigger::ShadowedByVariantReference => (Breach::DuplicateEmbedded { id: id.to_string() }, SIG_SHADOW_DUPLICATE),
      _ => (Breach::ReferenceAliasesEmbedded { id: id.to_string() }, SIG_INSERT_ALIASES),
    }
  }
}

/// Every carried method id (general-purpose and relationship-embedded).
fn carried_method_ids(m: &DocModel) -> Vec<&str> {
  let embedded = Rel::ALL.into_iter().flat_map(|r| {
    m.rels[r.index()]
      .iter()
      .filter(|(_, e)| **e != Entry::Refer)
      .map(|(id, _)| id.as_str())
  });
  m.general.keys().map(String::as_str).chain(embedded).collect()
}

/// Classifies an `insert_method(id, scope)` that reported Ok on `pre`.
fn insert_trigger(pre: &DocModel, id: &str, scope: Scope) -> Option<InsertTrigger> {
  if carried_method_ids(pre).contains(&id) {
    let variant_reference = Rel::ALL
      .iter()
      .any(|r| pre.rels[r.index()].iter().any(|(x, e)| *e == Entry::Refer && is_variant_of(x, id)));
    return variant_reference.then_some(InsertTrigger::ShadowedByVariantReference);
  }
  let Scope::Rel(r) = scope else { return None };
  let refs = pre.references_to(id);
  if refs.is_empty() {
    None
  } else if refs.contains(&r) {
    Some(InsertTrigger::DanglingSameRelationship)
  } else {
    Some(InsertTrigger::DanglingOtherRelationship)
  }
}

/// The dangling-reference triggers that are certain to fire before the call is made: additionally no carried method
/// and no service matches the id, so the library's conflict test cannot find anything whatever the entry order.
fn certain_dangling_trigger(pre: &DocModel, id: &str, scope: Scope) -> Option<&'static str> {
  let blind = !carried_method_ids(pre).iter().any(|m| matches(id, m)) && !pre.services.keys().any(|s| matches(id, s));
  match insert_trigger(pre, id, scope) {
    Some(InsertTrigger::DanglingSameRelationship) if blind => Some(SIG_INSERT_NOTHING),
    Some(InsertTrigger::DanglingOtherRelationship) if blind => Some(SIG_INSERT_ALIASES),
    _ => None,
  }
}

struct StepReport {
  refused: bool,
  /// The breach a recognised trigger of this step explains, with its narrow signature.
  breach_cause: Option<(Breach, &'static str)>,
}

fn unchanged(pre: &Snapshot, post: &Snapshot) -> bool {
  pre.text == post.text
}

/// Apply `op` to `doc`, take the post-state, and check the frame condition that goes with the reported result.
fn step(doc: &mut CoreDocument, pre: &Snapshot, op: &Op, at: &str, obs: &mut Obs) -> Result<Option<(Snapshot, StepReport)>, Viol> {
  let mut report = StepReport {
    refused: false,
    breach_cause: None,
  };
  macro_rules! post {
    () => {
      match snapshot(doc, at, obs)? {
        Some(s) => s,
        None => return Ok(None),
      }
    };
  }
  macro_rules! call {
    ($name:expr, $e:expr) => {
      match catch(|| $e) {
        Ok(r) => r,
        Err(p) => {
          obs.fail(format!("{}-panics", $name), format!("{at}: panicked at {}:{}: {}", p.file, p.line, p.msg))?;
          return Ok(None);
        }
      }
    };
  }
  let state = |s: &Snapshot| s.model.describe();
  let post = match op {
    Op::InsertMethod { id, key, scope } => {
      let method = lib_method(id, *key)?;
      let fresh = parts(id).fragment.map(|f| !pre.model.fragment_in_use(f)).unwrap_or(false);
      let r = call!("insert-method", doc.insert_method(method, lib_scope(*scope)));
      let post = post!();
      match r {
        Err(_) => {
          report.refused = true;
          obs.label(if fresh { "fresh-insert-method-refused" } else { "insert-method-refused" });
          vensure!(
            obs,
            unchanged(pre, &post),
            "insert-method-refused-but-changed",
            "{at}: returned Err but the document changed: {} -> {}",
            pre.text,
            post.text
          );
        }
        Ok(()) => {
          obs.label(if fresh { "fresh-insert-method-ok" } else { "insert-method-ok" });
          let trigger = insert_trigger(&pre.model, id, *scope);
          let want = pre.model.after_insert_method(id, *key, *scope);
          let as_predicted = matches!(&want, Ok(w) if *w == post.model);
          if !as_predicted {
            let why = match &want {
              Ok(w) => format!("expected {}", w.describe()),
              Err(e) => e.clone(),
            };
            if post.model == pre.model {
              obs.fail(
                trigger.map(|t| t.sig_nothing_inserted()).unwrap_or("insert-method-ok-but-unchanged"),
                format!("{at}: returned Ok but the document is unchanged ({why}); state {}", state(pre)),
              )?;
            } else {
              obs.fail(
                "insert-method-ok-wrong-post-state",
                format!("{at}: returned Ok; {why}; got {}; before {}", state(&post), state(pre)),
              )?;
            }
          }
          report.breach_cause = trigger.map(|t| t.breach(id));
        }
      }
      post
    }
    Op::RemoveMethod { id, and_scope } => {
      let url = lib_url(id)?;
      let r: Option<(VerificationMethod, Option<MethodScope>)> = if *and_scope {
        call!("remove-method-and-scope", doc.remove_method_and_scope(&url)).map(|(m, s)| (m, Some(s)))
      } else {
        call!("remove-method", doc.remove_method(&url)).map(|m| (m, None))
      };
      let post = post!();
      let had = pre.model.method_with_id(id);
      match r {
        Some((m, scope)) => {
          obs.label("remove-method-some");
          let returned = fixture!(m.to_json_value(), "serialising the removed method");
          let known = matches!(had, Some((s, p)) if *p == returned && scope.map(|x| from_lib_scope(x) == s).unwrap_or(true));
          vensure!(
            obs,
            known,
            "remove-method-returned-unknown-method",
            "{at}: returned {returned} in {scope:?}; the pre-state carries {had:?} under that id; state {}",
            state(pre)
          );
          let want = pre.model.after_remove_method(id);
          vensure!(
            obs,
            post.model == want,
            "remove-method-wrong-post-state",
            "{at}: returned Some; expected pre - method - its references = {}; got {}",
            want.describe(),
            state(&post)
          );
        }
        None => {
          vensure!(
            obs,
            had.is_none(),
            "remove-method-none-although-present",
            "{at}: returned None although the pre-state carries {had:?} under exactly that id; state {}",
            state(pre)
          );
          // `None` says that no method was found; the rustdoc nevertheless removes every reference with that id
          // ("includes cases where the reference is to a method contained in another DID document").
          let mut refs_gone = pre.model.clone();
          for r in pre.model.references_to(id) {
            refs_gone.rels[r.index()].remove(id);
          }
          if unchanged(pre, &post) {
            report.refused = true;
            obs.label("remove-method-none");
          } else {
            obs.label("remove-method-none-references-removed");
            vensure!(
              obs,
              post.model == refs_gone,
              "remove-method-none-but-changed",
              "{at}: returned None; the document may only lose references to that id; before {} after {}",
              state(pre),
              state(&post)
            );
          }
        }
      }
      post
    }
    Op::Attach { query, rel } | Op::Detach { query, rel } => {
      let attach = matches!(op, Op::Attach { .. });
      let name = if attach { "attach" } else { "detach" };
      let r = if attach {
        call!("attach", doc.attach_method_relationship(query.as_str(), lib_rel(*rel)))
      } else {
        call!("detach", doc.detach_method_relationship(query.as_str(), lib_rel(*rel)))
      };
      let post = post!();
      match r {
        Err(_) | Ok(false) => {
          report.refused = r.is_err();
          obs.label(format!("{name}-{}", if r.is_err() { "refused" } else { "false" }));
          if !unchanged(pre, &post) {
            obs.fail(
              format!("{name}-{}-but-changed", if r.is_err() { "refused" } else { "false" }),
              format!("{at}: returned {r:?} but the document changed: {} -> {}", pre.text, post.text),
            )?;
          }
          if let Ok(false) = r {
            let explained = if attach {
              pre.model.explains_attach_false(query, *rel)
            } else {
              pre.model.explains_detach_false(query, *rel)
            };
            if let Err(why) = explained {
              obs.fail(
                format!("{name}-false-wrong"),
                format!("{at}: returned Ok(false); {why}; document {}", state(pre)),
              )?;
            }
          }
        }
        Ok(true) => {
          obs.label(format!("{name}-true"));
          let explained = if attach {
            pre.model.explains_attach(query, *rel, &post.model)
          } else {
            pre.model.explains_detach(query, *rel, &post.model)
          };
          if let Err(why) = explained {
            obs.fail(
              format!("{name}-true-wrong-post-state"),
              format!("{at}: returned Ok(true); {why}; before {} after {}", state(pre), state(&post)),
            )?;
          }
        }
      }
      post
    }
    Op::InsertService { id, tag } => {
      let service = lib_service(id, *tag)?;
      let r = call!("insert-service", doc.insert_service(service));
      let post = post!();
      match r {
        Err(_) => {
          report.refused = true;
          obs.label("insert-service-refused");
          vensure!(
            obs,
            unchanged(pre, &post),
            "insert-service-refused-but-changed",
            "{at}: returned Err but the document changed: {} -> {}",
            pre.text,
            post.text
          );
        }
        Ok(()) => {
          obs.label("insert-service-ok");
          let want = pre.model.after_insert_service(id, *tag);
          if !matches!(&want, Ok(w) if *w == post.model) {
            obs.fail(
              "insert-service-ok-wrong-post-state",
              format!("{at}: returned Ok; expected {:?}; got {}; before {}", want.map(|w| w.describe()), state(&post), state(pre)),
            )?;
          }
        }
      }
      post
    }
    Op::RemoveService { id } => {
      let url = lib_url(id)?;
      let r = call!("remove-service", doc.remove_service(&url));
      let post = post!();
      match r {
        None => {
          report.refused = true;
          obs.label("remove-service-none");
          vensure!(
            obs,
            unchanged(pre, &post),
            "remove-service-none-but-changed",
            "{at}: returned None but the document changed: {} -> {}",
            pre.text,
            post.text
          );
        }
        Some(s) => {
          obs.label("remove-service-some");
          let returned = fixture!(s.to_json_value(), "serialising the removed service");
          vensure!(
            obs,
            pre.model.services.get(id) == Some(&returned),
            "remove-service-returned-unknown-service",
            "{at}: returned {returned}; state {}",
            state(pre)
          );
          let want = pre.model.after_remove_service(id);
          vensure!(
            obs,
            post.model == want,
            "remove-service-wrong-post-state",
            "{at}: returned Some; expected {}; got {}",
            want.describe(),
            state(&post)
          );
        }
      }
      post
    }
  };
  Ok(Some((post, report)))
}

// ---------------------------------------------------------------------------------------------
// The check
// ---------------------------------------------------------------------------------------------

pub fn check(case: &Case, obs: &mut Obs) -> CheckResult {
  let content_model = DocModel::from_content(D, &case.start.content);
  let Some(mut doc) = build_start(&case.start)? else {
    obs.label("start-rejected");
    let constraints_hold = content_model.is_ok()
      && view(&render_document(D, &case.start.content))
        .map(|v| v.breaches().is_empty())
        .unwrap_or(false);
    if constraints_hold {
      // informational: the gate is stricter than the statement's three constraints (service id = reference id)
      obs.label("start-rejected-though-constraints-hold");
    }
    return Ok(());
  };
  obs.label(match (case.start.via, case.start.content.is_empty()) {
    (_, true) => "start-empty",
    (Via::Builder, _) => "start-built",
    (Via::Json, _) => "start-deserialised",
  });

  // ----- step 0: the accepted starting document ------------------------------------------------
  let Some(mut cur) = snapshot(&doc, "start", obs)? else { return Ok(()) };
  if !check_invariant(&cur, "start", None, true, obs)? {
    return Ok(());
  }
  match &content_model {
    Ok(m) => vensure!(
      obs,
      *m == cur.model,
      "start-differs-from-content",
      "accepted starting document {} does not carry exactly the content {:?}",
      cur.text,
      case.start.content
    ),
    Err(e) => vfail!(obs, "start-accepted-with-repeated-key", "the library accepted content that is not a set: {e}"),
  }
  check_round_trip(&doc, &cur, "start", obs)?;
  check_resolution(&mut doc, &cur, "start", obs)?;

  let start_dangling = !cur.model.dangling_references().is_empty();
  if start_dangling {
    obs.label("start-dangling-reference");
  }
  if cur.model.all_ids().iter().any(|id| parts(id).did == Some(F)) {
    obs.label("start-foreign-id");
  }
  let mut refused = 0usize;
  let mut touched_existing = 0usize;

  // ----- the history -----------------------------------------------------------------------------
  for (i, op) in case.ops.iter().enumerate() {
    let at = format!("step {} {:?}", i + 1, op);
    if let Op::InsertMethod { id, scope, .. } = op {
      if let Some(sig) = certain_dangling_trigger(&cur.model, id, *scope) {
        obs.label("insert-over-dangling-reference");
        if obs.is_known(sig) {
          // known finding: this call returns Ok and corrupts (or silently ignores) — skip it, keep the history going
          obs.excluded(sig);
          continue;
        }
      }
    }
    if op_fragment(op).map(|f| cur.model.fragment_in_use(f)).unwrap_or(false) {
      touched_existing += 1;
    }
    let Some((post, report)) = step(&mut doc, &cur, op, &at, obs)? else { return Ok(()) };
    if report.refused {
      refused += 1;
    }
    if !check_invariant(&post, &at, report.breach_cause.as_ref(), false, obs)? {
      return Ok(());
    }
    if !unchanged(&cur, &post) {
      check_round_trip(&doc, &post, &at, obs)?;
      check_resolution(&mut doc, &post, &at, obs)?;
    }
    cur = post;
  }

  if start_dangling || (refused >= 1 && touched_existing >= 1) {
    obs.nontrivial();
  }
  Ok(())
}

// ---------------------------------------------------------------------------------------------
// Bounded-exhaustive histories over a reduced universe
// ---------------------------------------------------------------------------------------------

fn s(x: &str) -> String {
  x.to_string()
}

/// 47 operations: ids {D#a, D#b, F#a} × scopes {general, authentication, keyAgreement}, every query form, the service
/// id that collides with a method id, and one query-variant id.
fn reduced_ops() -> Vec<Op> {
  let mut ops = Vec::new();
  let ids = [("did:x:1#a", 1u8), ("did:x:1#b", 2), ("did:x:2#a", 3)];
  let scopes = [Scope::General, Scope::Rel(Rel::Authentication), Scope::Rel(Rel::KeyAgreement)];
  for (id, key) in ids {
    for scope in scopes {
      ops.push(Op::InsertMethod { id: s(id), key, scope });
    }
  }
  for (id, _) in ids {
    ops.push(Op::RemoveMethod { id: s(id), and_scope: true });
  }
  ops.push(Op::RemoveMethod { id: s("did:x:1#a"), and_scope: false });
  for query in ["did:x:1#a", "#a", "b", "did:x:1#b", "did:x:2#a"] {
    for rel in [Rel::Authentication, Rel::KeyAgreement] {
      ops.push(Op::Attach { query: s(query), rel });
      ops.push(Op::Detach { query: s(query), rel });
    }
  }
  for id in ["did:x:1#s", "did:x:1#a", "did:x:2#a"] {
    ops.push(Op::InsertService { id: s(id), tag: 1 });
    ops.push(Op::RemoveService { id: s(id) });
  }
  ops.push(Op::InsertMethod { id: s("did:x:1?v=1#a"), key: 4, scope: Scope::General });
  ops.push(Op::InsertMethod { id: s("did:x:1?v=1#a"), key: 4, scope: Scope::Rel(Rel::Authentication) });
  ops.push(Op::RemoveMethod { id: s("did:x:1?v=1#a"), and_scope: true });
  ops.push(Op::InsertService { id: s("did:x:1?v=1#s"), tag: 2 });
  // ids whose fragment contains a `/` or a `?`
  ops.push(Op::InsertMethod { id: s("did:x:1#k/1"), key: 5, scope: Scope::General });
  ops.push(Op::Attach { query: s("did:x:1#k/1"), rel: Rel::Authentication });
  ops.push(Op::InsertService { id: s("did:x:1#s?x"), tag: 2 });
  ops.push(Op::InsertService { id: s("did:x:1#k/1"), tag: 2 });
  ops
}

/// Empty; a typical document; one with a dangling reference (as the repository's own test fixture has); one with
/// foreign-DID entries — the non-empty ones both built and deserialised.
fn reduced_starts() -> Vec<Start> {
  let typical = vec![
    Item::Method { id: s("did:x:1#a"), key: 1, scope: Scope::General },
    Item::Ref { id: s("did:x:1#a"), rel: Rel::Authentication },
    Item::Method { id: s("did:x:1#b"), key: 2, scope: Scope::Rel(Rel::KeyAgreement) },
    Item::Service { id: s("did:x:1#s"), tag: 1 },
  ];
  let dangling = vec![
    Item::Method { id: s("did:x:1#a"), key: 1, scope: Scope::General },
    Item::Ref { id: s("did:x:1#b"), rel: Rel::KeyAgreement },
  ];
  let foreign = vec![
    Item::Method { id: s("did:x:2#a"), key: 3, scope: Scope::General },
    Item::Method { id: s("did:x:1#a"), key: 1, scope: Scope::Rel(Rel::Authentication) },
    Item::Ref { id: s("did:x:2#b"), rel: Rel::Authentication },
    Item::Service { id: s("did:x:2#s"), tag: 1 },
  ];
  let mut out = vec![Start { via: Via::Builder, content: vec![] }];
  for content in [typical, dangling, foreign] {
    out.push(Start { via: Via::Builder, content: content.clone() });
    out.push(Start { via: Via::Json, content });
  }
  out
}

fn histories(depth: u32) -> impl Iterator<Item = Case> {
  let ops = reduced_ops();
  let starts = reduced_starts();
  let n = ops.len() as u64;
  let per_start = n.pow(depth);
  (0..starts.len() as u64 * per_start).map(move |i| {
    let start = starts[(i / per_start) as usize].clone();
    let mut code = i % per_start;
    let mut seq = Vec::with_capacity(depth as usize);
    for _ in 0..depth {
      seq.push(ops[(code % n) as usize].clone());
      code /= n;
    }
    Case { start, ops: seq }
  })
}

// ---------------------------------------------------------------------------------------------
// Random histories over the full universe
// ---------------------------------------------------------------------------------------------

/// Skewed towards two relationships so that attach/detach/insert meet earlier entries often enough.
fn rel_strategy() -> impl Strategy<Value = Rel> {
  prop_oneof![
    4 => Just(Rel::Authentication),
    3 => Just(Rel::KeyAgreement),
    1 => Just(Rel::AssertionMethod),
    1 => Just(Rel::CapabilityDelegation),
    1 => Just(Rel::CapabilityInvocation),
  ]
}

fn scope_strategy() -> impl Strategy<Value = Scope> {
  prop_oneof![
    4 => Just(Scope::General),
    5 => rel_strategy().prop_map(Scope::Rel),
  ]
}

/// The first four ids (own and foreign DID, two fragments) are drawn more often than the rest.
fn method_id_strategy() -> impl Strategy<Value = String> {
  prop_oneof![
    3 => prop::sample::select(vec!["did:x:1#a", "did:x:1#b", "did:x:2#a"]).prop_map(s),
    2 => prop::sample::select(METHOD_IDS.to_vec()).prop_map(s),
  ]
}

fn service_id_strategy() -> impl Strategy<Value = String> {
  prop::sample::select(SERVICE_IDS.to_vec()).prop_map(s)
}

fn query_strategy() -> impl Strategy<Value = String> {
  prop_oneof![
    3 => method_id_strategy(),
    2 => prop::sample::select(RELATIVE_QUERIES.to_vec()).prop_map(s),
  ]
}

fn op_strategy() -> impl Strategy<Value = Op> {
  prop_oneof![
    5 => (method_id_strategy(), 1u8..=3, scope_strategy()).prop_map(|(id, key, scope)| Op::InsertMethod { id, key, scope }),
    2 => (method_id_strategy(), any::<bool>()).prop_map(|(id, and_scope)| Op::RemoveMethod { id, and_scope }),
    4 => (query_strategy(), rel_strategy()).prop_map(|(query, rel)| Op::Attach { query, rel }),
    2 => (query_strategy(), rel_strategy()).prop_map(|(query, rel)| Op::Detach { query, rel }),
    2 => (service_id_strategy(), 1u8..=2).prop_map(|(id, tag)| Op::InsertService { id, tag }),
    1 => service_id_strategy().prop_map(|id| Op::RemoveService { id }),
  ]
}

/// Starting content draws ids uniformly (fewer colliding items, so fewer rejected starting documents).
fn item_strategy() -> impl Strategy<Value = Item> {
  let id = || prop::sample::select(METHOD_IDS.to_vec()).prop_map(s);
  prop_oneof![
    4 => (id(), 1u8..=3, scope_strategy()).prop_map(|(id, key, scope)| Item::Method { id, key, scope }),
    3 => (id(), rel_strategy()).prop_map(|(id, rel)| Item::Ref { id, rel }),
    2 => (service_id_strategy(), 1u8..=2).prop_map(|(id, tag)| Item::Service { id, tag }),
  ]
}

fn case_strategy() -> impl Strategy<Value = Case> {
  (
    prop_oneof![Just(Via::Builder), Just(Via::Json)],
    prop::collection::vec(item_strategy(), 0..=5),
    prop::collection::vec(op_strategy(), 0..=25),
  )
    .prop_map(|(via, content, ops)| Case {
      start: Start { via, content },
      ops,
    })
}

pub fn run(ctx: &mut Ctx) {
  ctx.rule = "Histories of checked mutations interpreted on CoreDocument and on a set-of-entries model; after every step: id constraints on the \
    to_json() output (harness code only), frame condition for the reported result, from_json(to_json) == doc, and 26 queries × 7 scopes of \
    resolve_method/resolve_method_mut plus resolve_service and methods(scope) against the model lookup. Exhaustive: every history of the stated \
    depth over 47 operations (ids D#a, D#b, F#a, D?v=1#a × general/authentication/keyAgreement; queries as full id, #frag, frag; services D#s, \
    D#a, F#a) from 7 starting documents (empty; typical, dangling-reference and foreign-DID content, each built and deserialised). Random: \
    0..=5 content items and 0..=25 operations over 8 method ids, 5 service ids, 6 scopes, 5 relationships. Non-trivial = starting document has a \
    dangling reference, or the history has >= 1 refused operation and >= 1 operation whose fragment is already carried by some entry; \
    distinct by case bytes."
    .into();
  ctx.assume("two ids are the same id iff their strings are equal (this is also the key equality of the library's ordered sets); a query matches an entry when the DID, if the query has one, and the fragment agree");
  ctx.assume("which operations are refused is not prescribed: Err/None/Ok(false) must leave the JSON text unchanged, a reported success must produce exactly the documented change; successful fresh insertions etc. are vacuity guards");
  ctx.assume("remove_method returning None may still remove references with that id (rustdoc: references are removed even when the method lives in another document); nothing else may change");
  ctx.assume("a lookup that several entries match may return the answer of any of them (a dangling reference answers nothing); an absolute query whose exact id is a key must return that key's answer");
  ctx.assume("the sets are compared without order; order is only demanded through from_json(to_json(doc)) == doc and through refused operations leaving the JSON text identical");
  ctx.assume("rejected starting content is counted (start-rejected), not judged");

  let depth = ctx.pick(2, 3);
  ctx.exhaustive("histories", || histories(depth), check);
  ctx.proptest("random", ctx.pick(40_000, 1_000_000), case_strategy, check);

  for class in [
    "histories:fresh-insert-method-ok",
    "histories:insert-method-refused",
    "histories:attach-true",
    "histories:detach-true",
    "histories:remove-method-some",
    "histories:insert-service-refused",
    "histories:start-dangling-reference",
    "histories:insert-over-dangling-reference",
    "random:fresh-insert-method-ok",
    "random:insert-method-ok",
    "random:insert-method-refused",
    "random:attach-true",
    "random:attach-refused",
    "random:detach-true",
    "random:remove-method-some",
    "random:remove-method-none-references-removed",
    "random:insert-service-ok",
    "random:insert-service-refused",
    "random:remove-service-some",
    "random:start-built",
    "random:start-deserialised",
    "random:start-dangling-reference",
    "random:start-foreign-id",
    "random:insert-over-dangling-reference",
    "random:resolve-ambiguous-fragment",
    "random:resolve-through-reference",
    "random:resolve-through-dangling-reference",
  ] {
    ctx.require_class(class, ctx.pick(20, 200));
  }
}

pub fn replay(v: &serde_json::Value, obs: &mut Obs) -> Result<CheckResult, String> {
  replay_with::<Case>(v, obs, check)
}
