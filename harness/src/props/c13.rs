//! C13 — Timestamps are total, canonical whole-second UTC instants in years 0000–9999.

use crate::engine::*;
use crate::model::civil::*;
use crate::vensure;
use crate::vfail;
use identity_core::common::Duration;
use identity_core::common::Timestamp;
use identity_core::convert::FromJson;
use identity_core::convert::ToJson;
use proptest::prelude::*;
use serde::Deserialize;
use serde::Serialize;
use std::str::FromStr;

#[derive(Debug, Clone, Serialize, Deserialize)]
pub enum Case {
  /// Offer a string to every parsing route.
  Parse { s: String },
  /// `from_unix(s)`.
  FromUnix { s: i64 },
  /// `from_unix(base)` then `checked_add`/`checked_sub` of `Duration::<unit>(arg)`.
  Arith { base: i64, unit: u8, arg: u32, sub: bool },
  /// Ordering of two in-range instants.
  Cmp { a: i64, b: i64 },
  /// `from_unix(base)` then `checked_add`/`checked_sub` of a `Duration` read from its JSON form `[secs, nanos]`
  /// (the only way to express negative and sub-second durations).
  ArithJson { base: i64, secs: i64, nanos: i32, sub: bool },
  /// `Timestamp::now_utc()` (the one constructor that starts from an instant with nanoseconds).
  Now,
  /// Two strings offered one after the other on the same thread: what the second one yields must not depend on the
  /// first (same local date-time and fraction, two different offsets: equal length, long common prefix).
  ParseSeq { local_unix: i64, frac: String, off_a: i32, off_b: i32 },
}

const UNITS: [(&str, i128); 5] = [
  ("seconds", 1),
  ("minutes", 60),
  ("hours", 3600),
  ("days", 86400),
  ("weeks", 604800),
];

fn duration(unit: u8, arg: u32) -> Duration {
  match unit % 5 {
    0 => Duration::seconds(arg),
    1 => Duration::minutes(arg),
    2 => Duration::hours(arg),
    3 => Duration::days(arg),
    _ => Duration::weeks(arg),
  }
}

/// Everything the statement promises about a value that was accepted, however it was obtained.
fn battery(t: Timestamp, via: &str, obs: &mut Obs) -> CheckResult {
  let unix = match catch(|| t.to_unix()) {
    Ok(u) => u,
    Err(p) => return obs.fail("to-unix-panics", format!("{via}: {}", p.msg)),
  };
  vensure!(
    obs,
    (MIN_UNIX..=MAX_UNIX).contains(&unix),
    "accepted-out-of-range",
    "{via}: accepted timestamp has unix seconds {unix}, outside [{MIN_UNIX}, {MAX_UNIX}]"
  );
  let text = match catch(|| t.to_rfc3339()) {
    Ok(s) => s,
    Err(p) => return obs.fail("format-panics", format!("{via}: to_rfc3339 panicked for unix {unix}: {}", p.msg)),
  };
  if (MIN_UNIX..=MAX_UNIX).contains(&unix) {
    // what was formatted is the value: an RFC 3339 string that denotes this very second in UTC, without a fraction
    // (which spelling of the zero offset and of the `T`/`Z` letters is used is not part of the statement)
    let want = format_unix(unix);
    let denotes = parse_rfc3339(&text);
    vensure!(
      obs,
      denotes
        .as_ref()
        .is_some_and(|r| r.unix == unix && !r.has_fraction && !r.nonzero_offset && !r.leap),
      "non-canonical-format",
      "{via}: to_rfc3339 gave {text:?}, which is not a whole-second UTC spelling of {unix} (such as {want:?})"
    );
    obs.label(if text == want { "format:canonical-text" } else { "format:other-utc-spelling" });
  }
  match catch(|| Timestamp::parse(&text)) {
    Ok(Ok(t2)) => vensure!(
      obs,
      t2 == t,
      "format-parse-roundtrip",
      "{via}: parse(to_rfc3339()) differs: {text:?} -> unix {}",
      t2.to_unix()
    ),
    Ok(Err(e)) => vfail!(obs, "format-parse-roundtrip", "{via}: own output {text:?} is rejected: {e}"),
    Err(p) => vfail!(obs, "parse-panics", "{via}: parse({text:?}) panicked: {}", p.msg),
  }
  match catch(|| Timestamp::from_unix(unix)) {
    Ok(Ok(t2)) => vensure!(obs, t2 == t, "unix-roundtrip", "{via}: from_unix(to_unix()) differs for unix {unix}"),
    Ok(Err(e)) => vfail!(obs, "unix-roundtrip", "{via}: from_unix({unix}) of an accepted value fails: {e}"),
    Err(p) => vfail!(obs, "from-unix-panics", "{via}: from_unix({unix}) panicked: {}", p.msg),
  }
  match catch(|| t.to_json()) {
    Ok(Ok(j)) => {
      match catch(|| Timestamp::from_json(&j)) {
        Ok(Ok(t2)) => vensure!(obs, t2 == t, "json-roundtrip", "{via}: from_json(to_json()) differs for {j}"),
        Ok(Err(e)) => vfail!(obs, "json-roundtrip", "{via}: own JSON {j} is rejected: {e}"),
        Err(p) => vfail!(obs, "json-panics", "{via}: from_json({j}) panicked: {}", p.msg),
      }
    }
    Ok(Err(e)) => vfail!(obs, "json-roundtrip", "{via}: to_json fails: {e}"),
    Err(p) => vfail!(obs, "json-panics", "{via}: to_json panicked: {}", p.msg),
  }
  match catch(|| (format!("{t}"), format!("{t:?}"), String::from(t))) {
    Ok((d, _dbg, s)) => {
      // Display, Debug and String::from only have to succeed: their text is not part of the statement.
      obs.label(if d == text && s == text { "display-is-rfc3339-text" } else { "display-is-other-text" });
    }
    Err(p) => vfail!(obs, "format-panics", "{via}: Display/Debug/String::from panicked: {}", p.msg),
  }
  Ok(())
}

pub fn check(case: &Case, obs: &mut Obs) -> CheckResult {
  match case {
    Case::Parse { s } => {
      let reference = parse_rfc3339(s);
      if let Some(r) = &reference {
        if r.has_fraction || r.nonzero_offset || r.unix < MIN_UNIX + 86400 || r.unix > MAX_UNIX - 86400 {
          obs.nontrivial();
        }
        obs.label(if (MIN_UNIX..=MAX_UNIX).contains(&r.unix) {
          "ref-in-range"
        } else {
          "ref-out-of-range"
        });
      } else {
        obs.label("ref-not-rfc3339");
      }
      // Every route that reads a string is held to the statement on its own: it fails, or it yields the instant the
      // string denotes, as a value that passes the accepted-value battery. (Whether two routes accept the same
      // strings outside RFC 3339 is not part of the statement; it is recorded as a class.)
      let json = serde_json::to_string(s).unwrap();
      // the same JSON string with its first character escaped: the deserialiser cannot borrow it from the input
      let escaped_json = match s.chars().next() {
        Some(c) if (c as u32) < 0x10000 => format!("\"\\u{:04x}{}", c as u32, &json[1 + serde_json::to_string(&c.to_string()).unwrap().len() - 2..]),
        _ => json.clone(),
      };
      type R = Result<Result<Timestamp, identity_core::Error>, PanicInfo>;
      let routes: [(&str, R); 8] = [
        ("parse", catch(|| Timestamp::parse(s))),
        ("from_str", catch(|| Timestamp::from_str(s))),
        ("try_from(&str)", catch(|| Timestamp::try_from(s.as_str()))),
        ("try_from(String)", catch(|| Timestamp::try_from(s.clone()))),
        ("from_json", catch(|| Timestamp::from_json(&json))),
        ("from_json(escaped)", catch(|| Timestamp::from_json(&escaped_json))),
        ("from_json_value", catch(|| Timestamp::from_json_value(serde_json::Value::String(s.clone())))),
        ("from_json_slice", catch(|| Timestamp::from_json_slice(json.as_bytes()))),
      ];
      let mut accepted = 0usize;
      let n_routes = routes.len();
      for (name, r) in routes {
        let r = match r {
          Err(p) => return obs.fail("parse-panics", format!("{name}({s:?}) panicked: {}", p.msg)),
          Ok(r) => r,
        };
        match r {
          Err(_) => {
            if name == "parse" {
              obs.label("rejected");
              if let Some(r) = &reference {
                if (MIN_UNIX..=MAX_UNIX).contains(&r.unix) && !r.leap {
                  obs.label("rejected-but-ref-valid");
                }
              }
            }
          }
          Ok(t) => {
            accepted += 1;
            if name == "parse" {
              obs.label("accepted");
            }
            battery(t, name, obs)?;
            if let Some(r) = &reference {
              let got = t.to_unix();
              let ok = got == r.unix || (r.leap && got == r.unix - 1);
              if r.leap {
                obs.label("accepted-leap-second");
              }
              vensure!(
                obs,
                ok,
                "wrong-instant",
                "{name}({s:?}) gives unix {got} ({}), the string denotes {} ({})",
                format_unix(got),
                r.unix,
                format_unix(r.unix)
              );
            } else if name == "parse" {
              obs.label("accepted-unrecognised");
            }
          }
        }
      }
      if accepted != 0 && accepted != n_routes {
        obs.label("routes-differ-in-acceptance");
      }
      Ok(())
    }
    Case::FromUnix { s } => {
      let inside = (MIN_UNIX..=MAX_UNIX).contains(s);
      if (*s as i128 - MIN_UNIX as i128).abs() <= 86400 || (*s as i128 - MAX_UNIX as i128).abs() <= 86400 {
        obs.nontrivial();
      }
      match catch(|| Timestamp::from_unix(*s)) {
        Err(p) => obs.fail("from-unix-panics", format!("from_unix({s}) panicked: {}", p.msg)),
        Ok(Ok(t)) => {
          obs.label("accepted");
          vensure!(obs, inside, "accepted-out-of-range", "from_unix({s}) accepted outside the range");
          vensure!(obs, t.to_unix() == *s, "unix-roundtrip", "from_unix({s}).to_unix() = {}", t.to_unix());
          battery(t, "from_unix", obs)
        }
        Ok(Err(_)) => {
          obs.label("rejected");
          vensure!(obs, !inside, "from-unix-rejects-in-range", "from_unix({s}) rejected inside the range");
          Ok(())
        }
      }
    }
    Case::Arith { base, unit, arg, sub } => {
      let t = match Timestamp::from_unix(*base) {
        Ok(t) => t,
        Err(_) => {
          obs.discard("base-rejected");
          return Ok(());
        }
      };
      let (uname, mult) = UNITS[(*unit % 5) as usize];
      let delta = mult * (*arg as i128);
      let model = if *sub { *base as i128 - delta } else { *base as i128 + delta };
      let expect = if model >= MIN_UNIX as i128 && model <= MAX_UNIX as i128 {
        Some(model as i64)
      } else {
        None
      };
      if expect.is_none() || (model - MIN_UNIX as i128).abs() <= 86400 || (model - MAX_UNIX as i128).abs() <= 86400 {
        obs.nontrivial();
      }
      obs.label(if expect.is_some() { "arith-in-range" } else { "arith-leaves-range" });
      let op = if *sub { "checked_sub" } else { "checked_add" };
      let r = match catch(|| {
        let d = duration(*unit, *arg);
        if *sub {
          t.checked_sub(d)
        } else {
          t.checked_add(d)
        }
      }) {
        Ok(r) => r,
        Err(p) => return obs.fail("arith-panics", format!("{base}.{op}({uname}({arg})) panicked: {}", p.msg)),
      };
      vensure!(
        obs,
        r.map(|t| t.to_unix()) == expect,
        "checked-arith-mismatch",
        "{base}.{op}({uname}({arg})) = {:?}, integer model says {:?}",
        r.map(|t| t.to_unix()),
        expect
      );
      if let Some(t2) = r {
        battery(t2, op, obs)?;
      }
      Ok(())
    }
    Case::ParseSeq { local_unix, frac, off_a, off_b } => {
      let (Some(a), Some(b)) = (render(*local_unix, *off_a, frac, 'T', None), render(*local_unix, *off_b, frac, 'T', None)) else {
        obs.discard("not-renderable");
        return Ok(());
      };
      obs.nontrivial();
      obs.label(if a.len() == b.len() && a.len() > 32 { "sequence:long-common-prefix" } else { "sequence:short" });
      // every route once with the first string, then the full check of the second
      let json = serde_json::to_string(&a).unwrap_or_default();
      let _ = catch(|| (Timestamp::parse(&a).is_ok(), Timestamp::from_str(&a).is_ok(), Timestamp::from_json(&json).is_ok()));
      check(&Case::Parse { s: b }, obs)
    }
    Case::Now => {
      let t = match catch(Timestamp::now_utc) {
        Ok(t) => t,
        Err(p) => return obs.fail("now-panics", format!("now_utc() panicked: {}", p.msg)),
      };
      obs.nontrivial();
      battery(t, "now_utc", obs)
    }
    Case::ArithJson { base, secs, nanos, sub } => {
      let t = match Timestamp::from_unix(*base) {
        Ok(t) => t,
        Err(_) => {
          obs.discard("base-rejected");
          return Ok(());
        }
      };
      // Only the pairs a serialiser writes are durations "the API can express": |nanos| below one second, and of the
      // sign of the seconds. What a reader makes of any other pair is its own business.
      if nanos.unsigned_abs() >= 1_000_000_000 || (*secs > 0 && *nanos < 0) || (*secs < 0 && *nanos > 0) {
        obs.discard("duration-pair-not-normalised");
        return Ok(());
      }
      let text = format!("[{secs},{nanos}]");
      let d: Duration = match catch(|| Duration::from_json(&text)) {
        Ok(Ok(d)) => d,
        Ok(Err(_)) => {
          obs.discard("duration-json-rejected");
          return Ok(());
        }
        Err(p) => return obs.fail("arith-panics", format!("Duration::from_json({text}) panicked: {}", p.msg)),
      };
      const NS: i128 = 1_000_000_000;
      let delta = *secs as i128 * NS + *nanos as i128;
      let exact = if *sub { *base as i128 * NS - delta } else { *base as i128 * NS + delta };
      let (lo, hi) = (exact.div_euclid(NS), -((-exact).div_euclid(NS)));
      let inside = |v: i128| (MIN_UNIX as i128..=MAX_UNIX as i128).contains(&v).then_some(v as i64);
      // whole seconds: integer arithmetic; a sub-second part may be cut off in either direction
      let allowed = [inside(lo), inside(hi)];
      obs.label(match (delta < 0, delta % NS != 0) {
        (false, false) => "json-duration:whole",
        (true, false) => "json-duration:negative",
        (false, true) => "json-duration:fraction",
        (true, true) => "json-duration:negative-fraction",
      });
      obs.label(if allowed.contains(&None) { "arith-leaves-range" } else { "arith-in-range" });
      obs.nontrivial();
      let op = if *sub { "checked_sub" } else { "checked_add" };
      let r = match catch(|| if *sub { t.checked_sub(d) } else { t.checked_add(d) }) {
        Ok(r) => r,
        Err(p) => return obs.fail("arith-panics", format!("{base}.{op}(duration {text}) panicked: {}", p.msg)),
      };
      if let Some(t2) = r {
        // the value handed out is a timestamp like any other
        battery(t2, op, obs)?;
      }
      vensure!(
        obs,
        allowed.contains(&r.map(|t| t.to_unix())),
        "checked-arith-mismatch",
        "{base}.{op}(duration {text}) = {:?}, arithmetic on seconds says {:?}",
        r.map(|t| t.to_unix()),
        allowed
      );
      Ok(())
    }
    Case::Cmp { a, b } => {
      let (ta, tb) = match (Timestamp::from_unix(*a), Timestamp::from_unix(*b)) {
        (Ok(x), Ok(y)) => (x, y),
        _ => {
          obs.discard("base-rejected");
          return Ok(());
        }
      };
      if a != b {
        obs.nontrivial();
      }
      vensure!(
        obs,
        ta.cmp(&tb) == a.cmp(b) && ta.partial_cmp(&tb) == Some(a.cmp(b)) && (ta == tb) == (a == b),
        "ord-mismatch",
        "ordering of {a} and {b}: cmp {:?}, eq {}",
        ta.cmp(&tb),
        ta == tb
      );
      Ok(())
    }
  }
}

// ---------------------------------------------------------------------------------------------
// Generators
// ---------------------------------------------------------------------------------------------

fn render(local_unix: i64, offset_min: i32, frac: &str, sep: char, zulu: Option<char>) -> Option<String> {
  let days = local_unix.div_euclid(86400);
  let rem = local_unix.rem_euclid(86400);
  let (y, m, d) = civil_from_days(days);
  if !(0..=9999).contains(&y) {
    return None;
  }
  let off = match zulu {
    Some(z) => z.to_string(),
    None => format!(
      "{}{:02}:{:02}",
      if offset_min < 0 { '-' } else { '+' },
      offset_min.abs() / 60,
      offset_min.abs() % 60
    ),
  };
  Some(format!(
    "{:04}-{:02}-{:02}{}{:02}:{:02}:{:02}{}{}",
    y,
    m,
    d,
    sep,
    rem / 3600,
    rem % 3600 / 60,
    rem % 60,
    frac,
    off
  ))
}

const GRID_DELTAS: [i64; 13] = [-86400, -3600, -60, -3, -2, -1, 0, 1, 2, 3, 60, 3600, 86400];
const GRID_FRACS: [&str; 4] = ["", ".5", ".999", ".000000001"];

/// Both range ends ± deltas × every offset −23:59…+23:59 × fraction lengths {0,1,3,9}.
fn grid() -> impl Iterator<Item = Case> {
  [MIN_UNIX, MAX_UNIX].into_iter().flat_map(|end| {
    GRID_DELTAS.into_iter().flat_map(move |delta| {
      (-(23 * 60 + 59)..=(23 * 60 + 59)).flat_map(move |off: i32| {
        GRID_FRACS.into_iter().filter_map(move |frac| {
          let utc = end + delta;
          render(utc + off as i64 * 60, off, frac, 'T', None).map(|s| Case::Parse { s })
        })
      })
    })
  })
}

/// Leap-second spellings (seconds field 60) at month ends, in UTC and carried by offsets, with the fraction lengths
/// and designator spellings of the grid.
fn leap_grid() -> impl Iterator<Item = Case> {
  let stems = [
    "2016-12-31T23:59:60",
    "1972-06-30T23:59:60",
    "0000-01-31T23:59:60",
    "9999-12-31T23:59:60",
    "9999-11-30T23:59:60",
    "2017-01-01T00:59:60",
    "2016-12-31T18:59:60",
    "2016-12-30T23:59:60",
    "2016-12-31T23:58:60",
  ];
  let tails = ["Z", "z", "+00:00", "-00:00", "+01:00", "-05:00", ".0Z", ".5Z", ".999999999Z", ".5+01:00"];
  stems
    .into_iter()
    .flat_map(move |stem| tails.into_iter().map(move |tail| Case::Parse { s: format!("{stem}{tail}") }))
}

fn unix_grid() -> impl Iterator<Item = Case> {
  let around = |c: i64| (-3..=3).map(move |d| c.saturating_add(d));
  around(MIN_UNIX)
    .chain(around(MAX_UNIX))
    .chain(around(0))
    .chain(around(i64::MIN + 3))
    .chain(around(i64::MAX - 3))
    .chain(around(-377705116800)) // time crate minimum (year -9999)
    .chain(around(253402300800 + 365 * 86400))
    .map(|s| Case::FromUnix { s })
}

fn arith_grid() -> impl Iterator<Item = Case> {
  let bases = [MIN_UNIX, MIN_UNIX + 1, MIN_UNIX + 86399, -1, 0, 1, 951782400, MAX_UNIX - 86400, MAX_UNIX - 1, MAX_UNIX];
  bases.into_iter().flat_map(|base| {
    (0u8..5).flat_map(move |unit| {
      [false, true].into_iter().flat_map(move |sub| {
        let mult = UNITS[unit as usize].1;
        // the argument at which the result crosses the nearer range end, and its neighbours
        let room = if sub { base as i128 - MIN_UNIX as i128 } else { MAX_UNIX as i128 - base as i128 };
        let cross = (room / mult).min(u32::MAX as i128) as u32;
        [0u32, 1, 2, 59, 60, 61, cross.saturating_sub(1), cross, cross.saturating_add(1), u32::MAX - 1, u32::MAX]
          .into_iter()
          .map(move |arg| Case::Arith { base, unit, arg, sub })
      })
    })
  })
}

fn parse_seq_strategy() -> impl Strategy<Value = Case> {
  (
    base_strategy(),
    prop::sample::select(vec!["", ".1", ".123", ".1234567", ".12345678", ".123456789"]),
    -(23 * 60 + 59)..=(23 * 60 + 59i32),
    prop_oneof![Just(1i32), Just(-1), Just(30), Just(60), -120..=120i32],
  )
    .prop_map(|(local_unix, frac, off_a, d)| Case::ParseSeq {
      local_unix,
      frac: frac.to_string(),
      off_a,
      off_b: (off_a + d).clamp(-(23 * 60 + 59), 23 * 60 + 59),
    })
}

fn arith_json_grid() -> impl Iterator<Item = Case> {
  let bases = [MIN_UNIX, MIN_UNIX + 1, -1, 0, 1, 951782400, MAX_UNIX - 1, MAX_UNIX];
  let durations: [(i64, i32); 14] = [
    (0, 0),
    (1, 0),
    (-1, 0),
    (0, 1),
    (0, -1),
    (0, 500_000_000),
    (0, -500_000_000),
    (1, 500_000_000),
    (-1, -500_000_000),
    (0, 999_999_999),
    (86_400, 0),
    (-86_400, 0),
    (i64::MAX, 0),
    (i64::MIN, 0),
  ];
  std::iter::once(Case::Now).chain(bases.into_iter().flat_map(move |base| {
    durations.into_iter().flat_map(move |(secs, nanos)| {
      [false, true]
        .into_iter()
        .map(move |sub| Case::ArithJson { base, secs, nanos, sub })
    })
  }))
}

fn arith_json_strategy() -> impl Strategy<Value = Case> {
  (
    base_strategy(),
    prop_oneof![3 => -100_000i64..=100_000, 2 => -400_000_000_000i64..=400_000_000_000, 1 => any::<i64>()],
    prop_oneof![2 => Just(0i32), 3 => 0i32..=999_999_999],
    any::<bool>(),
  )
    .prop_map(|(base, secs, nanos, sub)| Case::ArithJson {
      base,
      secs,
      // the nanoseconds carry the sign of the seconds
      nanos: if secs < 0 { -nanos } else { nanos },
      sub,
    })
}

fn year_strategy() -> impl Strategy<Value = i64> {
  prop_oneof![
    3 => 0i64..=9999,
    2 => 0i64..=1,
    2 => 9998i64..=9999,
    1 => 1969i64..=1971,
  ]
}

fn string_strategy() -> impl Strategy<Value = Case> {
  let fields = (
    year_strategy(),
    prop_oneof![8 => 1i64..=12, 1 => 0i64..=13],
    prop_oneof![8 => 1i64..=28, 3 => 28i64..=31, 1 => 0i64..=32],
    prop_oneof![10 => 0i64..=23, 1 => 23i64..=24],
    prop_oneof![10 => 0i64..=59, 1 => 59i64..=60],
    prop_oneof![10 => 0i64..=59, 2 => 59i64..=60],
  );
  let frac = prop_oneof![
    4 => Just(String::new()),
    4 => "\\.[0-9]{1,9}",
    1 => "\\.[0-9]{10,14}",
    1 => Just(".".to_string()),
  ];
  let sep = prop_oneof![8 => Just('T'), 1 => Just('t'), 1 => Just(' '), 1 => Just('_')];
  let off = prop_oneof![
    3 => Just("Z".to_string()),
    1 => Just("z".to_string()),
    6 => (any::<bool>(), 0i32..=23, 0i32..=59).prop_map(|(neg, h, m)| format!("{}{:02}:{:02}", if neg { '-' } else { '+' }, h, m)),
    1 => (any::<bool>(), 23i32..=25, 58i32..=61).prop_map(|(neg, h, m)| format!("{}{:02}:{:02}", if neg { '-' } else { '+' }, h, m)),
    1 => Just("-00:00".to_string()),
    1 => Just(String::new()),
  ];
  let corrupt = prop_oneof![
    8 => Just(None),
    1 => (any::<prop::sample::Index>(), prop::sample::select(vec!['0', '9', ':', '-', 'T', 'Z', '+', '.', ' ', 'x', '\u{661}', '\0'])).prop_map(Some),
  ];
  (fields, frac, sep, off, corrupt).prop_map(|((y, mo, d, h, mi, s), frac, sep, off, corrupt)| {
    let mut text = format!("{y:04}-{mo:02}-{d:02}{sep}{h:02}:{mi:02}:{s:02}{frac}{off}");
    if let Some((idx, ch)) = corrupt {
      let chars: Vec<char> = text.chars().collect();
      let i = idx.index(chars.len());
      text = chars.iter().enumerate().map(|(k, c)| if k == i { ch } else { *c }).collect();
    }
    Case::Parse { s: text }
  })
}

/// Uniformly random instants inside (and a little outside) the range, rendered at a random offset.
fn instant_strategy() -> impl Strategy<Value = Case> {
  (
    (MIN_UNIX - 86400 * 2)..=(MAX_UNIX + 86400 * 2),
    -(23 * 60 + 59)..=(23 * 60 + 59i32),
    prop_oneof![Just(String::new()), "\\.[0-9]{1,9}"],
  )
    .prop_filter_map("local year not expressible", |(utc, off, frac)| {
      render(utc + off as i64 * 60, off, &frac, 'T', if off == 0 { Some('Z') } else { None }).map(|s| Case::Parse { s })
    })
}

fn unix_strategy() -> impl Strategy<Value = Case> {
  prop_oneof![
    4 => (MIN_UNIX..=MAX_UNIX).prop_map(|s| Case::FromUnix { s }),
    2 => (-100i64..=100, any::<bool>()).prop_map(|(d, hi)| Case::FromUnix { s: if hi { MAX_UNIX + d } else { MIN_UNIX + d } }),
    2 => any::<i64>().prop_map(|s| Case::FromUnix { s }),
  ]
}

fn base_strategy() -> impl Strategy<Value = i64> {
  prop_oneof![
    2 => MIN_UNIX..=MAX_UNIX,
    1 => (0i64..=700_000).prop_map(|d| MIN_UNIX + d),
    1 => (0i64..=700_000).prop_map(|d| MAX_UNIX - d),
  ]
}

fn arith_strategy() -> impl Strategy<Value = Case> {
  (
    base_strategy(),
    0u8..5,
    prop_oneof![3 => 0u32..=100_000, 2 => any::<u32>(), 1 => (u32::MAX - 5)..=u32::MAX],
    any::<bool>(),
  )
    .prop_map(|(base, unit, arg, sub)| Case::Arith { base, unit, arg, sub })
}

fn cmp_strategy() -> impl Strategy<Value = Case> {
  (base_strategy(), base_strategy(), prop_oneof![Just(None), (-2i64..=2).prop_map(Some)]).prop_map(|(a, b, near)| {
    let b = match near {
      Some(d) => (a + d).clamp(MIN_UNIX, MAX_UNIX),
      None => b,
    };
    Case::Cmp { a, b }
  })
}

pub fn run(ctx: &mut Ctx) {
  ctx.rule = "strings: exhaustive grid (both range ends ± {0..3s,1min,1h,1day} × all 2879 offsets × fraction lengths {0,1,3,9}), \
    field-built RFC 3339 strings with invalid fields and single-character corruption, uniformly random instants at random offsets; \
    from_unix on boundaries/extremes/random; checked_add/sub over every Duration constructor; ordering pairs. \
    Oracle: independent days-from-civil integer arithmetic. Non-trivial = string with non-zero offset or a fraction or within \
    one day of a range end / unix value within a day of a range end / arithmetic result leaving or within a day of the range / \
    ordering pair with a != b; distinct by case bytes."
    .into();
  ctx.assume("a seconds field of 60 may be read as :59 or as the following second (leap seconds are not representable)");
  ctx.assume("strings the reference reader does not recognise as RFC 3339 may be accepted or rejected; accepted ones still get the full accepted-value battery");

  ctx.exhaustive("grid", grid, check);
  ctx.exhaustive("leap-grid", leap_grid, check);
  ctx.exhaustive("unix-grid", unix_grid, check);
  ctx.exhaustive("arith-grid", arith_grid, check);
  ctx.proptest("strings", ctx.pick(30_000, 2_000_000), string_strategy, check);
  ctx.proptest("instants", ctx.pick(30_000, 3_000_000), instant_strategy, check);
  ctx.proptest("from-unix", ctx.pick(10_000, 500_000), unix_strategy, check);
  ctx.proptest("arith", ctx.pick(20_000, 1_000_000), arith_strategy, check);
  ctx.proptest("cmp", ctx.pick(5_000, 200_000), cmp_strategy, check);
  ctx.proptest("parse-sequences", ctx.pick(10_000, 500_000), parse_seq_strategy, check);
  ctx.require_class("parse-sequences:sequence:long-common-prefix", 500);
  ctx.exhaustive("arith-json-grid", arith_json_grid, check);
  ctx.proptest("arith-json", ctx.pick(10_000, 500_000), arith_json_strategy, check);

  ctx.require_class("grid:accepted", 1000);
  ctx.require_class("grid:rejected", 1000);
  ctx.require_class("strings:accepted", 100);
  ctx.require_class("instants:accepted", 1000);
  ctx.require_class("arith:arith-leaves-range", 10);
  ctx.require_class("leap-grid:accepted-leap-second", 5);
  // (negative and sub-second durations exist only as long as the JSON form admits them: counted, not required)
  ctx.require_class("arith-json:json-duration:whole", 100);
}

pub fn replay(v: &serde_json::Value, obs: &mut Obs) -> Result<CheckResult, String> {
  replay_with::<Case>(v, obs, check)
}

/// libFuzzer entry: the bytes are the candidate string (lossy UTF-8).
pub fn fuzz_decode(data: &[u8]) -> Option<serde_json::Value> {
  let s = String::from_utf8_lossy(data).into_owned();
  serde_json::to_value(Case::Parse { s }).ok()
}
