//! Entry points of the no-panic sweep (C05). Each one feeds bytes to a public API and sweeps the accessors of
//! an accepted value. Nothing here asserts anything: the only oracle is "returns without panicking".

use identity_core::common::Timestamp;
use identity_core::common::Url;
use identity_core::convert::Base;
use identity_core::convert::BaseEncoding;
use identity_core::convert::FromJson;
use identity_core::convert::ToJson;
use identity_did::CoreDID;
use identity_did::DIDJwk;
use identity_did::DIDUrl;
use identity_did::DID;
use identity_iota_core::IotaDID;
use identity_iota_core::NetworkName;
use std::collections::hash_map::DefaultHasher;
use std::hash::Hash;
use std::hash::Hasher;
use std::str::FromStr;

#[derive(Debug, Clone, Copy, PartialEq, Eq)]
pub enum Ep {
  Accepted,
  /// rejected, but only after the input had the right outer shape (e.g. valid JSON, `did:` prefix)
  RejectedLate,
  Rejected,
}

#[derive(Debug, Clone, Copy, PartialEq, Eq)]
pub enum Kind {
  Text,
  Json,
  Token,
  Bytes,
}

#[derive(Clone)]
pub struct EntryPoint {
  pub name: &'static str,
  pub kind: Kind,
  pub f: fn(&[u8]) -> Ep,
  pub seeds: fn() -> Vec<Vec<u8>>,
  /// prefixes for the exhaustive short-string enumeration (text entries)
  pub prefixes: &'static [&'static str],
  /// vacuity guard: at least one generated input must be accepted
  pub must_accept: bool,
}

pub fn hash_of<T: Hash>(t: &T) -> u64 {
  let mut h = DefaultHasher::new();
  t.hash(&mut h);
  h.finish()
}

fn text(data: &[u8]) -> Option<&str> {
  std::str::from_utf8(data).ok()
}

fn sv(list: &[&str]) -> Vec<Vec<u8>> {
  list.iter().map(|s| s.as_bytes().to_vec()).collect()
}

macro_rules! use_all {
  ($($e:expr),* $(,)?) => {{ $( let _ = std::hint::black_box(&$e); )* }};
}

// ---------------------------------------------------------------------------------------------
// accessor sweeps
// ---------------------------------------------------------------------------------------------

const SEGMENTS: &[&str] = &["", "#f", "?q=1", "/p", "/p?q#f", "#", "?", "%", "#%4", " ", "did:x:y", "#é", "/a b"];

pub fn sweep_core_did(d: &CoreDID) {
  use_all!(
    d.method(),
    d.method_id(),
    d.as_str(),
    d.to_string(),
    format!("{d:?}"),
    hash_of(d),
    d.clone().into_string(),
    d.to_url(),
    d.clone().into_url(),
    d.cmp(d),
    d == d,
    d.to_json()
  );
  for seg in SEGMENTS {
    if let Ok(u) = d.clone().join(seg) {
      sweep_did_url_shallow(&u);
    }
    let mut c = d.clone();
    let _ = c.set_method_name(seg);
    use_all!(c.to_string(), c.method(), c.method_id());
    let mut c = d.clone();
    let _ = c.set_method_id(seg);
    use_all!(c.to_string(), c.method(), c.method_id());
  }
  let _ = CoreDID::valid_method_name(d.method());
  let _ = CoreDID::valid_method_id(d.method_id());
  let _ = IotaDID::try_from_core(d.clone()).map(|i| sweep_iota_did(&i));
  let _ = DIDJwk::try_from(d.clone()).map(|j| sweep_did_jwk(&j));
}

fn sweep_did_url_shallow(u: &DIDUrl) {
  use_all!(
    u.to_string(),
    format!("{u:?}"),
    u.did().as_str(),
    u.url().to_string(),
    u.fragment(),
    u.path(),
    u.query(),
    u.query_pairs().count(),
    hash_of(u),
    u.cmp(u),
    u == u,
    u.to_json(),
    String::from(u.clone()),
    Url::from(u.clone())
  );
}

pub fn sweep_did_url(u: &DIDUrl) {
  sweep_did_url_shallow(u);
  sweep_core_did(u.did());
  for seg in SEGMENTS {
    if let Ok(j) = u.join(seg) {
      sweep_did_url_shallow(&j);
    }
    let mut c = u.clone();
    let _ = c.set_fragment(Some(seg));
    sweep_did_url_shallow(&c);
    let _ = c.set_fragment(None);
    let mut c = u.clone();
    let _ = c.set_path(Some(seg));
    sweep_did_url_shallow(&c);
    let _ = c.set_path(None);
    let mut c = u.clone();
    let _ = c.set_query(Some(seg));
    sweep_did_url_shallow(&c);
    let _ = c.set_query(None);
    sweep_did_url_shallow(&c);
  }
  let rel = u.url().clone();
  use_all!(rel.is_empty(), rel.path(), rel.query(), rel.fragment(), rel.query_pairs().count(), hash_of(&rel), format!("{rel:?}"));
  let mapped = u.clone().map(|d| d);
  sweep_did_url_shallow(&mapped);
}

pub fn sweep_iota_did(d: &IotaDID) {
  use_all!(
    d.network_str(),
    d.tag_str(),
    d.as_str(),
    d.to_string(),
    format!("{d:?}"),
    d.is_placeholder(),
    hash_of(d),
    d.cmp(d),
    d.method(),
    d.method_id(),
    d.to_url(),
    d.to_json(),
    CoreDID::from(d.clone())
  );
  for seg in SEGMENTS {
    if let Ok(u) = d.clone().join(seg) {
      sweep_did_url_shallow(&u);
    }
  }
  if let Ok(n) = NetworkName::try_from(d.network_str().to_string()) {
    let _ = IotaDID::from_alias_id(d.tag_str(), &n);
    let _ = IotaDID::placeholder(&n);
  }
  let _ = IotaDID::parse(d.as_str());
}

pub fn sweep_did_jwk(j: &DIDJwk) {
  let jwk = j.jwk();
  super::entries::sweep_jwk(&jwk);
  use_all!(j.to_string(), format!("{j:?}"), j.method(), j.method_id(), CoreDID::from(j.clone()));
}

pub fn sweep_timestamp(t: &Timestamp) {
  use identity_core::common::Duration;
  use_all!(
    t.to_rfc3339(),
    t.to_unix(),
    format!("{t}"),
    format!("{t:?}"),
    String::from(*t),
    t.to_json(),
    hash_of(t),
    t.checked_add(Duration::seconds(u32::MAX)),
    t.checked_sub(Duration::weeks(u32::MAX)),
    t.checked_add(Duration::days(1)),
    t.checked_sub(Duration::minutes(1))
  );
  // durations as their JSON form admits them (negative, sub-second, extreme)
  for text in ["[1,500000000]", "[-1,0]", "[0,-1]", "[9223372036854775807,999999999]", "[-9223372036854775808,0]", "[0,0]", "1", "-1"] {
    if let Ok(d) = Duration::from_json(text) {
      for r in [t.checked_add(d), t.checked_sub(d)].into_iter().flatten() {
        use_all!(r.to_rfc3339(), r.to_unix(), format!("{r}"), r.to_json());
      }
    }
  }
}

// ---------------------------------------------------------------------------------------------
// text entry points
// ---------------------------------------------------------------------------------------------

fn late_if(cond: bool) -> Ep {
  if cond {
    Ep::RejectedLate
  } else {
    Ep::Rejected
  }
}

fn ep_core_did_parse(data: &[u8]) -> Ep {
  let Some(s) = text(data) else { return Ep::Rejected };
  let r = CoreDID::parse(s);
  let _ = CoreDID::from_str(s);
  let _ = CoreDID::try_from(s.to_string());
  let _ = CoreDID::from_json(&serde_json::to_string(s).unwrap_or_default());
  match r {
    Ok(d) => {
      sweep_core_did(&d);
      Ep::Accepted
    }
    Err(_) => late_if(s.starts_with("did:")),
  }
}

fn ep_did_url_parse(data: &[u8]) -> Ep {
  let Some(s) = text(data) else { return Ep::Rejected };
  let r = DIDUrl::parse(s);
  let _ = DIDUrl::from_str(s);
  let _ = DIDUrl::try_from(s.to_string());
  let _ = DIDUrl::from_json(&serde_json::to_string(s).unwrap_or_default());
  match r {
    Ok(u) => {
      sweep_did_url(&u);
      Ep::Accepted
    }
    Err(_) => late_if(s.starts_with("did:")),
  }
}

/// `join`/setters on a fixed valid base with the input as the segment.
fn ep_did_url_segments(data: &[u8]) -> Ep {
  let Some(s) = text(data) else { return Ep::Rejected };
  let base = DIDUrl::parse("did:example:123/path?query=1#frag").expect("constant");
  let mut any = false;
  if let Ok(u) = base.join(s) {
    sweep_did_url_shallow(&u);
    any = true;
  }
  let mut c = base.clone();
  any |= c.set_fragment(Some(s)).is_ok();
  sweep_did_url_shallow(&c);
  let mut c = base.clone();
  any |= c.set_path(Some(s)).is_ok();
  sweep_did_url_shallow(&c);
  let mut c = base.clone();
  any |= c.set_query(Some(s)).is_ok();
  sweep_did_url_shallow(&c);
  let mut d = base.did().clone();
  any |= d.set_method_name(s).is_ok();
  use_all!(d.to_string(), d.method(), d.method_id());
  let mut d = base.did().clone();
  any |= d.set_method_id(s).is_ok();
  use_all!(d.to_string(), d.method(), d.method_id());
  if let Ok(u) = d.join(s) {
    sweep_did_url_shallow(&u);
  }
  if any {
    Ep::Accepted
  } else {
    Ep::RejectedLate
  }
}

fn ep_iota_did_parse(data: &[u8]) -> Ep {
  let Some(s) = text(data) else { return Ep::Rejected };
  let r = IotaDID::parse(s);
  let _ = IotaDID::from_str(s);
  let _ = IotaDID::try_from(s);
  let _ = IotaDID::try_from(s.to_string());
  let _ = IotaDID::from_json(&serde_json::to_string(s).unwrap_or_default());
  if let Ok(c) = CoreDID::parse(s) {
    let _ = IotaDID::check_validity(&c);
    let _ = IotaDID::is_valid(&c);
    let _ = IotaDID::try_from_core(c);
  }
  match r {
    Ok(d) => {
      sweep_iota_did(&d);
      Ep::Accepted
    }
    Err(_) => late_if(s.starts_with("did:iota:")),
  }
}

fn ep_did_jwk_parse(data: &[u8]) -> Ep {
  let Some(s) = text(data) else { return Ep::Rejected };
  let r = DIDJwk::parse(s);
  let _ = DIDJwk::from_str(s);
  let _ = DIDJwk::try_from(s);
  // the serde route builds the value through its own conversion: everything the accessors assume has to hold there too
  for j in [DIDJwk::from_json(&serde_json::to_string(s).unwrap_or_default()).ok(), DIDJwk::from_json_value(serde_json::Value::String(s.to_string())).ok()]
    .into_iter()
    .flatten()
  {
    sweep_did_jwk(&j);
  }
  if let Ok(c) = CoreDID::parse(s) {
    let _ = DIDJwk::try_from(c.clone());
    if let Ok(doc) = identity_document::document::CoreDocument::expand_did_jwk(DIDJwk::try_from(c).unwrap_or_else(|_| {
      DIDJwk::parse("did:jwk:eyJrdHkiOiJPS1AiLCJjcnYiOiJFZDI1NTE5IiwieCI6IjExcVlBWUt4Q3JmVlNfN1R5V1FIT2c3aGN2UGFwaU1scndJYWFQY0hVUm8ifQ").expect("constant")
    })) {
      super::entries::sweep_core_document(&doc);
    }
  }
  match r {
    Ok(j) => {
      sweep_did_jwk(&j);
      Ep::Accepted
    }
    Err(_) => late_if(s.starts_with("did:jwk:")),
  }
}

fn ep_timestamp_parse(data: &[u8]) -> Ep {
  let Some(s) = text(data) else { return Ep::Rejected };
  let r = Timestamp::parse(s);
  let _ = Timestamp::from_str(s);
  for t in [Timestamp::try_from(s).ok(), Timestamp::try_from(s.to_string()).ok(), Timestamp::from_json_value(serde_json::Value::String(s.to_string())).ok()]
    .into_iter()
    .flatten()
  {
    sweep_timestamp(&t);
  }
  let _ = Timestamp::from_json(&serde_json::to_string(s).unwrap_or_default());
  if let Ok(n) = s.trim().parse::<i64>() {
    if let Ok(t) = Timestamp::from_unix(n) {
      sweep_timestamp(&t);
    }
  }
  match r {
    Ok(t) => {
      sweep_timestamp(&t);
      Ep::Accepted
    }
    Err(_) => late_if(s.len() >= 20 && s.as_bytes()[4] == b'-'),
  }
}

fn ep_url_parse(data: &[u8]) -> Ep {
  let Some(s) = text(data) else { return Ep::Rejected };
  let _ = Url::from_str(s);
  let _ = Url::from_json(&serde_json::to_string(s).unwrap_or_default());
  match Url::parse(s) {
    Ok(u) => {
      use_all!(u.to_string(), format!("{u:?}"), u.as_str(), hash_of(&u), u.to_json(), u.clone().into_string());
      for seg in SEGMENTS {
        let _ = u.join(seg).map(|j| j.to_string());
      }
      let _ = u.join(s);
      if let Ok(u2) = Url::parse(u.as_str()) {
        let _ = identity_credential::sd_jwt_vc::vct_to_url(&u2);
      }
      Ep::Accepted
    }
    Err(_) => late_if(s.contains(':')),
  }
}

fn ep_network_name(data: &[u8]) -> Ep {
  let Some(s) = text(data) else { return Ep::Rejected };
  let a = NetworkName::try_from(s.to_string());
  let b = NetworkName::from_json(&serde_json::to_string(s).unwrap_or_default());
  let _ = NetworkName::validate_network_name(s);
  let mut acc = false;
  for n in [a.ok(), b.ok()].into_iter().flatten() {
    acc = true;
    use_all!(n.to_string(), format!("{n:?}"), n.as_ref().len(), hash_of(&n), n.to_json());
    let d = IotaDID::new(&[0xAB; 32], &n);
    sweep_iota_did(&d);
    let d = IotaDID::placeholder(&n);
    sweep_iota_did(&d);
    let d = IotaDID::from_alias_id("0xaaaaaaaaaaaaaaaaaaaaaaaaaaaaaaaaaaaaaaaaaaaaaaaaaaaaaaaaaaaaaaaa", &n);
    sweep_iota_did(&d);
  }
  if acc {
    Ep::Accepted
  } else {
    late_if(s.len() <= 6)
  }
}

fn ep_small_enums(data: &[u8]) -> Ep {
  use identity_verification::jws::JwsAlgorithm;
  use identity_verification::MethodRelationship;
  use identity_verification::MethodScope;
  use identity_verification::MethodType;
  let Some(s) = text(data) else { return Ep::Rejected };
  let mut acc = false;
  if let Ok(m) = MethodScope::from_str(s) {
    acc = true;
    use_all!(m.as_str(), format!("{m:?}"), m.to_json());
  }
  if let Ok(a) = JwsAlgorithm::from_str(s) {
    acc = true;
    use_all!(a.name(), a.to_string(), a.to_json());
  }
  let q = serde_json::to_string(s).unwrap_or_default();
  if let Ok(m) = MethodRelationship::from_json(&q) {
    acc = true;
    use_all!(format!("{m:?}"), m.to_json());
  }
  if let Ok(m) = MethodType::from_json(&q) {
    acc = true;
    use_all!(m.to_string(), m.to_json());
  }
  if let Ok(m) = MethodType::from_str(s) {
    acc = true;
    use_all!(m.to_string());
  }
  {
    use identity_verification::jwk::*;
    let _ = JwkType::from_json(&q).map(|t| t.name());
    let _ = JwkUse::from_json(&q).map(|t| t.name());
    let _ = JwkOperation::from_json(&q).map(|t| (t.name(), t.invert()));
    let _ = identity_credential::validator::StatusCheck::from_json(&q);
    let _ = identity_credential::validator::SubjectHolderRelationship::from_json(&q);
    let _ = identity_credential::validator::FailFast::from_json(&q);
  }
  if acc {
    Ep::Accepted
  } else {
    Ep::Rejected
  }
}

fn ep_base_encoding(data: &[u8]) -> Ep {
  let Some(s) = text(data) else { return Ep::Rejected };
  let mut acc = false;
  for base in [
    Base::Base2,
    Base::Base8,
    Base::Base10,
    Base::Base16Lower,
    Base::Base16Upper,
    Base::Base32Lower,
    Base::Base32Upper,
    Base::Base32PadLower,
    Base::Base32PadUpper,
    Base::Base32HexLower,
    Base::Base32HexUpper,
    Base::Base32HexPadLower,
    Base::Base32HexPadUpper,
    Base::Base32Z,
    Base::Base58Flickr,
    Base::Base58Btc,
    Base::Base64,
    Base::Base64Pad,
    Base::Base64Url,
    Base::Base64UrlPad,
  ] {
    if let Ok(v) = BaseEncoding::decode(s, base) {
      acc = true;
      let _ = BaseEncoding::encode(&v, base);
    }
  }
  acc |= BaseEncoding::decode_base58(s).is_ok();
  if let Ok(v) = BaseEncoding::decode_multibase(s) {
    acc = true;
    let _ = BaseEncoding::encode_multibase(&v, None);
  }
  acc |= identity_verification::jwu::decode_b64(s).is_ok();
  let _ = identity_verification::jwu::decode_b64_json::<serde_json::Value>(s);
  if acc {
    Ep::Accepted
  } else {
    Ep::Rejected
  }
}

fn ep_integrity_metadata(data: &[u8]) -> Ep {
  use identity_credential::sd_jwt_vc::metadata::IntegrityMetadata;
  let Some(s) = text(data) else { return Ep::Rejected };
  let a = IntegrityMetadata::parse(s);
  let b = IntegrityMetadata::from_json(&serde_json::to_string(s).unwrap_or_default());
  let _ = IntegrityMetadata::from_str(s);
  let mut acc = false;
  for m in [a.ok(), b.ok()].into_iter().flatten() {
    acc = true;
    use_all!(m.alg(), m.digest(), m.digest_bytes(), m.options(), m.to_string(), format!("{m:?}"), m.as_ref().len(), m.to_json(), hash_of(&m));
  }
  if acc {
    Ep::Accepted
  } else {
    late_if(s.contains('-'))
  }
}

/// Queries against a fixed document: `resolve_method`, `resolve_service` with the input as the query.
fn ep_document_query(data: &[u8]) -> Ep {
  use identity_verification::MethodScope;
  let Some(s) = text(data) else { return Ep::Rejected };
  let doc = super::entries::fixed_core_document();
  let mut found = false;
  found |= doc.resolve_method(s, None).is_some();
  for scope in [
    MethodScope::VerificationMethod,
    MethodScope::authentication(),
    MethodScope::assertion_method(),
    MethodScope::key_agreement(),
    MethodScope::capability_delegation(),
    MethodScope::capability_invocation(),
  ] {
    found |= doc.resolve_method(s, Some(scope)).is_some();
  }
  found |= doc.resolve_service(s).is_some();
  if let Ok(u) = DIDUrl::parse(s) {
    found |= doc.resolve_method(&u, None).is_some();
    found |= doc.resolve_service(&u).is_some();
  }
  let mut d2 = doc.clone();
  let _ = d2.remove_method(&DIDUrl::parse(s).unwrap_or_else(|_| doc.id().to_url()));
  if let Ok(u) = DIDUrl::parse(s) {
    let _ = d2.remove_service(&u);
    let _ = d2.attach_method_relationship(&u, identity_verification::MethodRelationship::Authentication);
    let _ = d2.detach_method_relationship(&u, identity_verification::MethodRelationship::Authentication);
  }
  if found {
    Ep::Accepted
  } else {
    Ep::RejectedLate
  }
}

const DID_PREFIXES: &[&str] = &["", "did:", "did:m:", "did:example:123", "did:example:123#", "did:example:123?", "did:example:123/"];
const IOTA_PREFIXES: &[&str] = &[
  "",
  "did:iota:",
  "did:iota:0x",
  "did:iota:smr:",
  "did:iota:0xaaaaaaaaaaaaaaaaaaaaaaaaaaaaaaaaaaaaaaaaaaaaaaaaaaaaaaaaaaaaaaaa",
  "did:iota:0xaaaaaaaaaaaaaaaaaaaaaaaaaaaaaaaaaaaaaaaaaaaaaaaaaaaaaaaaaaaaaa",
];

pub fn text_entry_points() -> Vec<EntryPoint> {
  vec![
    EntryPoint {
      name: "CoreDID::parse",
      kind: Kind::Text,
      f: ep_core_did_parse,
      seeds: || sv(&["did:example:123", "did:a:b:c%41", "did:iota:0xaaaaaaaaaaaaaaaaaaaaaaaaaaaaaaaaaaaaaaaaaaaaaaaaaaaaaaaaaaaaaaaa", "did:jwk:e30", "did:x:y#f", " did:x:y", "did:x:%"]),
      prefixes: DID_PREFIXES,
      must_accept: true,
    },
    EntryPoint {
      name: "DIDUrl::parse",
      kind: Kind::Text,
      f: ep_did_url_parse,
      seeds: || sv(&["did:example:123", "did:example:123/path?query=1&a=%20#frag", "did:example:123#frag", "did:example:123?", "did:example:123#", "did:a:b/", "did:iota:smr:0xaaaaaaaaaaaaaaaaaaaaaaaaaaaaaaaaaaaaaaaaaaaaaaaaaaaaaaaaaaaaaaaa#key-1"]),
      prefixes: DID_PREFIXES,
      must_accept: true,
    },
    EntryPoint {
      name: "DIDUrl::segments",
      kind: Kind::Text,
      f: ep_did_url_segments,
      seeds: || sv(&["#frag", "?q=1", "/path", "/p?q#f", "frag", "example", "a%20b", ""]),
      prefixes: &["", "#", "?", "/"],
      must_accept: true,
    },
    EntryPoint {
      name: "IotaDID::parse",
      kind: Kind::Text,
      f: ep_iota_did_parse,
      seeds: || {
        sv(&[
          "did:iota:0xaaaaaaaaaaaaaaaaaaaaaaaaaaaaaaaaaaaaaaaaaaaaaaaaaaaaaaaaaaaaaaaa",
          "did:iota:smr:0xAAAAAAAAAAAAAAAAAAAAAAAAAAAAAAAAAAAAAAAAAAAAAAAAAAAAAAAAAAAAAAAA",
          "did:iota:iota:0x0000000000000000000000000000000000000000000000000000000000000000",
          "did:IOTA:0xaaaaaaaaaaaaaaaaaaaaaaaaaaaaaaaaaaaaaaaaaaaaaaaaaaaaaaaaaaaaaaaa",
          "did:iota:0xaaaaaaaaaaaaaaaaaaaaaaaaaaaaaaaaaaaaaaaaaaaaaaaaaaaaaaaaaaaaaaaa#frag",
          "did:iota:toolongname:0xaaaaaaaaaaaaaaaaaaaaaaaaaaaaaaaaaaaaaaaaaaaaaaaaaaaaaaaaaaaaaaaa",
        ])
      },
      prefixes: IOTA_PREFIXES,
      must_accept: true,
    },
    EntryPoint {
      name: "DIDJwk::parse",
      kind: Kind::Text,
      f: ep_did_jwk_parse,
      seeds: || {
        sv(&[
          "did:jwk:eyJrdHkiOiJPS1AiLCJjcnYiOiJFZDI1NTE5IiwieCI6IjExcVlBWUt4Q3JmVlNfN1R5V1FIT2c3aGN2UGFwaU1scndJYWFQY0hVUm8ifQ",
          "did:jwk:eyJjcnYiOiJQLTI1NiIsImt0eSI6IkVDIiwieCI6ImFjYklRaXVNczNpOF91c3pFakoydHBUdFJNNEVVM3l6OTFQSDZDZEgyVjAiLCJ5IjoiX0tjeUxqOXZXTXB0bm1LdG00NkdxRHo4d2Y3NEk1TEtncmwyR3pIM25TRSJ9",
          "did:jwk:e30",
          "did:jwk:eyJrdHkiOiJPS1AifQ",
          "did:jwk:bnVsbA",
        ])
      },
      prefixes: &["", "did:jwk:", "did:jwk:e30", "did:jwk:eyJrdHkiOiJPS1Ai"],
      must_accept: true,
    },
    EntryPoint {
      name: "Timestamp::parse",
      kind: Kind::Text,
      f: ep_timestamp_parse,
      seeds: || sv(&["2020-01-01T00:00:00Z", "1937-01-01T12:00:27.87+00:20", "9999-12-31T23:59:59-00:01", "0000-01-01T00:00:00+00:01", "1970-01-01t00:00:60z", "253402300799", "-62167219200"]),
      prefixes: &["", "2020-01-01T00:00:00", "9999-12-31T23:59:59", "0000-01-01T00:00:00"],
      must_accept: true,
    },
    EntryPoint {
      name: "Url::parse",
      kind: Kind::Text,
      f: ep_url_parse,
      seeds: || sv(&["https://example.com/a/b?c=d#e", "did:example:123", "urn:uuid:1234", "http://[::1]:80/", "file:///x", "a:", "https://example.com/.well-known/vct/x"]),
      prefixes: &["", "https://", "a:", "https://a.b/"],
      must_accept: true,
    },
    EntryPoint {
      name: "NetworkName",
      kind: Kind::Text,
      f: ep_network_name,
      seeds: || sv(&["iota", "smr", "rms", "atoi", "abc123", "UPPER", "toolongname", "a-b", ""]),
      prefixes: &[""],
      must_accept: true,
    },
    EntryPoint {
      name: "small-enums::from_str",
      kind: Kind::Text,
      f: ep_small_enums,
      seeds: || sv(&["VerificationMethod", "authentication", "assertionMethod", "keyAgreement", "capabilityDelegation", "capabilityInvocation", "EdDSA", "ES256", "ES256K", "none", "JsonWebKey", "Ed25519VerificationKey2018", "OKP", "EC", "sig", "sign", "P-256", "Ed25519", "X25519"]),
      prefixes: &[""],
      must_accept: true,
    },
    EntryPoint {
      name: "BaseEncoding::decode",
      kind: Kind::Text,
      f: ep_base_encoding,
      seeds: || sv(&["zHHoh9NQC9AUsK15Jyyq53VTujxEUizKDXRXd7zbT1B5u", "mAQID", "f0102", "3M5RCDjPTWPkKSN3sxUmmMqHbmRPegYP1tjcKyrDbt9J", "AQID", "AQ==", "-_8", "0101"]),
      prefixes: &["", "z", "m", "f", "u"],
      must_accept: true,
    },
    EntryPoint {
      name: "IntegrityMetadata::parse",
      kind: Kind::Text,
      f: ep_integrity_metadata,
      seeds: || sv(&["sha384-dOTZf16X8p34q2/kYyEFm0jh89uTjikhnzjeLeF0FHsEaYKb1A1cv+Lyv4Hk8vHd", "sha256-AQID", "sha256-AQID-opt-x", "x-", "-AQID", "sha256"]),
      prefixes: &["", "sha256-", "sha256-AQID", "-"],
      must_accept: true,
    },
    EntryPoint {
      name: "CoreDocument::resolve(query)",
      kind: Kind::Text,
      f: ep_document_query,
      seeds: || sv(&["did:example:123#key-1", "#key-1", "key-1", "did:example:123#svc", "#svc", "did:other:9#key-1", "did:example:123?x=1#key-1", "#"]),
      prefixes: &["", "#", "did:example:123#"],
      must_accept: true,
    },
  ]
}

include!("c05_entries_json.rs");
