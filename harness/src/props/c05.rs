//! C05 — No parser, decoder or validator panics on externally supplied data; accessors on accepted values
//! never panic either.
//!
//! Every entry point is a function `fn(&[u8]) -> Ep` that feeds the bytes to one public parsing/decoding/
//! validating API and, when the value is accepted, runs the accessor sweep for that type. The whole call runs
//! under `catch`; a panic is the violation, with signature `panic:<crate/file|message prefix>` (the panic site; the entry point and input are in the detail).

use crate::engine::*;
use crate::gen::mutate::*;
use proptest::prelude::*;
use serde::Deserialize;
use serde::Serialize;

#[path = "c05_entries.rs"]
pub mod entries;
use entries::*;

#[derive(Debug, Clone, Serialize, Deserialize)]
pub enum Case {
  /// UTF-8 input for entry point `entry`
  Text { entry: String, s: String },
  /// arbitrary bytes (hex) for entry point `entry`
  Bytes { entry: String, hex: String },
}

impl Case {
  pub fn new(entry: &str, data: Vec<u8>) -> Case {
    match String::from_utf8(data) {
      Ok(s) => Case::Text { entry: entry.to_string(), s },
      Err(e) => Case::Bytes {
        entry: entry.to_string(),
        hex: crate::util::hex(e.as_bytes()),
      },
    }
  }
}

fn unhex(s: &str) -> Vec<u8> {
  (0..s.len() / 2)
    .filter_map(|i| u8::from_str_radix(s.get(2 * i..2 * i + 2)?, 16).ok())
    .collect()
}

pub fn check(case: &Case, obs: &mut Obs) -> CheckResult {
  let (entry, data): (&str, Vec<u8>) = match case {
    Case::Text { entry, s } => (entry, s.as_bytes().to_vec()),
    Case::Bytes { entry, hex } => (entry, unhex(hex)),
  };
  let Some(ep) = entry_points().into_iter().find(|e| e.name == entry) else {
    obs.discard("unknown-entry");
    return Ok(());
  };
  match catch(|| (ep.f)(&data)) {
    Ok(Ep::Accepted) => {
      obs.label(format!("{entry}:accepted"));
      obs.label("accepted");
      obs.nontrivial();
    }
    Ok(Ep::RejectedLate) => {
      obs.label(format!("{entry}:rejected-late"));
      obs.label("rejected-late");
      obs.nontrivial();
    }
    Ok(Ep::Rejected) => {
      obs.label(format!("{entry}:rejected"));
      obs.label("rejected");
    }
    Err(p) if p.file.starts_with("src/") || p.file.contains("/harness/src/") => {
      // an `expect` of the harness's own constant fixtures (documents, credentials, keys the entry points are run
      // against) fired: the fixture is no longer accepted by the library, nothing is known about the entry point
      return Err(Viol::fixture(format!(
        "harness fixture of entry point {entry} panicked at {}:{}: {}",
        p.file, p.line, p.msg
      )));
    }
    Err(p) => {
      let sig = format!("panic:{}", p.sig());
      obs.fail(
        sig,
        format!("entry point {entry} panicked at {}:{}: {}", p.file, p.line, p.msg),
      )?;
      obs.label(format!("{entry}:known-panic"));
    }
  }
  Ok(())
}

// ---------------------------------------------------------------------------------------------
// Generators
// ---------------------------------------------------------------------------------------------

const ALPHABET: &[&str] = &[
  "a", "Z", "7", ":", ".", "-", "_", "%", "2", "f", " ", "\t", "\n", "é", "/", "?", "#", "=", "&", "\0", "\"", "{", "[", "0x", "did:",
  "+", "~", "T",
];

/// All strings of at most `max` alphabet symbols behind each prefix, for every text entry point.
fn short_strings(max: usize) -> impl Iterator<Item = Case> {
  let eps: Vec<EntryPoint> = entry_points().into_iter().filter(|e| e.kind == Kind::Text).collect();
  eps.into_iter().flat_map(move |ep| {
    let prefixes: Vec<&'static str> = ep.prefixes.to_vec();
    prefixes.into_iter().flat_map(move |prefix| {
      let n = ALPHABET.len();
      (0..=max).flat_map(move |len| {
        let total = n.pow(len as u32);
        (0..total).map(move |mut k| {
          let mut s = String::from(prefix);
          for _ in 0..len {
            s.push_str(ALPHABET[k % n]);
            k /= n;
          }
          Case::Text { entry: ep.name.to_string(), s }
        })
      })
    })
  })
}

/// Units of percent-encoding and of the URL delimiters: complete, truncated and malformed triplets next to each other and
/// next to `/ ? # :` (scanners that look ahead after a `%` are at their most fragile here).
const ESCAPE_UNITS: &[&str] = &["%41", "%4", "%", "%zz", "%2F", "/", "?", "#", ":", "a", "="];

/// All words of at most `max` escape units behind each prefix, for every text entry point.
fn escape_words(max: usize) -> impl Iterator<Item = Case> {
  let eps: Vec<EntryPoint> = entry_points().into_iter().filter(|e| e.kind == Kind::Text).collect();
  eps.into_iter().flat_map(move |ep| {
    let prefixes: Vec<&'static str> = ep.prefixes.to_vec();
    prefixes.into_iter().flat_map(move |prefix| {
      let n = ESCAPE_UNITS.len();
      (1..=max).flat_map(move |len| {
        let total = n.pow(len as u32);
        (0..total).map(move |mut k| {
          let mut s = String::from(prefix);
          for _ in 0..len {
            s.push_str(ESCAPE_UNITS[k % n]);
            k /= n;
          }
          Case::Text { entry: ep.name.to_string(), s }
        })
      })
    })
  })
}

/// Every seed of every entry point, unmodified (the accessor sweeps must run at least on these).
fn all_seeds() -> impl Iterator<Item = Case> {
  entry_points()
    .into_iter()
    .flat_map(|ep| (ep.seeds)().into_iter().map(move |s| Case::new(ep.name, s)))
}

fn mutated_seed_strategy() -> impl Strategy<Value = Case> {
  let eps = entry_points();
  let n = eps.len();
  (0..n, any::<prop::sample::Index>(), prop::collection::vec(edit_strategy(), 1..4)).prop_map(move |(e, si, edits)| {
    let ep = &eps[e];
    let seeds = (ep.seeds)();
    let seed = &seeds[si.index(seeds.len())];
    Case::new(ep.name, apply_edits(seed, &edits))
  })
}

fn json_mutation_strategy() -> impl Strategy<Value = Case> {
  let eps: Vec<EntryPoint> = entry_points().into_iter().filter(|e| e.kind == Kind::Json).collect();
  let n = eps.len();
  (0..n, any::<prop::sample::Index>(), prop::collection::vec(json_edit_strategy(), 1..4)).prop_map(move |(e, si, edits)| {
    let ep = &eps[e];
    let seeds = (ep.seeds)();
    let seed = &seeds[si.index(seeds.len())];
    match serde_json::from_slice::<serde_json::Value>(seed) {
      Ok(v) => Case::new(ep.name, apply_json_edits(&v, &edits).to_string().into_bytes()),
      Err(_) => Case::new(ep.name, seed.clone()),
    }
  })
}

/// Cross-feeding: a seed of one entry point offered to another one of the same kind.
fn cross_strategy() -> impl Strategy<Value = Case> {
  let eps = entry_points();
  let n = eps.len();
  (0..n, 0..n, any::<prop::sample::Index>(), prop::collection::vec(edit_strategy(), 0..2)).prop_map(move |(a, b, si, edits)| {
    let seeds = (eps[b].seeds)();
    let seed = &seeds[si.index(seeds.len())];
    Case::new(eps[a].name, apply_edits(seed, &edits))
  })
}

fn random_text_strategy() -> impl Strategy<Value = Case> {
  let eps: Vec<EntryPoint> = entry_points().into_iter().filter(|e| e.kind == Kind::Text).collect();
  let n = eps.len();
  (
    0..n,
    any::<prop::sample::Index>(),
    prop::collection::vec(prop_oneof![
      3 => any::<prop::sample::Index>().prop_map(|i| ALPHABET[i.index(ALPHABET.len())].to_string()),
      2 => any::<prop::sample::Index>().prop_map(|i| DICT[i.index(DICT.len())].to_string()),
      1 => any::<char>().prop_map(|c| c.to_string()),
    ], 0..24),
  )
    .prop_map(move |(e, pi, parts)| {
      let ep = &eps[e];
      let mut s = String::from(ep.prefixes[pi.index(ep.prefixes.len())]);
      for p in parts {
        s.push_str(&p);
      }
      Case::Text { entry: ep.name.to_string(), s }
    })
}

pub fn run(ctx: &mut Ctx) {
  let n_entries = entry_points().len();
  ctx.rule = format!(
    "{n_entries} entry points (text parsers, JSON value types, JWS/SD-JWT tokens, packed byte formats, validators); inputs: every \
     committed seed unmodified, exhaustive short strings over a {}-symbol adversarial alphabet behind each entry's prefixes, \
     byte-level edit scripts on seeds, structural JSON mutation of seeds, seeds cross-fed between entry points, random \
     alphabet/dictionary strings. Oracle: the call (parse + full accessor sweep on accepted values) returns; any panic is a \
     violation (overflow checks and debug assertions on). Non-trivial = input accepted (accessor sweep ran) or rejected after \
     the first validation stage; distinct by case bytes.",
    ALPHABET.len()
  );
  ctx.assume("process aborts (stack exhaustion, OOM) cannot be caught in-process; they end the run with exit 2 here and are observed as crash artifacts by the libFuzzer targets of the thorough tier");
  ctx.assume("inputs are capped (<= 64 KiB text, decompressed sizes bounded by the library's own limits) so memory bombs are out of scope");

  ctx.exhaustive("seeds", all_seeds, check);
  let depth = ctx.pick(2, 3);
  ctx.exhaustive("short-strings", move || short_strings(depth), check);
  let escape_depth = ctx.pick(4, 5);
  ctx.exhaustive("escape-words", move || escape_words(escape_depth), check);
  ctx.proptest("mutated-seeds", ctx.pick(60_000, 3_000_000), mutated_seed_strategy, check);
  ctx.proptest("json-mutation", ctx.pick(40_000, 2_000_000), json_mutation_strategy, check);
  ctx.proptest("cross-feed", ctx.pick(10_000, 300_000), cross_strategy, check);
  ctx.proptest("random-text", ctx.pick(30_000, 1_000_000), random_text_strategy, check);

  // vacuity: every entry point must have accepted at least one input (its accessor sweep ran)
  for ep in entry_points() {
    if ep.must_accept {
      let any = ctx
        .counters
        .classes
        .iter()
        .any(|(k, v)| *v > 0 && k.ends_with(&format!(":{}:accepted", ep.name)));
      if !any && ctx.violations.is_empty() {
        ctx
          .inconclusive
          .push(format!("vacuity: entry point {} never accepted an input", ep.name));
      }
    }
  }
}

pub fn replay(v: &serde_json::Value, obs: &mut Obs) -> Result<CheckResult, String> {
  replay_with::<Case>(v, obs, check)
}

/// libFuzzer entry: first byte selects the entry point, the rest is the input.
pub fn fuzz_decode(data: &[u8]) -> Option<serde_json::Value> {
  let (sel, rest) = data.split_first()?;
  let eps = entry_points();
  let ep = &eps[*sel as usize % eps.len()];
  serde_json::to_value(Case::new(ep.name, rest.to_vec())).ok()
}

/// Seed corpus files for the libFuzzer targets, derived from the committed entry-point seeds:
/// (target, file name, content). Written by `vcheck --dump-seeds`.
pub fn fuzz_seed_files() -> Vec<(&'static str, String, Vec<u8>)> {
  let mut out = Vec::new();
  let eps = entry_points();
  for (i, ep) in eps.iter().enumerate() {
    for (k, seed) in (ep.seeds)().into_iter().enumerate() {
      let mut v = vec![i as u8];
      v.extend_from_slice(&seed);
      out.push(("entry_points", format!("e{i:02}-{k}"), v));
      match ep.name {
        "Decoder::decode_compact" => out.push(("jws_tokens", format!("compact-{k}"), [&[0u8][..], &seed].concat())),
        "Decoder::decode_flattened" => out.push(("jws_tokens", format!("flattened-{k}"), [&[1u8][..], &seed].concat())),
        "Decoder::decode_general" => out.push(("jws_tokens", format!("general-{k}"), [&[2u8][..], &seed].concat())),
        "CoreDID::parse" => out.push(("did_strings", format!("did-{k}"), [&[0u8][..], &seed].concat())),
        "DIDUrl::parse" => out.push(("did_strings", format!("url-{k}"), [&[1u8][..], &seed].concat())),
        "DIDJwk::parse" => out.push(("did_strings", format!("jwk-{k}"), [&[2u8][..], &seed].concat())),
        "IotaDID::parse" => out.push(("iota_did", format!("iota-{k}"), seed.clone())),
        "StateMetadataDocument::unpack" => out.push(("state_metadata", format!("packed-{k}"), seed.clone())),
        "Timestamp::parse" => out.push(("timestamp", format!("ts-{k}"), seed.clone())),
        _ => {}
      }
    }
  }
  out
}
