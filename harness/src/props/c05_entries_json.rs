// (included into c05_entries.rs) JSON value types, tokens, packed formats, validators.

use identity_core::common::Object;
use identity_credential::credential::Credential;
use identity_credential::credential::Jwt;
use identity_credential::credential::Status;
use identity_credential::presentation::Presentation;
use identity_document::document::CoreDocument;
use identity_document::service::Service;
use identity_iota_core::IotaDocument;
use identity_verification::jwk::Jwk;
use identity_verification::jwk::JwkSet;
use identity_verification::jws::Decoder;
use identity_verification::jws::JwsVerifierFn;
use identity_verification::jws::SignatureVerificationError;
use identity_verification::jws::SignatureVerificationErrorKind;
use identity_verification::jws::VerificationInput;
use identity_verification::MethodRef;
use identity_verification::MethodScope;
use identity_verification::VerificationMethod;

pub const DOC_JSON: &str = r##"{
  "id": "did:example:123",
  "controller": "did:example:456",
  "alsoKnownAs": ["https://example.com/me"],
  "verificationMethod": [
    {"id": "did:example:123#key-1", "controller": "did:example:123", "type": "JsonWebKey", "publicKeyJwk": {"kty": "OKP", "crv": "Ed25519", "x": "11qYAYKxCrfVS_7TyWQHOg7hcvPapiMlrwIaaPcHURo"}},
    {"id": "did:example:123#key-2", "controller": "did:example:123", "type": "Ed25519VerificationKey2018", "publicKeyMultibase": "zHHoh9NQC9AUsK15Jyyq53VTujxEUizKDXRXd7zbT1B5u"},
    {"id": "did:example:123#key-3", "controller": "did:example:123", "type": "Ed25519VerificationKey2018", "publicKeyBase58": "3M5RCDjPTWPkKSN3sxUmmMqHbmRPegYP1tjcKyrDbt9J"}
  ],
  "authentication": ["did:example:123#key-1", {"id": "did:example:123#auth", "controller": "did:example:123", "type": "Ed25519VerificationKey2018", "publicKeyMultibase": "zAKJP3f7BD6W4iWEQ9jwndVTCBq8ua2Utt8EEjJ6Vxsf"}],
  "assertionMethod": ["did:example:123#key-1", "did:example:123#key-2"],
  "keyAgreement": ["did:example:123#absent"],
  "capabilityDelegation": ["did:other:9#key-1"],
  "service": [
    {"id": "did:example:123#svc", "type": "LinkedDomains", "serviceEndpoint": "https://example.com/"},
    {"id": "did:example:123#rev", "type": "RevocationBitmap2022", "serviceEndpoint": "data:application/octet-stream;base64,eJyzMmAAAwADKABr"},
    {"id": "did:example:123#multi", "type": ["A", "B"], "serviceEndpoint": {"origins": ["https://a.example/", "https://b.example/"]}}
  ],
  "custom": {"a": [1, 2, {"b": null}]}
}"##;

pub const IOTA_DOC_JSON: &str = r##"{
  "doc": {
    "id": "did:iota:rms:0x7591a0bc872e3a4ab66228d65773961a7a95d2299ec8464331c80fcd86b35f38",
    "controller": "did:iota:rms:0xfbaaa919b51112d51a8f18b1500d98f0b2e91d793bc5b27fd5ab04cb1b806343",
    "verificationMethod": [
      {"id": "did:iota:rms:0x7591a0bc872e3a4ab66228d65773961a7a95d2299ec8464331c80fcd86b35f38#key-1", "controller": "did:iota:rms:0x7591a0bc872e3a4ab66228d65773961a7a95d2299ec8464331c80fcd86b35f38", "type": "JsonWebKey", "publicKeyJwk": {"kty": "OKP", "crv": "Ed25519", "x": "11qYAYKxCrfVS_7TyWQHOg7hcvPapiMlrwIaaPcHURo"}}
    ],
    "authentication": ["did:iota:rms:0x7591a0bc872e3a4ab66228d65773961a7a95d2299ec8464331c80fcd86b35f38#key-1"],
    "service": [{"id": "did:iota:rms:0x7591a0bc872e3a4ab66228d65773961a7a95d2299ec8464331c80fcd86b35f38#rev", "type": "RevocationBitmap2022", "serviceEndpoint": "data:application/octet-stream;base64,eJyzMmAAAwADKABr"}]
  },
  "meta": {
    "created": "2023-01-25T15:48:09Z",
    "updated": "2023-01-25T15:48:09Z",
    "deactivated": false,
    "governorAddress": "rms1pra642gek5g394g63uvtz5qdnrct96ga0yautvnl6k4sfjcmsp35xv6nagu",
    "stateControllerAddress": "rms1pra642gek5g394g63uvtz5qdnrct96ga0yautvnl6k4sfjcmsp35xv6nagu",
    "x": 1
  }
}"##;

pub fn fixed_core_document() -> CoreDocument {
  CoreDocument::from_json(DOC_JSON).expect("constant document")
}

fn json_text(data: &[u8]) -> Option<(&str, bool)> {
  let s = std::str::from_utf8(data).ok()?;
  let is_json = serde_json::from_str::<serde::de::IgnoredAny>(s).is_ok();
  Some((s, is_json))
}

fn accepting_verifier() -> JwsVerifierFn<impl Fn(VerificationInput, &Jwk) -> Result<(), SignatureVerificationError>> {
  JwsVerifierFn::from(|_input: VerificationInput, _key: &Jwk| Ok(()))
}

fn rejecting_verifier() -> JwsVerifierFn<impl Fn(VerificationInput, &Jwk) -> Result<(), SignatureVerificationError>> {
  JwsVerifierFn::from(|_input: VerificationInput, _key: &Jwk| {
    Err(SignatureVerificationError::new(SignatureVerificationErrorKind::InvalidSignature))
  })
}

pub fn sweep_jwk(k: &Jwk) {
  use_all!(
    k.kty(),
    k.use_(),
    k.key_ops(),
    k.alg(),
    k.kid(),
    k.x5u(),
    k.x5c(),
    k.x5t(),
    k.x5t_s256(),
    k.params(),
    k.try_ec_params().is_ok(),
    k.try_rsa_params().is_ok(),
    k.try_oct_params().is_ok(),
    k.try_okp_params().is_ok(),
    k.try_ec_curve().is_ok(),
    k.try_ed_curve().is_ok(),
    k.try_ecx_curve().is_ok(),
    k.thumbprint_sha256_b64(),
    k.thumbprint_sha256(),
    k.thumbprint_hash_input(),
    k.is_public(),
    k.is_private(),
    k.check_alg("EdDSA").is_ok(),
    k.to_json(),
    format!("{k:?}")
  );
  if let Some(p) = k.to_public() {
    use_all!(p.to_json(), p.is_public(), p.thumbprint_sha256_b64(), p.to_public());
  }
  let mut c = k.clone();
  let _ = c.set_params(k.params().clone());
  c.set_kty(k.kty());
  use_all!(c.to_json());
  // concrete verifiers with this key over fixed input
  let input = VerificationInput {
    alg: identity_verification::jws::JwsAlgorithm::EdDSA,
    signing_input: b"abc".to_vec().into_boxed_slice(),
    decoded_signature: vec![0u8; 64].into_boxed_slice(),
  };
  let _ = identity_eddsa_verifier::EdDSAJwsVerifier::default().verify_dyn(&input, k);
  for alg in [identity_verification::jws::JwsAlgorithm::ES256, identity_verification::jws::JwsAlgorithm::ES256K] {
    let input = VerificationInput {
      alg,
      signing_input: b"abc".to_vec().into_boxed_slice(),
      decoded_signature: vec![1u8; 64].into_boxed_slice(),
    };
    let _ = identity_ecdsa_verifier::EcDSAJwsVerifier::default().verify_dyn(&input, k);
  }
  let _ = VerificationMethod::new_from_jwk(CoreDID::parse("did:example:123").expect("constant"), k.clone(), Some("frag"));
  let _ = VerificationMethod::new_from_jwk(CoreDID::parse("did:example:123").expect("constant"), k.clone(), None);
  let _ = futures::executor::block_on(async {
    use identity_storage::JwkStorage;
    let store = identity_storage::JwkMemStore::new();
    if let Ok(id) = store.insert(k.clone()).await {
      let _ = store.exists(&id).await;
      if let Some(p) = k.to_public() {
        let _ = store.sign(&id, b"data", &p).await;
      }
      let _ = store.sign(&id, b"data", k).await;
      let _ = store.delete(&id).await;
    }
  });
}

trait VerifyDyn {
  fn verify_dyn(&self, input: &VerificationInput, key: &Jwk) -> bool;
}
impl<T: identity_verification::jws::JwsVerifier> VerifyDyn for T {
  fn verify_dyn(&self, input: &VerificationInput, key: &Jwk) -> bool {
    let copy = VerificationInput {
      alg: input.alg.clone(),
      signing_input: input.signing_input.clone(),
      decoded_signature: input.decoded_signature.clone(),
    };
    self.verify(copy, key).is_ok()
  }
}

pub fn sweep_method(m: &VerificationMethod) {
  use_all!(
    m.id().to_string(),
    m.controller().to_string(),
    m.type_().to_string(),
    m.data().try_decode().is_ok(),
    m.data().public_key_jwk().is_some(),
    m.properties().len(),
    m.to_json(),
    format!("{m}"),
    format!("{m:?}"),
    identity_storage::MethodDigest::new(m).map(|d| {
      let p = d.pack();
      identity_storage::MethodDigest::unpack(p).is_ok()
    })
  );
  if let Some(j) = m.data().public_key_jwk() {
    sweep_jwk(j);
  }
  if let Some(j) = m.data().try_public_key_jwk().ok() {
    use_all!(j.kid());
  }
  let mut c = m.clone();
  let _ = c.set_id(m.id().clone());
  sweep_did_url_shallow(m.id());
}

pub fn sweep_service(s: &Service) {
  use_all!(
    s.id().to_string(),
    s.type_().len(),
    s.service_endpoint().to_json(),
    s.properties().len(),
    s.to_json(),
    format!("{s}"),
    format!("{s:?}")
  );
  let _ = identity_credential::revocation::RevocationBitmap::try_from(s).map(|b| {
    use_all!(b.len(), b.is_empty(), b.is_revoked(0), b.is_revoked(u32::MAX));
    let _ = b.to_service(s.id().clone()).map(|s2| s2.to_json());
  });
  let _ = identity_credential::credential::LinkedDomainService::try_from(s.clone()).map(|l| {
    use_all!(l.domains().len(), l.id().to_string(), format!("{l:?}"));
  });
  let _ = identity_credential::credential::LinkedVerifiablePresentationService::try_from(s.clone()).map(|l| {
    use_all!(l.verifiable_presentation_urls().len(), l.id().to_string());
  });
}

pub fn sweep_core_document(d: &CoreDocument) {
  use identity_credential::revocation::RevocationDocumentExt;
  use_all!(
    d.id().to_string(),
    d.controller().map(|c| c.len()),
    d.also_known_as().len(),
    d.verification_method().len(),
    d.authentication().len(),
    d.assertion_method().len(),
    d.key_agreement().len(),
    d.capability_delegation().len(),
    d.capability_invocation().len(),
    d.service().len(),
    d.properties().len(),
    d.to_json(),
    d.to_json_pretty(),
    format!("{d}"),
    format!("{d:?}")
  );
  for scope in [
    None,
    Some(MethodScope::VerificationMethod),
    Some(MethodScope::authentication()),
    Some(MethodScope::assertion_method()),
    Some(MethodScope::key_agreement()),
    Some(MethodScope::capability_delegation()),
    Some(MethodScope::capability_invocation()),
  ] {
    for m in d.methods(scope) {
      sweep_method(m);
      use_all!(d.resolve_method(m.id(), scope).is_some());
      if let Some(f) = m.id().fragment() {
        use_all!(d.resolve_method(f, scope).is_some(), d.resolve_method(format!("#{f}").as_str(), scope).is_some());
      }
    }
  }
  for s in d.service().iter() {
    sweep_service(s);
    use_all!(d.resolve_service(s.id()).is_some());
    let _ = d.resolve_revocation_bitmap(s.id().into());
  }
  // checked mutations on a copy
  let mut c = d.clone();
  let ids: Vec<DIDUrl> = d.methods(None).into_iter().map(|m| m.id().clone()).collect();
  for id in ids.iter().take(4) {
    let _ = c.attach_method_relationship(id, identity_verification::MethodRelationship::KeyAgreement);
    let _ = c.detach_method_relationship(id, identity_verification::MethodRelationship::Authentication);
    let _ = c.remove_method(id);
    use_all!(c.to_json());
  }
  let sids: Vec<DIDUrl> = d.service().iter().map(|s| s.id().clone()).collect();
  for id in sids.iter().take(3) {
    let _ = c.revoke_credentials(id, &[1, 5, 70000]);
    let _ = c.unrevoke_credentials(id, &[5]);
    let _ = c.remove_service(id);
  }
  if let Ok(m) = VerificationMethod::from_json(
    r#"{"id":"did:example:123#new","controller":"did:example:123","type":"Ed25519VerificationKey2018","publicKeyMultibase":"zAKJP3f7BD6W4iWEQ9jwndVTCBq8ua2Utt8EEjJ6Vxsf"}"#,
  ) {
    let _ = c.insert_method(m, MethodScope::authentication());
  }
  use_all!(c.to_json());
  // a JWS offered to the document
  let tok = "eyJhbGciOiJFZERTQSIsImtpZCI6ImRpZDpleGFtcGxlOjEyMyNrZXktMSJ9.e30.AAAA";
  let _ = d.verify_jws(
    tok,
    None,
    &identity_eddsa_verifier::EdDSAJwsVerifier::default(),
    &identity_document::verifiable::JwsVerificationOptions::default(),
  );
  if let Ok(iota) = IotaDocument::from_json(&format!(r#"{{"doc":{},"meta":{{}}}}"#, d.to_json().unwrap_or_default())) {
    sweep_iota_document(&iota);
  }
}

pub fn sweep_iota_document(d: &IotaDocument) {
  use identity_iota_core::StateMetadataDocument;
  use identity_iota_core::StateMetadataEncoding;
  use_all!(
    d.id().to_string(),
    d.controller().count(),
    d.also_known_as().len(),
    d.methods(None).len(),
    d.service().len(),
    d.metadata.created,
    d.metadata.updated,
    d.metadata.deactivated,
    d.to_json(),
    format!("{d}"),
    format!("{d:?}")
  );
  sweep_iota_did(d.id());
  let core: &CoreDocument = d.core_document();
  use_all!(core.to_json());
  for m in d.methods(None) {
    use_all!(d.resolve_method(m.id(), None).is_some());
  }
  if let Ok(bytes) = StateMetadataDocument::from(d.clone()).pack(StateMetadataEncoding::Json) {
    if let Ok(u) = StateMetadataDocument::unpack(&bytes) {
      let _ = u.into_iota_document(d.id()).map(|x| x.to_json());
    }
    if let Ok(u) = StateMetadataDocument::unpack(&bytes) {
      let other = IotaDID::new(&[7; 32], &NetworkName::try_from("smr").expect("constant"));
      let _ = u.into_iota_document(&other).map(|x| x.to_json());
    }
  }
  let mut c = d.clone();
  let sids: Vec<DIDUrl> = d.service().iter().map(|s| s.id().clone()).collect();
  for id in sids.iter().take(2) {
    let _ = c.revoke_credentials(id, &[3]);
    let _ = c.unrevoke_credentials(id, &[3]);
    let _ = c.remove_service(id);
  }
  let ids: Vec<DIDUrl> = d.methods(None).into_iter().map(|m| m.id().clone()).collect();
  for id in ids.iter().take(2) {
    let _ = c.attach_method_relationship(id, identity_verification::MethodRelationship::AssertionMethod);
    let _ = c.remove_method(id);
  }
  use_all!(c.to_json());
}

pub fn sweep_credential(c: &Credential<Object>) {
  use identity_credential::validator::JwtCredentialValidatorUtils as U;
  use identity_credential::validator::StatusCheck;
  use identity_credential::validator::SubjectHolderRelationship;
  use_all!(
    c.check_structure().is_ok(),
    c.serialize_jwt(None).is_ok(),
    c.to_json(),
    format!("{c}"),
    format!("{c:?}"),
    c.issuer.url().to_string(),
    c.credential_subject.len(),
    c.issuance_date,
    c.expiration_date
  );
  let mut custom = Object::new();
  custom.insert("x".into(), serde_json::json!(1));
  use_all!(c.serialize_jwt(Some(custom)).is_ok());
  let doc = fixed_core_document();
  let t = Timestamp::parse("2020-01-01T00:00:00Z").expect("constant");
  use_all!(
    U::check_structure(c).is_ok(),
    U::check_expires_on_or_after(c, t).is_ok(),
    U::check_issued_on_or_before(c, t).is_ok(),
    U::extract_issuer::<CoreDID, _>(c).is_ok(),
    U::extract_issuer::<IotaDID, _>(c).is_ok()
  );
  let holder = Url::parse("did:example:123").expect("constant");
  for r in [SubjectHolderRelationship::AlwaysSubject, SubjectHolderRelationship::SubjectOnNonTransferable, SubjectHolderRelationship::Any] {
    use_all!(U::check_subject_holder_relationship(c, &holder, r).is_ok());
  }
  for s in [StatusCheck::Strict, StatusCheck::SkipUnsupported, StatusCheck::SkipAll] {
    use_all!(U::check_status(c, std::slice::from_ref(&doc), s).is_ok());
  }
  if let Some(st) = &c.credential_status {
    sweep_status(st);
  }
  if let Ok(sl) = identity_credential::revocation::status_list_2021::StatusList2021Credential::try_from(c.clone()) {
    sweep_status_list_credential(&sl);
  }
  if let Ok(dl) = identity_credential::domain_linkage::DomainLinkageConfiguration::from_json(
    &serde_json::json!({"@context": "https://identity.foundation/.well-known/did-configuration/v1", "linked_dids": []}).to_string(),
  ) {
    use_all!(dl.linked_dids().len());
  }
}

pub fn sweep_status(st: &Status) {
  use identity_credential::credential::RevocationBitmapStatus;
  use identity_credential::revocation::status_list_2021::StatusList2021Entry;
  use_all!(st.id.to_string(), st.type_.len(), st.properties.len(), st.to_json());
  let _ = RevocationBitmapStatus::try_from(st.clone()).map(|r| {
    use_all!(r.id().map(|u| u.to_string()).is_ok(), r.index().is_ok(), format!("{r:?}"), Status::from(r.clone()).to_json());
    let doc = fixed_core_document();
    let _ = identity_credential::validator::JwtCredentialValidatorUtils::check_revocation_bitmap_status(&doc, r);
  });
  let _ = StatusList2021Entry::try_from(st).map(|e| {
    use_all!(e.id().to_string(), e.purpose(), e.index(), e.status_list_credential().to_string(), e.to_json(), format!("{e:?}"));
  });
}

pub fn sweep_status_list_credential(sl: &identity_credential::revocation::status_list_2021::StatusList2021Credential) {
  use identity_credential::revocation::status_list_2021::StatusList2021Entry;
  use identity_credential::revocation::status_list_2021::StatusPurpose;
  use_all!(sl.id().map(|u| u.to_string()), sl.purpose(), sl.to_json(), format!("{sl}"), format!("{sl:?}"));
  for i in [0usize, 1, 7, 8, 131071, 131072, usize::MAX] {
    use_all!(sl.entry(i).is_ok());
  }
  let mut c = sl.clone();
  let _ = c.update(|l| {
    let _ = l.set_entry(5, true);
    let _ = l.set_entry(5, false);
    l.set_entry(usize::MAX, true)
  });
  let mut cred = fixed_credential();
  let _ = c.set_credential_status(&mut cred, 9, true);
  use_all!(c.to_json(), c.clone().into_inner().to_json());
  for purpose in [StatusPurpose::Revocation, StatusPurpose::Suspension] {
    let e = StatusList2021Entry::new(sl.id().cloned().unwrap_or_else(|| Url::parse("https://example.com/s").expect("constant")), purpose, 3, None);
    let mut cred = fixed_credential();
    cred.credential_status = Some(e.into());
    for s in [identity_credential::validator::StatusCheck::Strict, identity_credential::validator::StatusCheck::SkipUnsupported] {
      let _ = identity_credential::validator::JwtCredentialValidatorUtils::check_status_with_status_list_2021(&cred, sl, s);
    }
  }
}

pub fn fixed_credential() -> Credential<Object> {
  Credential::from_json(include_str!("../../seeds/cred/credential-1.json")).expect("fixture credential-1.json")
}

pub fn sweep_presentation(p: &Presentation<Jwt, Object>) {
  use identity_credential::presentation::JwtPresentationOptions;
  use_all!(
    p.check_structure().is_ok(),
    p.to_json(),
    format!("{p}"),
    format!("{p:?}"),
    p.holder.to_string(),
    p.verifiable_credential.len(),
    p.serialize_jwt(&JwtPresentationOptions::default()).is_ok()
  );
  let opts = JwtPresentationOptions::default()
    .expiration_date(Timestamp::parse("2030-01-01T00:00:00Z").expect("constant"))
    .issuance_date(Timestamp::parse("2020-01-01T00:00:00Z").expect("constant"))
    .audience(Url::parse("https://aud.example/").expect("constant"));
  use_all!(p.serialize_jwt(&opts).is_ok());
  let _ = identity_credential::validator::JwtPresentationValidatorUtils::check_structure(p);
}

// ---------------------------------------------------------------------------------------------
// JSON entry points
// ---------------------------------------------------------------------------------------------

macro_rules! json_entry {
  ($fname:ident, $ty:ty, $sweep:expr) => {
    fn $fname(data: &[u8]) -> Ep {
      let Some((s, is_json)) = json_text(data) else { return Ep::Rejected };
      match <$ty>::from_json(s) {
        Ok(v) => {
          #[allow(clippy::redundant_closure_call)]
          ($sweep)(&v);
          // own JSON must be re-readable without panicking
          if let Ok(j) = v.to_json() {
            let _ = <$ty>::from_json(&j);
          }
          if let Ok(val) = serde_json::from_str::<serde_json::Value>(s) {
            let _ = <$ty>::from_json_value(val);
          }
          let _ = <$ty>::from_json_slice(data);
          Ep::Accepted
        }
        Err(_) => late_if(is_json),
      }
    }
  };
}

json_entry!(ep_jwk, Jwk, |k: &Jwk| {
  sweep_jwk(k);
  // conversion into the JSON-proof-token library's key type and back
  let ext: Result<jsonprooftoken::jwk::key::Jwk, _> = k.try_into();
  if let Ok(ext) = ext {
    if let Ok(back) = Jwk::try_from(ext) {
      sweep_jwk(&back);
    }
  }
});

/// A JWK as the JSON-proof-token library reads it (issuer keys of JPTs arrive in this type), converted into the
/// library's own `Jwk`.
fn ep_jwk_from_jpt_jwk(data: &[u8]) -> Ep {
  let Some((s, is_json)) = json_text(data) else { return Ep::Rejected };
  match serde_json::from_str::<jsonprooftoken::jwk::key::Jwk>(s) {
    Ok(ext) => match Jwk::try_from(ext) {
      Ok(k) => {
        sweep_jwk(&k);
        Ep::Accepted
      }
      Err(_) => Ep::RejectedLate,
    },
    Err(_) => late_if(is_json),
  }
}
json_entry!(ep_jwk_set, JwkSet, |s: &JwkSet| {
  use_all!(s.len(), s.is_empty(), s.to_json(), format!("{s:?}"));
  for k in s.iter() {
    sweep_jwk(k);
    if let Some(kid) = k.kid() {
      use_all!(s.get(kid).len());
    }
  }
  use_all!(s.get("x").len());
});
json_entry!(ep_jws_header, identity_verification::jws::JwsHeader, |h: &identity_verification::jws::JwsHeader| {
  use_all!(
    h.alg(), h.b64(), h.crit(), h.kid(), h.nonce(), h.typ(), h.cty(), h.url(), h.jku(), h.jwk(), h.x5u(), h.x5c(), h.x5t(), h.x5t_s256(),
    h.custom(), h.to_json(), format!("{h:?}"), h.has("alg"), h.has("b64"), h.has("x"), h.is_disjoint(h)
  );
  if let Some(j) = h.jwk() {
    sweep_jwk(j);
  }
  // the header offered to the encoders
  let _ = identity_verification::jws::CompactJwsEncoder::new(b"payload", h).map(|e| e.signing_input().len());
  let r = identity_verification::jws::Recipient::new().protected(h);
  let _ = identity_verification::jws::FlattenedJwsEncoder::new(b"payload", r, false).map(|e| e.signing_input().len());
  let r = identity_verification::jws::Recipient::new().unprotected(h);
  let _ = identity_verification::jws::FlattenedJwsEncoder::new(b"payload", r, true).map(|e| e.signing_input().len());
  let _ = identity_verification::jws::GeneralJwsEncoder::new(b"payload", identity_verification::jws::Recipient::new().protected(h).unprotected(h), false).map(|_| ());
});
json_entry!(ep_jwt_claims, identity_jose::jwt::JwtClaims<serde_json::Value>, |c: &identity_jose::jwt::JwtClaims<serde_json::Value>| {
  use_all!(c.iss(), c.sub(), c.aud(), c.exp(), c.nbf(), c.iat(), c.jti(), c.custom(), c.to_json(), format!("{c:?}"));
});
json_entry!(ep_method, VerificationMethod, |m: &VerificationMethod| sweep_method(m));
json_entry!(ep_method_ref, MethodRef, |m: &MethodRef| {
  use_all!(m.id().to_string(), m.controller().map(|c| c.to_string()), m.is_embedded(), m.is_referred(), m.to_json(), format!("{m:?}"));
  if let MethodRef::Embed(vm) = m {
    sweep_method(vm);
  }
  let _ = m.clone().try_into_embedded().map(|vm| vm.to_json());
  let _ = m.clone().try_into_referenced().map(|u| u.to_string());
});
json_entry!(ep_service, Service, |s: &Service| sweep_service(s));
json_entry!(ep_core_document, CoreDocument, |d: &CoreDocument| sweep_core_document(d));
json_entry!(ep_iota_document, IotaDocument, |d: &IotaDocument| sweep_iota_document(d));
json_entry!(ep_credential, Credential<Object>, |c: &Credential<Object>| sweep_credential(c));
json_entry!(ep_presentation, Presentation<Jwt, Object>, |p: &Presentation<Jwt, Object>| sweep_presentation(p));
json_entry!(ep_status, Status, |s: &Status| sweep_status(s));
json_entry!(ep_domain_linkage, identity_credential::domain_linkage::DomainLinkageConfiguration, |c: &identity_credential::domain_linkage::DomainLinkageConfiguration| {
  use_all!(c.linked_dids().len(), c.issuers().map(|v| v.len()).is_ok(), c.to_json(), format!("{c}"), format!("{c:?}"));
});
json_entry!(ep_type_metadata, identity_credential::sd_jwt_vc::metadata::TypeMetadata, |t: &identity_credential::sd_jwt_vc::metadata::TypeMetadata| {
  use_all!(t.name(), t.description(), t.extends().map(|u| u.to_string()), t.extends_integrity(), t.claim_metadata().len(), t.display_metadata().len(), t.to_json(), format!("{t:?}"));
  for v in [serde_json::json!({}), serde_json::json!({"vct": "x", "name": {"first": "a"}, "arr": [1, {"a": 2}]}), serde_json::json!(null), serde_json::json!([1])] {
    let _ = t.validate_credential(&v);
    for c in t.claim_metadata() {
      let _ = c.check_value_disclosability(&v);
      use_all!(c.path.to_string(), format!("{c:?}"));
    }
  }
});
json_entry!(ep_issuer_metadata, identity_credential::sd_jwt_vc::metadata::IssuerMetadata, |m: &identity_credential::sd_jwt_vc::metadata::IssuerMetadata| {
  use_all!(m.issuer.to_string(), m.to_json(), format!("{m:?}"));
});
json_entry!(ep_claim_metadata, identity_credential::sd_jwt_vc::metadata::ClaimMetadata, |c: &identity_credential::sd_jwt_vc::metadata::ClaimMetadata| {
  use_all!(c.path.to_string(), c.to_json(), format!("{c:?}"));
  for v in [serde_json::json!({"name": "x", "a": [1, 2, {"b": 1}], "_sd": ["x"]}), serde_json::json!([1, 2]), serde_json::json!("s")] {
    let _ = c.check_value_disclosability(&v);
  }
});
json_entry!(ep_one_or_many, identity_core::common::OneOrMany<String>, |o: &identity_core::common::OneOrMany<String>| {
  use_all!(o.len(), o.is_empty(), o.get(0), o.iter().count(), o.contains(&"a".to_string()), o.to_vec().len(), o.to_json(), format!("{o:?}"));
  let mut c = o.clone();
  c.push("z".into());
  use_all!(c.to_json());
});
json_entry!(ep_one_or_set, identity_core::common::OneOrSet<String>, |o: &identity_core::common::OneOrSet<String>| {
  use_all!(o.len(), o.is_empty(), o.get(0), o.iter().count(), o.contains(&"a".to_string()), o.to_vec().len(), o.to_json(), format!("{o:?}"));
  let mut c = o.clone();
  let _ = c.append("z".into());
  use_all!(c.to_json(), c.clone().map(|s| s.len()), c.try_map(|s| Ok::<_, ()>(s.len() % 2)).is_ok());
});
json_entry!(ep_ordered_set, identity_core::common::OrderedSet<String>, |o: &identity_core::common::OrderedSet<String>| {
  use_all!(o.len(), o.is_empty(), o.head(), o.tail(), o.iter().count(), o.contains(&"a".to_string()), o.to_json(), format!("{o:?}"));
  let mut c = o.clone();
  use_all!(c.append("z".into()), c.prepend("y".into()), c.replace(&"z".to_string(), "y".into()), c.update("q".into()), c.remove(&"y".to_string()), c.to_json());
});
json_entry!(ep_jws_verification_options, identity_document::verifiable::JwsVerificationOptions, |o: &identity_document::verifiable::JwsVerificationOptions| {
  use_all!(o.to_json(), format!("{o:?}"));
  let d = fixed_core_document();
  let tok = "eyJhbGciOiJFZERTQSIsImtpZCI6ImRpZDpleGFtcGxlOjEyMyNrZXktMSJ9.e30.AAAA";
  let _ = d.verify_jws(tok, None, &accepting_verifier(), o);
});
json_entry!(ep_validation_options, identity_credential::validator::JwtCredentialValidationOptions, |o: &identity_credential::validator::JwtCredentialValidationOptions| {
  use_all!(o.to_json(), format!("{o:?}"));
});
json_entry!(ep_presentation_validation_options, identity_credential::validator::JwtPresentationValidationOptions, |o: &identity_credential::validator::JwtPresentationValidationOptions| {
  use_all!(o.to_json(), format!("{o:?}"));
});
json_entry!(ep_metadata, identity_iota_core::IotaDocumentMetadata, |m: &identity_iota_core::IotaDocumentMetadata| {
  use_all!(m.to_json(), format!("{m}"), format!("{m:?}"), m.created, m.updated);
});

fn seeds_files(files: &[&str]) -> Vec<Vec<u8>> {
  files.iter().map(|s| s.as_bytes().to_vec()).collect()
}

macro_rules! cred_seeds {
  ($($f:literal),*) => { seeds_files(&[$(include_str!(concat!("../../seeds/cred/", $f))),*]) };
}

const JWK_SEEDS: &[&str] = &[
  r#"{"kty":"OKP","crv":"Ed25519","x":"11qYAYKxCrfVS_7TyWQHOg7hcvPapiMlrwIaaPcHURo"}"#,
  r#"{"kty":"OKP","crv":"Ed25519","x":"11qYAYKxCrfVS_7TyWQHOg7hcvPapiMlrwIaaPcHURo","d":"nWGxne_9WmC6hEr0kuwsxERJxWl7MmkZcDusAxyuf2A","alg":"EdDSA","kid":"k","use":"sig","key_ops":["sign","verify"]}"#,
  r#"{"kty":"EC","crv":"P-256","x":"acbIQiuMs3i8_uszEjJ2tpTtRM4EU3yz91PH6CdH2V0","y":"_KcyLj9vWMptnmKtm46GqDz8wf74I5LKgrl2GzH3nSE"}"#,
  r#"{"kty":"EC","crv":"secp256k1","x":"acbIQiuMs3i8_uszEjJ2tpTtRM4EU3yz91PH6CdH2V0","y":"_KcyLj9vWMptnmKtm46GqDz8wf74I5LKgrl2GzH3nSE","d":"AQ"}"#,
  r#"{"kty":"EC","crv":"P-256","x":"AQ","y":""}"#,
  r#"{"kty":"RSA","n":"AQAB","e":"AQAB","d":"AQ","p":"AQ","q":"AQ","dp":"AQ","dq":"AQ","qi":"AQ","oth":[{"r":"AQ","d":"AQ","t":"AQ"}]}"#,
  r#"{"kty":"oct","k":"AQID"}"#,
  r#"{"kty":"RSA","crv":"P-256","x":"AQ","y":"AQ"}"#,
  r#"{"kty":"OKP","crv":"X25519","x":"AQ","x5u":"https://example.com/","x5c":["AQ=="],"x5t":"AQ","x5t#S256":"AQ"}"#,
];

fn json_entry_points() -> Vec<EntryPoint> {
  let e = |name: &'static str, f: fn(&[u8]) -> Ep, seeds: fn() -> Vec<Vec<u8>>| EntryPoint {
    name,
    kind: Kind::Json,
    f,
    seeds,
    prefixes: &[""],
    must_accept: true,
  };
  vec![
    e("Jwk::from_json", ep_jwk, || sv(JWK_SEEDS)),
    e("Jwk::try_from(jsonprooftoken Jwk)", ep_jwk_from_jpt_jwk, || {
      sv(&[
        r#"{"kty":"EC","crv":"BLS12381G2","x":"AQ","y":"Ag","alg":"BBS-SHA256","kid":"k","use":"proof","key_ops":["proofGeneration"]}"#,
        r#"{"kty":"EC","crv":"P-256","x":"acbIQiuMs3i8_uszEjJ2tpTtRM4EU3yz91PH6CdH2V0","y":"_KcyLj9vWMptnmKtm46GqDz8wf74I5LKgrl2GzH3nSE","d":"AQ","x5u":"https://example.com/"}"#,
        r#"{"kty":"OKP","crv":"Ed25519","x":"11qYAYKxCrfVS_7TyWQHOg7hcvPapiMlrwIaaPcHURo"}"#,
      ])
    }),
    e("JwkSet::from_json", ep_jwk_set, || {
      vec![format!(r#"{{"keys":[{},{}]}}"#, JWK_SEEDS[1], JWK_SEEDS[2]).into_bytes(), br#"{"keys":[]}"#.to_vec()]
    }),
    e("JwsHeader::from_json", ep_jws_header, || {
      sv(&[
        r#"{"alg":"EdDSA"}"#,
        r#"{"alg":"EdDSA","b64":false,"crit":["b64"],"kid":"did:example:123#key-1","nonce":"n","typ":"JWT","cty":"x","url":"https://a.b/","custom":1}"#,
        r#"{"alg":"ES256","jwk":{"kty":"OKP","crv":"Ed25519","x":"11qYAYKxCrfVS_7TyWQHOg7hcvPapiMlrwIaaPcHURo"},"jku":"https://a.b/","x5c":["AQ=="],"crit":["exp"],"exp":1}"#,
        r#"{"crit":[]}"#,
      ])
    }),
    e("JwtClaims::from_json", ep_jwt_claims, || {
      sv(&[
        r#"{"iss":"did:example:123","sub":"did:example:456","aud":["a","b"],"exp":1893456000,"nbf":1577836800,"iat":1577836800,"jti":"https://example.com/1","vc":{"a":1},"x":null}"#,
        r#"{"aud":"single","exp":1.5e9}"#,
      ])
    }),
    e("VerificationMethod::from_json", ep_method, || {
      sv(&[
        r#"{"id":"did:example:123#key-1","controller":"did:example:123","type":"JsonWebKey","publicKeyJwk":{"kty":"OKP","crv":"Ed25519","x":"11qYAYKxCrfVS_7TyWQHOg7hcvPapiMlrwIaaPcHURo"}}"#,
        r#"{"id":"did:example:123#key-2","controller":"did:example:456","type":"Ed25519VerificationKey2018","publicKeyMultibase":"zHHoh9NQC9AUsK15Jyyq53VTujxEUizKDXRXd7zbT1B5u","extra":[1]}"#,
        r#"{"id":"did:example:123#key-3","controller":"did:example:123","type":"X","publicKeyBase58":"3M5RCDjPTWPkKSN3sxUmmMqHbmRPegYP1tjcKyrDbt9J"}"#,
        r#"{"id":"did:example:123","controller":"did:example:123","type":"X","blockchainAccountId":"eip155:1:0xab16a96D359eC26a11e2C2b3d8f8B8942d5Bfcdb"}"#,
      ])
    }),
    e("MethodRef::from_json", ep_method_ref, || {
      sv(&[
        r#""did:example:123#key-1""#,
        r#"{"id":"did:example:123#key-2","controller":"did:example:456","type":"Ed25519VerificationKey2018","publicKeyMultibase":"zHHoh9NQC9AUsK15Jyyq53VTujxEUizKDXRXd7zbT1B5u"}"#,
      ])
    }),
    e("Service::from_json", ep_service, || {
      sv(&[
        r##"{"id":"did:example:123#svc","type":"LinkedDomains","serviceEndpoint":"https://example.com/"}"##,
        r##"{"id":"did:example:123#ld","type":"LinkedDomains","serviceEndpoint":{"origins":["https://a.example/","https://b.example/"]}}"##,
        r##"{"id":"did:example:123#rev","type":"RevocationBitmap2022","serviceEndpoint":"data:application/octet-stream;base64,eJyzMmAAAwADKABr"}"##,
        r##"{"id":"did:example:123#rev2","type":"RevocationBitmap2022","serviceEndpoint":"data:application/octet-stream;base64,ZUp5ek1tQUFBd0FES0FCcg=="}"##,
        r##"{"id":"did:example:123#vp","type":["LinkedVerifiablePresentation"],"serviceEndpoint":["https://a.example/vp.jwt"],"x":1}"##,
      ])
    }),
    e("CoreDocument::from_json", ep_core_document, || sv(&[DOC_JSON, r#"{"id":"did:example:1"}"#])),
    e("IotaDocument::from_json", ep_iota_document, || {
      sv(&[
        IOTA_DOC_JSON,
        r#"{"doc":{"id":"did:iota:0xaaaaaaaaaaaaaaaaaaaaaaaaaaaaaaaaaaaaaaaaaaaaaaaaaaaaaaaaaaaaaaaa"},"meta":{"created":"2022-08-31T09:33:31Z","updated":"2022-08-31T09:33:31Z"}}"#,
        r#"{"doc":{"id":"did:iota:iota:0xAAAAAAAAAAAAAAAAAAAAAAAAAAAAAAAAAAAAAAAAAAAAAAAAAAAAAAAAAAAAAAAA"},"meta":{}}"#,
      ])
    }),
    e("Credential::from_json", ep_credential, || {
      let mut v = cred_seeds!(
        "credential-1.json", "credential-2.json", "credential-3.json", "credential-4.json", "credential-5.json", "credential-6.json",
        "credential-7.json", "credential-8.json", "credential-9.json", "credential-10.json", "credential-11.json", "credential-12.json"
      );
      v.push(STATUS_LIST_CRED.as_bytes().to_vec());
      v.push(CRED_WITH_BITMAP_STATUS.as_bytes().to_vec());
      v
    }),
    e("Presentation::from_json", ep_presentation, || {
      sv(&[
        r#"{"@context":"https://www.w3.org/2018/credentials/v1","id":"https://example.com/vp/1","type":"VerifiablePresentation","verifiableCredential":["eyJhbGciOiJFZERTQSJ9.e30.AAAA"],"holder":"did:example:123","extra":1}"#,
        r#"{"@context":["https://www.w3.org/2018/credentials/v1"],"type":["VerifiablePresentation","X"],"verifiableCredential":[],"holder":"did:example:123","refreshService":{"id":"https://a.b/","type":"R"},"termsOfUse":[{"type":"T"}],"proof":{"type":"P"}}"#,
      ])
    }),
    e("Status::from_json", ep_status, || {
      let mut v = cred_seeds!("status-1.json");
      v.extend(sv(&[
        r##"{"id":"did:example:123?index=5#rev","type":"RevocationBitmap2022","revocationBitmapIndex":"5"}"##,
        r##"{"id":"https://example.com/credentials/status/3#94567","type":"StatusList2021Entry","statusPurpose":"revocation","statusListIndex":"94567","statusListCredential":"https://example.com/credentials/status/3"}"##,
        r##"{"id":"did:example:123?index=5#rev","type":"RevocationTimeframe2024","startValidityTimeframe":"2020-01-01T00:00:00Z","endValidityTimeframe":"2021-01-01T00:00:00Z","revocationBitmapIndex":"5"}"##,
      ]));
      v
    }),
    e("DomainLinkageConfiguration::from_json", ep_domain_linkage, || {
      cred_seeds!("domain-config-valid.json", "domain-config-extra-property.json", "domain-config-invalid-context.json")
    }),
    e("TypeMetadata::from_json", ep_type_metadata, || {
      sv(&[
        r#"{"name":"n","description":"d","claims":[{"path":["name"],"sd":"always"},{"path":["a",null,"b"],"sd":"never","display":[{"lang":"en","label":"x"}]},{"path":["a",1]}],"display":[{"lang":"en","name":"x","rendering":{"simple":{}}}],"schema":{"type":"object","properties":{"vct":{"type":"string"}}}}"#,
        r#"{"extends":"https://example.com/base","extends#integrity":"sha256-AQID","schema_uri":"https://example.com/schema","schema_uri#integrity":"sha256-AQID"}"#,
      ])
    }),
    e("IssuerMetadata::from_json", ep_issuer_metadata, || {
      sv(&[
        r#"{"issuer":"https://example.com","jwks":{"keys":[{"kty":"OKP","crv":"Ed25519","x":"11qYAYKxCrfVS_7TyWQHOg7hcvPapiMlrwIaaPcHURo"}]}}"#,
        r#"{"issuer":"https://example.com","jwks_uri":"https://example.com/jwks"}"#,
      ])
    }),
    e("ClaimMetadata::from_json", ep_claim_metadata, || {
      sv(&[r#"{"path":["name"],"sd":"always"}"#, r#"{"path":["a",null,"b",3],"sd":"never","display":[{"lang":"en","label":"x","description":"d"}]}"#])
    }),
    e("OneOrMany::from_json", ep_one_or_many, || sv(&[r#""a""#, r#"["a","b","a"]"#, "[]"])),
    e("OneOrSet::from_json", ep_one_or_set, || sv(&[r#""a""#, r#"["a","b"]"#, r#"["a","a"]"#, "[]"])),
    e("OrderedSet::from_json", ep_ordered_set, || sv(&[r#"["a","b"]"#, r#"["a","a"]"#, "[]"])),
    e("JwsVerificationOptions::from_json", ep_jws_verification_options, || {
      sv(&[r##"{"nonce":"n","methodScope":"authentication","methodId":"did:example:123#key-1"}"##, "{}"])
    }),
    e("JwtCredentialValidationOptions::from_json", ep_validation_options, || {
      sv(&[r#"{"earliestExpiryDate":"2020-01-01T00:00:00Z","latestIssuanceDate":"2030-01-01T00:00:00Z","status":0,"subjectHolderRelationship":["did:example:1",0],"verifierOptions":{"nonce":"n"}}"#, "{}"])
    }),
    e("JwtPresentationValidationOptions::from_json", ep_presentation_validation_options, || {
      sv(&[r#"{"presentationVerifierOptions":{"nonce":"n"},"earliestExpiryDate":"2020-01-01T00:00:00Z","latestIssuanceDate":"2030-01-01T00:00:00Z"}"#, "{}"])
    }),
    e("IotaDocumentMetadata::from_json", ep_metadata, || {
      sv(&[r#"{"created":"2023-01-25T15:48:09Z","updated":"2023-01-25T15:48:09Z","deactivated":true,"governorAddress":"rms1pra642gek5g394g63uvtz5qdnrct96ga0yautvnl6k4sfjcmsp35xv6nagu","x":[1]}"#, "{}"])
    }),
  ]
}

const STATUS_LIST_CRED: &str = r#"{
  "@context": ["https://www.w3.org/2018/credentials/v1", "https://w3id.org/vc/status-list/2021/v1"],
  "id": "https://example.com/credentials/status/3",
  "type": ["VerifiableCredential", "StatusList2021Credential"],
  "issuer": "did:example:12345",
  "issuanceDate": "2021-04-05T14:27:40Z",
  "credentialSubject": {"id": "https://example.com/status/3#list", "type": "StatusList2021", "statusPurpose": "revocation",
    "encodedList": "H4sIAAAAAAAAA-3BMQEAAADCoPVPbQwfoAAAAAAAAAAAAAAAAAAAAIC3AYbSVKsAQAAA"}
}"#;

const CRED_WITH_BITMAP_STATUS: &str = r##"{
  "@context": "https://www.w3.org/2018/credentials/v1",
  "id": "https://example.edu/credentials/3732",
  "type": ["VerifiableCredential", "UniversityDegreeCredential"],
  "issuer": {"id": "did:example:123", "name": "x"},
  "issuanceDate": "2010-01-01T19:23:24Z",
  "expirationDate": "2030-01-01T00:00:00Z",
  "credentialSubject": [{"id": "did:example:ebfeb1f712ebc6f1c276e12ec21", "degree": {"type": "BachelorDegree"}}],
  "credentialStatus": {"id": "did:example:123?index=5#rev", "type": "RevocationBitmap2022", "revocationBitmapIndex": "5"},
  "credentialSchema": [{"id": "https://example.org/s.json", "type": "JsonSchemaValidator2018"}],
  "refreshService": {"id": "https://example.edu/refresh/3732", "type": "ManualRefreshService2018"},
  "termsOfUse": [{"type": "IssuerPolicy", "id": "https://example.com/policies/credential/4"}],
  "evidence": {"id": "https://example.edu/evidence/f2aeec97", "type": ["DocumentVerification"]},
  "nonTransferable": true,
  "proof": {"type": "X", "a": 1}
}"##;

include!("c05_entries_tokens.rs");
