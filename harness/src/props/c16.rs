//! C16 — SD-JWT credentials and key-binding JWTs are accepted only when fully bound.
//!
//! Per case a *condition vector* is drawn. The harness builds the token itself (own SD encoder or the
//! library's encoder with supplied salts; own Ed25519 signing), computes from the vector and an explicit
//! document model which conditions hold, and checks the one-directional statement:
//! `Ok` ⇒ every condition true (and the returned data is what was signed / disclosed); a false condition ⇒
//! `Err`, never a panic. `all true ∧ Err` only feeds the vacuity guards.

use crate::engine::*;
use crate::gen::sd_fixtures::*;
use crate::fixture;
use crate::vensure;
use crate::vfail;
use identity_core::common::Object;
use identity_core::common::Timestamp;
use identity_core::common::Url;
use identity_credential::sd_jwt_payload::KeyBindingJwtClaims;
use identity_credential::sd_jwt_payload::SdJwt;
use identity_credential::sd_jwt_payload::SdObjectDecoder;
use identity_credential::validator::FailFast;
use identity_credential::validator::JwtCredentialValidationOptions;
use identity_credential::validator::KeyBindingJWTValidationOptions;
use identity_credential::validator::SdJwtCredentialValidator;
use identity_credential::validator::StatusCheck;
use identity_credential::validator::SubjectHolderRelationship;
use identity_did::DIDUrl;
use identity_document::document::CoreDocument;
use identity_document::verifiable::JwsVerificationOptions;
use identity_eddsa_verifier::EdDSAJwsVerifier;
use identity_verification::MethodRelationship;
use identity_verification::MethodScope;
use proptest::prelude::*;
use serde::Deserialize;
use serde::Serialize;
use serde_json::json;
use serde_json::Map;
use serde_json::Value;
use std::collections::BTreeMap;

// ---------------------------------------------------------------------------------------------
// Case data
// ---------------------------------------------------------------------------------------------

/// Instants used where the library compares with the wall clock (option absent): everything at or before
/// `PAST_MAX` (2004) is taken to be in the past and everything at or after `FUTURE_MIN` (2191) in the future.
pub const PAST: i64 = 1_000_000_000;
pub const PAST_MAX: i64 = 1_100_000_000;
pub const FUTURE: i64 = 7_258_118_400;
pub const FUTURE_MIN: i64 = 7_000_000_000;

pub const NONCES: [&str; 3] = ["n1", "n2", ""];
pub const AUDS: [&str; 3] = ["https://verifier.example/", "did:example:verifier", ""];
pub const JUNK_KIDS: [&str; 4] = ["", "not a did url", "did:", "https://example.com/#g"];

#[derive(Debug, Clone, PartialEq, Serialize, Deserialize)]
pub enum PathSel {
  /// index into the enumerated claim paths, mapped monotonically
  Sel(u16),
  /// RFC 6901 pointer (ignored when the claims have no such member)
  Ptr(String),
}

#[derive(Debug, Clone, Copy, PartialEq, Eq, Serialize, Deserialize)]
pub enum SdAlg {
  Absent,
  Sha256,
  /// `sha-512`: the decoder under test has no such hasher
  Unsupported,
  NotAString,
}

/// How the issuer-signed part is made.
#[derive(Debug, Clone, PartialEq, Serialize, Deserialize)]
pub struct TokenSpec {
  pub universe: u8,
  pub cred: CredSpec,
  /// (claim, disclosed to the verifier?) — every listed claim is concealed
  pub plan: Vec<(PathSel, bool)>,
  pub salt_seed: u32,
  pub style: EncStyle,
  pub decoys: u8,
  pub sd_alg: SdAlg,
}

#[derive(Debug, Clone, Copy, PartialEq, Eq, Serialize, Deserialize)]
pub enum Signer {
  /// the key of the method the verifier will resolve (by the model, ignoring scope)
  Resolved,
  /// key number n of the universe
  Key(u8),
}

#[derive(Debug, Clone, Copy, PartialEq, Eq, Serialize, Deserialize)]
pub enum Kid {
  /// absolute id number n of the id candidates
  Id(u8),
  /// only `#fragment` of candidate n
  Fragment(u8),
  Absent,
  Junk(u8),
}

#[derive(Debug, Clone, Copy, PartialEq, Eq, Serialize, Deserialize)]
pub enum DiscFault {
  None,
  Reverse,
  Rotate,
  Duplicate(u16),
  ForgeValue(u16),
  /// the disclosure of the same claim from a token issued with other salts
  ForgeSalt(u16),
  ForgeName(u16),
  /// a well-formed disclosure of a claim that was never committed to
  Unknown,
  /// a string that is not a disclosure
  Garbage(u8),
  /// an issued disclosure with base64 padding appended (`=`, `==`): as presented it hashes to no signed digest
  Padded(u16),
}

pub const GARBAGE: [&str; 9] = [
  "",
  "!!!",
  "bm90IGpzb24",                  // not json
  "W10",                          // []
  "WyJzIl0",                      // ["s"]
  "WzEsIm4iLDJd",                 // [1,"n",2]
  "WyJzIiwyLDNd",                 // ["s",2,3]
  "WyJzIiwibiIsMSwyXQ",           // ["s","n",1,2]
  "eyJhIjoxfQ",                   // {"a":1}
];

/// Number of non-disclosure strings `garbage` knows.
pub const GARBAGE_LEN: usize = 17;

/// A string that is not a disclosure: the short ones of `GARBAGE`, then long runs of two-byte characters at four
/// alignments (what an error message that quotes and shortens the input has to cope with), raw and wrapped in a
/// disclosure-shaped array.
pub fn garbage(g: u8) -> String {
  let g = g as usize % GARBAGE_LEN;
  if g < GARBAGE.len() {
    return GARBAGE[g].to_string();
  }
  let k = (g - GARBAGE.len()) % 4;
  let run = format!("{}{}", "a".repeat(k), "é".repeat(220));
  if g - GARBAGE.len() < 4 {
    run
  } else {
    crate::util::b64url(serde_json::json!(["c2FsdA", "name", run]).to_string().as_bytes())
  }
}

#[derive(Debug, Clone, PartialEq, Serialize, Deserialize)]
pub enum Entry {
  /// `validate_credential` with this issuer document
  Validate(DocSel),
  /// `verify_signature` with these trusted issuers
  VerifySignature(Vec<DocSel>),
}

#[derive(Debug, Clone, PartialEq, Serialize, Deserialize)]
pub struct CredCase {
  pub token: TokenSpec,
  pub signer: Signer,
  /// payload changed after signing
  pub tamper: bool,
  pub kid: Kid,
  pub header_nonce: Option<u8>,
  pub fault: DiscFault,
  pub opt_method_id: Option<u8>,
  pub opt_scope: Scope,
  pub opt_nonce: Option<u8>,
  /// `None`: option absent, the library compares with the wall clock
  pub latest_issuance: Option<i64>,
  pub earliest_expiry: Option<i64>,
  /// 0 Strict, 1 SkipUnsupported, 2 SkipAll
  pub status_check: u8,
  pub all_errors: bool,
  /// (holder is H / X, 0 AlwaysSubject 1 SubjectOnNonTransferable 2 Any)
  pub holder_rel: Option<(bool, u8)>,
  pub entry: Entry,
}

#[derive(Debug, Clone, Copy, PartialEq, Eq, Serialize, Deserialize)]
pub enum Typ {
  /// `KeyBindingJwtClaims::KB_JWT_HEADER_TYP` — what the validator compares with
  Constant,
  /// the literal `kb+jwt` (differs from the pinned constant by a leading blank)
  Literal,
  Jwt,
  Absent,
  Other(u8),
}

pub const OTHER_TYPS: [&str; 5] = ["KB+JWT", "kb-jwt", "sd-jwt", "", "kb+jwt "];

#[derive(Debug, Clone, Copy, PartialEq, Eq, Serialize, Deserialize)]
pub enum Alg {
  EdDSA,
  ES256,
  Absent,
  NoneAlg,
}

#[derive(Debug, Clone, Copy, PartialEq, Eq, Serialize, Deserialize)]
pub enum SigFault {
  None,
  /// one bit of the 64 signature bytes flipped
  FlipBit(u16),
  Truncate,
  Empty,
  /// claims changed after signing
  TamperPayload,
}

#[derive(Debug, Clone, Copy, PartialEq, Eq, Serialize, Deserialize)]
pub enum SdHash {
  /// over `<jwt>~` followed by `<d>~` per presented disclosure (the specification's text)
  Correct,
  /// over `format!("{jwt}~{}~", disclosures.join("~"))`: equals `Correct` unless there are no disclosures,
  /// where it is `<jwt>~~`
  JoinLayout,
  DropLast,
  Reversed,
  OtherJwt,
  NoTrailingTilde,
  Garbage,
  Absent,
  /// the right digest string with its last character removed (a proper prefix of the expected value)
  DigestTruncated,
  /// the empty string (a prefix of every digest)
  DigestEmpty,
  /// the right digest string followed by one more character
  DigestExtended,
}

#[derive(Debug, Clone, PartialEq, Serialize, Deserialize)]
pub struct KbCase {
  pub token: TokenSpec,
  /// the SD-JWT carries a KB-JWT at all
  pub present: bool,
  pub holder_doc: DocSel,
  pub typ: Typ,
  pub alg: Alg,
  pub signer: Signer,
  pub sig_fault: SigFault,
  pub kid: Kid,
  pub opt_method_id: Option<u8>,
  pub opt_scope: Scope,
  pub sd_hash: SdHash,
  pub nonce_claim: Option<u8>,
  pub nonce_opt: Option<u8>,
  pub aud_claim: Option<u8>,
  pub aud_opt: Option<u8>,
  pub iat: Option<i64>,
  pub earliest: Option<i64>,
  pub latest: Option<i64>,
  pub extra_claim: bool,
}

#[derive(Debug, Clone, Serialize, Deserialize)]
pub enum Case {
  Cred(CredCase),
  Kb(KbCase),
}

// ---------------------------------------------------------------------------------------------
// Token construction (fixture side)
// ---------------------------------------------------------------------------------------------

struct BuiltToken {
  sd_claims: Value,
  discs: Vec<Disc>,
  /// the claims a verifier is entitled to see (original claims minus withheld ones)
  view: Value,
  orphans: Vec<Path>,
  /// the credential as signed has neither a subject id nor any subject claim (nothing was withheld: there is nothing)
  subject_is_empty: bool,
}

fn build_token(spec: &TokenSpec, uni: &Universe) -> Result<BuiltToken, String> {
  let claims = spec.cred.claims(uni)?;
  let paths = enumerate_paths(&claims);
  let mut states: BTreeMap<Path, bool> = BTreeMap::new();
  for (sel, disclosed) in &spec.plan {
    let path = match sel {
      PathSel::Sel(s) => paths.get((*s as usize * paths.len()) >> 16),
      PathSel::Ptr(p) => paths.iter().find(|c| &pointer(c) == p),
    };
    if let Some(p) = path {
      states.entry(p.clone()).or_insert(*disclosed);
    }
  }
  let plan: Vec<(Path, bool)> = states.iter().map(|(p, d)| (p.clone(), *d)).collect();
  let (mut sd_claims, discs) = conceal(&claims, &plan, spec.salt_seed, spec.style)?;
  add_decoys(&mut sd_claims, spec.decoys, spec.salt_seed);
  if let Some(o) = sd_claims.as_object_mut() {
    match spec.sd_alg {
      SdAlg::Absent => {}
      SdAlg::Sha256 => {
        o.insert("_sd_alg".into(), json!("sha-256"));
      }
      SdAlg::Unsupported => {
        o.insert("_sd_alg".into(), json!("sha-512"));
      }
      SdAlg::NotAString => {
        o.insert("_sd_alg".into(), json!(256));
      }
    }
  }
  let (view, orphans) = entitled_view(&claims, &states);
  // (decoy digests inside the subject are indistinguishable from withheld claims: only a subject that is empty in
  // what was signed as well — no `_sd` member — is empty for the verifier)
  let subject_is_empty = claims.get("sub").is_none()
    && claims
      .pointer("/vc/credentialSubject")
      .and_then(Value::as_object)
      .is_some_and(|o| o.is_empty())
    && sd_claims
      .pointer("/vc/credentialSubject")
      .and_then(Value::as_object)
      .is_some_and(|o| o.is_empty());
  Ok(BuiltToken {
    sd_claims,
    discs,
    view,
    orphans,
    subject_is_empty,
  })
}

fn lib_scope(scope: Scope) -> Option<MethodScope> {
  match scope {
    Scope::Any => None,
    Scope::VerificationMethod => Some(MethodScope::VerificationMethod),
    Scope::Authentication => Some(MethodScope::VerificationRelationship(MethodRelationship::Authentication)),
    Scope::AssertionMethod => Some(MethodScope::VerificationRelationship(MethodRelationship::AssertionMethod)),
    Scope::KeyAgreement => Some(MethodScope::VerificationRelationship(MethodRelationship::KeyAgreement)),
  }
}

fn verification_options(nonce: Option<u8>, scope: Scope, method_id: Option<&str>) -> Result<JwsVerificationOptions, String> {
  let mut o = JwsVerificationOptions::new();
  if let Some(n) = nonce {
    o = o.nonce(NONCES[n as usize % NONCES.len()]);
  }
  if let Some(s) = lib_scope(scope) {
    o = o.method_scope(s);
  }
  if let Some(id) = method_id {
    o = o.method_id(DIDUrl::parse(id).map_err(|e| format!("method id {id}: {e}"))?);
  }
  Ok(o)
}

fn timestamp(unix: i64) -> Result<Timestamp, String> {
  Timestamp::from_unix(unix).map_err(|e| format!("timestamp {unix}: {e}"))
}

/// How the verifier is told which method to use.
enum MethodQuery {
  Absolute(String),
  FragmentOnly(String),
  Unidentifiable,
}

fn method_query(ids: &[String; 6], opt_method_id: Option<u8>, kid: Kid) -> MethodQuery {
  let pick = |n: u8| ids[n as usize % ids.len()].clone();
  match (opt_method_id, kid) {
    (Some(n), _) => MethodQuery::Absolute(pick(n)),
    (None, Kid::Id(n)) => MethodQuery::Absolute(pick(n)),
    (None, Kid::Fragment(n)) => MethodQuery::FragmentOnly(pick(n).rsplit('#').next().unwrap_or_default().to_string()),
    (None, Kid::Absent) | (None, Kid::Junk(_)) => MethodQuery::Unidentifiable,
  }
}

fn kid_text(ids: &[String; 6], kid: Kid) -> Option<String> {
  match kid {
    Kid::Id(n) => Some(ids[n as usize % ids.len()].clone()),
    Kid::Fragment(n) => Some(format!("#{}", ids[n as usize % ids.len()].rsplit('#').next().unwrap_or_default())),
    Kid::Absent => None,
    Kid::Junk(n) => Some(JUNK_KIDS[n as usize % JUNK_KIDS.len()].to_string()),
  }
}

fn did_of(id: &str) -> &str {
  id.split('#').next().unwrap_or(id)
}

/// Conditions found false / conditions about which the statement (or its relation to the wall clock or to a
/// dependency quirk) says nothing.
#[derive(Default)]
struct Verdict {
  falses: Vec<&'static str>,
  either: Vec<&'static str>,
}

impl Verdict {
  fn set(&mut self, name: &'static str, holds: Option<bool>) {
    match holds {
      Some(true) => {}
      Some(false) => self.falses.push(name),
      None => self.either.push(name),
    }
  }
  fn all_true(&self) -> bool {
    self.falses.is_empty() && self.either.is_empty()
  }
}

fn variant_name(debug: &str) -> String {
  debug.chars().take_while(|c| c.is_ascii_alphanumeric()).collect()
}

// ---------------------------------------------------------------------------------------------
// Credential side: model
// ---------------------------------------------------------------------------------------------

/// Issuer DID named by the visible `iss` claim (string or `{"id": …}`).
fn visible_issuer(view: &Value) -> Option<&str> {
  match view.get("iss")? {
    Value::String(s) => Some(s),
    Value::Object(o) => o.get("id")?.as_str(),
    _ => None,
  }
}

/// Structure rules of the data model applied to the entitled view (`None`: nothing asserted).
fn structure_holds(view: &Value, subject_is_empty: bool) -> Option<bool> {
  let Some(vc) = view.get("vc").and_then(Value::as_object) else {
    return Some(false);
  };
  let first_context = match vc.get("@context") {
    Some(Value::Array(a)) => a.first().cloned(),
    Some(other) => Some(other.clone()),
    None => None,
  };
  if first_context != Some(json!(BASE_CONTEXT)) {
    return Some(false);
  }
  let has_base_type = match vc.get("type") {
    Some(Value::Array(a)) => a.contains(&json!(BASE_TYPE)),
    Some(other) => other == &json!(BASE_TYPE),
    None => false,
  };
  if !has_base_type {
    return Some(false);
  }
  let Some(subject) = vc.get("credentialSubject").and_then(Value::as_object) else {
    return Some(false);
  };
  if view.get("sub").is_none() && subject.is_empty() {
    // The credential was signed without subject id and without any subject claim: "the subject is non-empty" is false.
    if subject_is_empty {
      return Some(false);
    }
    // A subject all of whose claims are withheld: the pinned decoder leaves its `_sd` member in place, which
    // then counts as a property. Nothing is asserted either way.
    return None;
  }
  Some(true)
}

fn status_holds(view: &Value, check: u8, trusted: &[&DocModel]) -> Option<bool> {
  let Some(status) = view.pointer("/vc/credentialStatus") else {
    return Some(true);
  };
  if check == 2 {
    return Some(true);
  }
  let status = status.as_object()?;
  let ty = status.get("type")?.as_str()?;
  let id = status.get("id")?.as_str()?;
  if ty != BITMAP_TYPE {
    return Some(check == 1);
  }
  let index: u32 = match status.get("revocationBitmapIndex") {
    Some(Value::String(s)) => match s.parse() {
      Ok(i) => i,
      Err(_) => return Some(false),
    },
    _ => return Some(false),
  };
  let (before, fragment) = id.split_once('#')?;
  let (did, query) = match before.split_once('?') {
    Some((d, q)) => (d, Some(q)),
    None => (before, None),
  };
  if let Some(q) = query {
    match q.strip_prefix("index=").and_then(|n| n.parse::<u32>().ok()) {
      Some(n) if n == index => {}
      _ => return Some(false),
    }
  }
  let issuer = visible_issuer(view);
  let Some(doc) = trusted.iter().find(|d| Some(d.did.as_str()) == issuer) else {
    return Some(false);
  };
  let wanted = format!("{did}#{fragment}");
  match doc.services.iter().find(|s| s.id == wanted) {
    Some(s) if s.bitmap => Some(!REVOKED.contains(&index)),
    _ => Some(false),
  }
}

/// `instant <= bound` where an absent bound means "now".
fn not_after(instant: i64, bound: Option<i64>) -> Option<bool> {
  match bound {
    Some(b) => Some(instant <= b),
    None if instant <= PAST_MAX => Some(true),
    None if instant >= FUTURE_MIN => Some(false),
    None => None,
  }
}

/// `instant >= bound` where an absent bound means "now".
fn not_before(instant: i64, bound: Option<i64>) -> Option<bool> {
  match bound {
    Some(b) => Some(instant >= b),
    None if instant >= FUTURE_MIN => Some(true),
    None if instant <= PAST_MAX => Some(false),
    None => None,
  }
}

struct Presented {
  text: String,
  /// index into the token's disclosures when this string is one of them, unchanged
  genuine: Option<usize>,
}

fn present_disclosures(discs: &[Disc], fault: DiscFault, salt_seed: u32, obs: &mut Obs) -> Vec<Presented> {
  let mut list: Vec<Presented> = discs
    .iter()
    .enumerate()
    .filter(|(_, d)| d.disclosed)
    .map(|(i, d)| Presented { text: d.text.clone(), genuine: Some(i) })
    .collect();
  let at = |sel: u16, len: usize| (sel as usize * len) >> 16;
  let n = list.len();
  match fault {
    DiscFault::None => {}
    DiscFault::Reverse if n >= 2 => {
      list.reverse();
      obs.label("disclosures-reordered");
    }
    DiscFault::Rotate if n >= 2 => {
      list.rotate_left(1);
      obs.label("disclosures-reordered");
    }
    DiscFault::Duplicate(s) if n >= 1 => {
      let k = at(s, n);
      let copy = Presented { text: list[k].text.clone(), genuine: list[k].genuine };
      list.push(copy);
      obs.label("disclosure-duplicated");
    }
    DiscFault::ForgeValue(s) | DiscFault::ForgeSalt(s) | DiscFault::ForgeName(s) if n >= 1 => {
      let k = at(s, n);
      let (idx, d) = match list[k].genuine {
        Some(i) => (i, &discs[i]),
        None => return list,
      };
      let text = match fault {
        DiscFault::ForgeValue(_) => {
          let other = if d.value == json!("forged") { json!(0) } else { json!("forged") };
          obs.label("disclosure-forged-value");
          disclosure_text(&d.salt, d.name.as_deref(), &other, false)
        }
        DiscFault::ForgeSalt(_) => {
          obs.label("disclosure-from-other-token");
          disclosure_text(&salt(salt_seed.wrapping_add(1), idx), d.name.as_deref(), &d.value, false)
        }
        _ => {
          obs.label("disclosure-forged-name");
          let name = d.name.as_ref().map(|n| format!("{n}x")).unwrap_or_else(|| "x".to_string());
          disclosure_text(&d.salt, Some(&name), &d.value, false)
        }
      };
      list[k] = Presented { text, genuine: None };
    }
    DiscFault::Padded(sel) if n >= 1 => {
      let k = at(sel, n);
      let pad = if sel & 1 == 0 { "=" } else { "==" };
      obs.label("disclosure-padded");
      list[k] = Presented { text: format!("{}{pad}", list[k].text), genuine: None };
    }
    DiscFault::Unknown => {
      obs.label("disclosure-unknown");
      list.push(Presented {
        text: disclosure_text(&salt(salt_seed, 9999), Some("extra"), &json!("never committed"), false),
        genuine: None,
      });
    }
    DiscFault::Garbage(g) => {
      obs.label("disclosure-garbage");
      list.push(Presented { text: garbage(g), genuine: None });
    }
    _ => obs.label("disclosure-fault-degenerate"),
  }
  list
}

fn validator() -> SdJwtCredentialValidator<EdDSAJwsVerifier> {
  SdJwtCredentialValidator::with_signature_verifier(EdDSAJwsVerifier::default(), SdObjectDecoder::new_with_sha256())
}

// ---------------------------------------------------------------------------------------------
// Credential side: check
// ---------------------------------------------------------------------------------------------

fn check_cred(case: &CredCase, obs: &mut Obs) -> CheckResult {
  let uni = fixture!(universe(case.token.universe), "universe");
  let built = fixture!(build_token(&case.token, uni), "token");
  let ids = uni.issuer_ids();

  let trusted_sel: Vec<DocSel> = match &case.entry {
    Entry::Validate(d) => vec![*d],
    Entry::VerifySignature(list) => list.clone(),
  };
  let trusted_models: Vec<&DocModel> = trusted_sel.iter().map(|d| uni.model(*d)).collect();
  let trusted_docs: Vec<&CoreDocument> = trusted_sel.iter().map(|d| uni.doc(*d)).collect();

  // --- which method will be consulted, and which key it carries (model) -------------------------
  let query = method_query(&ids, case.opt_method_id, case.kid);
  let mut v = Verdict::default();
  let mut resolved_key: Option<usize> = None;
  let mut method_did: Option<String> = None;
  match &query {
    MethodQuery::Absolute(id) => {
      method_did = Some(did_of(id).to_string());
      match trusted_models.iter().find(|m| m.did == did_of(id)) {
        None => v.set("trusted-document", Some(false)),
        Some(doc) => match doc.resolve(id, case.opt_scope) {
          Some(k) => resolved_key = Some(k),
          None => v.set("method-in-scope", Some(false)),
        },
      }
    }
    // the documented rule: the kid is "the identifier of a verification method in a trusted issuer's DID document"
    MethodQuery::FragmentOnly(_) | MethodQuery::Unidentifiable => v.set("kid", Some(false)),
  }
  let signer_key = match case.signer {
    Signer::Key(k) => k as usize % N_KEYS,
    Signer::Resolved => resolved_key
      .or_else(|| match &query {
        MethodQuery::Absolute(id) => uni.models.iter().find_map(|m| m.resolve(id, Scope::Any)),
        _ => None,
      })
      .unwrap_or(K_A_G),
  };
  if let Some(k) = resolved_key {
    v.set("signature", Some(k == signer_key && !case.tamper));
  }
  let header_nonce = case.header_nonce.map(|n| NONCES[n as usize % NONCES.len()]);
  let opt_nonce = case.opt_nonce.map(|n| NONCES[n as usize % NONCES.len()]);
  v.set("nonce", Some(header_nonce == opt_nonce));

  // --- disclosures ----------------------------------------------------------------------------
  let presented = present_disclosures(&built.discs, case.fault, case.token.salt_seed, obs);
  if presented.iter().any(|p| p.genuine.is_none()) {
    v.set("unknown-disclosure", Some(false));
  }
  if !built.orphans.is_empty() {
    v.set("orphan-disclosure", Some(false));
    obs.label("orphan-disclosure");
  }
  let mut seen = std::collections::BTreeSet::new();
  if presented.iter().any(|p| !seen.insert(p.text.as_str())) {
    v.set("duplicate-disclosure", None);
  }
  match case.token.sd_alg {
    SdAlg::Unsupported | SdAlg::NotAString => v.set("sd-alg", None),
    _ => {}
  }

  // --- the credential the verifier is entitled to see -------------------------------------------
  let view = &built.view;
  match (visible_issuer(view), &method_did) {
    (Some(iss), Some(did)) => v.set("issuer-identity", Some(iss == did)),
    (None, _) => v.set("issuer-identity", Some(false)),
    (Some(_), None) => {}
  }
  let nbf = view.get("nbf").and_then(Value::as_i64);
  if nbf.is_none() {
    v.set("issuance-date", Some(false));
  }
  let validating = matches!(case.entry, Entry::Validate(_));
  if validating {
    if let Some(nbf) = nbf {
      v.set("issuance-date", not_after(nbf, case.latest_issuance));
    }
    if let Some(exp) = view.get("exp") {
      match exp.as_i64() {
        Some(exp) => v.set("expiration-date", not_before(exp, case.earliest_expiry)),
        None => v.set("expiration-date", None),
      }
    }
    v.set("structure", structure_holds(view, built.subject_is_empty));
    if let Some((holder_is_h, rel)) = case.holder_rel {
      let holder = uni.did(if holder_is_h { DocSel::H } else { DocSel::X });
      let matches = view.get("sub").and_then(Value::as_str) == Some(holder);
      let non_transferable = view.pointer("/vc/nonTransferable").and_then(Value::as_bool).unwrap_or(false);
      let holds = match rel % 3 {
        0 => matches,
        1 => matches || !non_transferable,
        _ => true,
      };
      v.set("subject-holder", Some(holds));
    }
    v.set("status", status_holds(view, case.status_check % 3, &trusted_models));
  } else if view.get("vc").and_then(Value::as_object).is_none() {
    v.set("structure", Some(false));
  }

  // --- labels -----------------------------------------------------------------------------------
  let n_disclosed = built.discs.iter().filter(|d| d.disclosed).count();
  let n_withheld = built.discs.len() - n_disclosed;
  obs.label(if validating { "entry-validate" } else { "entry-verify-signature" });
  obs.label(match (n_disclosed > 0, n_withheld > 0) {
    (true, true) => "sd-mixed",
    (true, false) => "sd-all-disclosed",
    (false, true) => "sd-all-withheld",
    (false, false) => "sd-nothing-concealed",
  });
  if built.discs.iter().any(|d| built.discs.iter().any(|p| p.path.len() < d.path.len() && d.path.starts_with(&p.path))) {
    obs.label("sd-nested");
  }
  obs.label(match v.falses.len() {
    0 if v.either.is_empty() => "all-true",
    0 => "no-false-some-unasserted",
    1 => "one-false",
    _ => "several-false",
  });
  if (n_disclosed > 0 && n_withheld > 0) || v.falses.len() == 1 {
    obs.nontrivial();
  }

  // --- build the token and the options ----------------------------------------------------------
  let mut header = Map::new();
  header.insert("alg".into(), json!("EdDSA"));
  header.insert("typ".into(), json!("JWT"));
  if let Some(k) = kid_text(&ids, case.kid) {
    header.insert("kid".into(), json!(k));
  }
  if let Some(n) = header_nonce {
    header.insert("nonce".into(), json!(n));
  }
  let mut parts = SignedParts::sign(
    &uni.keys[signer_key],
    &Value::Object(header).to_string(),
    built.sd_claims.to_string().as_bytes(),
  );
  if case.tamper {
    let mut changed = built.sd_claims.clone();
    if let Some(o) = changed.as_object_mut() {
      o.insert("x-tampered".into(), json!(true));
    }
    parts.payload = crate::util::b64url(changed.to_string().as_bytes());
  }
  let sd_jwt = SdJwt::new(parts.compact(), presented.iter().map(|p| p.text.clone()).collect(), None);

  let method_id_text = case.opt_method_id.map(|n| ids[n as usize % ids.len()].clone());
  let vopts = fixture!(
    verification_options(case.opt_nonce, case.opt_scope, method_id_text.as_deref()),
    "verification options"
  );

  // --- the call -----------------------------------------------------------------------------------
  let validator = validator();
  type Decoded = identity_credential::validator::DecodedJwtCredential<Object>;
  let outcome: Result<Result<Decoded, Vec<String>>, PanicInfo> = match &case.entry {
    Entry::Validate(_) => {
      let mut opts = JwtCredentialValidationOptions::default()
        .status_check(match case.status_check % 3 {
          0 => StatusCheck::Strict,
          1 => StatusCheck::SkipUnsupported,
          _ => StatusCheck::SkipAll,
        })
        .verification_options(vopts);
      if let Some(t) = case.latest_issuance {
        opts = opts.latest_issuance_date(fixture!(timestamp(t), "latest issuance date"));
      }
      if let Some(t) = case.earliest_expiry {
        opts = opts.earliest_expiry_date(fixture!(timestamp(t), "earliest expiry date"));
      }
      if let Some((holder_is_h, rel)) = case.holder_rel {
        let holder = uni.did(if holder_is_h { DocSel::H } else { DocSel::X });
        let url = fixture!(Url::parse(holder), "holder url");
        opts = opts.subject_holder_relationship(
          url,
          match rel % 3 {
            0 => SubjectHolderRelationship::AlwaysSubject,
            1 => SubjectHolderRelationship::SubjectOnNonTransferable,
            _ => SubjectHolderRelationship::Any,
          },
        );
      }
      let fail_fast = if case.all_errors { FailFast::AllErrors } else { FailFast::FirstError };
      let doc = trusted_docs[0];
      catch(|| {
        validator
          .validate_credential::<_, Object>(&sd_jwt, doc, &opts, fail_fast)
          .map_err(|e| e.validation_errors.iter().map(|e| variant_name(<&'static str>::from(e))).collect())
      })
    }
    Entry::VerifySignature(_) => catch(|| {
      validator
        .verify_signature::<_, Object>(&sd_jwt, &trusted_docs, &vopts)
        .map_err(|e| vec![variant_name(<&'static str>::from(&e))])
    }),
  };
  let entry = if validating { "validate_credential" } else { "verify_signature" };

  match outcome {
    Err(p) => {
      let sig = format!("{entry}-panics:{}", p.sig());
      obs.fail(sig, format!("{entry} panicked at {}:{}: {} (false conditions: {:?})", p.file, p.line, p.msg, v.falses))
    }
    Ok(Err(kinds)) => {
      obs.label("rejected");
      for k in kinds.iter().take(3) {
        obs.label(format!("error-{k}"));
      }
      if v.all_true() {
        obs.label("all-true-but-rejected");
        obs.label(format!("all-true-but-rejected-{entry}-{}", kinds.first().map(String::as_str).unwrap_or("?")));
      }
      if let Some(first) = v.falses.first() {
        obs.label(format!("rejected-with-false-{first}"));
      }
      Ok(())
    }
    Ok(Ok(decoded)) => {
      obs.label("accepted");
      if n_withheld > 0 {
        obs.label("accepted-with-withheld-claims");
      }
      if let Some(first) = v.falses.first() {
        vfail!(
          obs,
          format!("{entry}-accepts-despite-{first}"),
          "{entry} returned Ok although these conditions are false: {:?} (unasserted: {:?})",
          v.falses,
          v.either
        );
        return Ok(());
      }
      // Returned data: exactly the entitled view.
      let got = match serde_json::to_value(&decoded.credential) {
        Ok(g) => strip_residue(&g),
        Err(e) => return obs.fail(format!("{entry}-returns-unserialisable-credential"), e.to_string()),
      };
      match credential_of_claims(view) {
        Some(want) => vensure!(
          obs,
          got == want,
          format!("{entry}-returns-other-credential"),
          "{entry} returned a credential that is not the signed claims minus the withheld ones:\n got  {got}\n want {want}"
        ),
        None => vfail!(
          obs,
          format!("{entry}-accepts-unmappable-claims"),
          "{entry} accepted claims that do not denote a credential: visible claims {view}, returned {got}"
        ),
      }
      let want_custom = custom_of_claims(view);
      let got_custom: Map<String, Value> = decoded
        .custom_claims
        .clone()
        .unwrap_or_default()
        .into_iter()
        .filter(|(k, _)| !REGISTERED.contains(&k.as_str()))
        .collect();
      vensure!(
        obs,
        strip_residue(&Value::Object(got_custom.clone())) == Value::Object(want_custom.clone()),
        format!("{entry}-returns-other-custom-claims"),
        "custom claims {:?}, entitled view has {:?}",
        got_custom,
        want_custom
      );
      vensure!(
        obs,
        decoded.header.kid() == kid_text(&ids, case.kid).as_deref() && decoded.header.nonce() == header_nonce,
        format!("{entry}-returns-other-header"),
        "returned header kid {:?} nonce {:?}",
        decoded.header.kid(),
        decoded.header.nonce()
      );
      Ok(())
    }
  }
}

// ---------------------------------------------------------------------------------------------
// Key-binding JWT
// ---------------------------------------------------------------------------------------------

const UNWRAP_PANIC_PREFIX: &str = "called `Result::unwrap()` on an `Err` value";

fn check_kb(case: &KbCase, obs: &mut Obs) -> CheckResult {
  let uni = fixture!(universe(case.token.universe), "universe");
  let built = fixture!(build_token(&case.token, uni), "token");
  let issuer_ids = uni.issuer_ids();
  let ids = uni.holder_ids();

  // Issuer-signed part: always signed properly by A#g (its validity is not what this entry point checks).
  let issuer_header = json!({"alg": "EdDSA", "typ": "JWT", "kid": issuer_ids[0]}).to_string();
  let jwt = SignedParts::sign(&uni.keys[K_A_G], &issuer_header, built.sd_claims.to_string().as_bytes()).compact();
  let disclosures: Vec<String> = built.discs.iter().filter(|d| d.disclosed).map(|d| d.text.clone()).collect();

  // --- model --------------------------------------------------------------------------------------
  let mut v = Verdict::default();
  if !case.present {
    v.set("kb-jwt-present", Some(false));
  }
  let typ_text: Option<String> = match case.typ {
    Typ::Constant => Some(KeyBindingJwtClaims::KB_JWT_HEADER_TYP.to_string()),
    Typ::Literal => Some("kb+jwt".to_string()),
    Typ::Jwt => Some("JWT".to_string()),
    Typ::Absent => None,
    Typ::Other(n) => Some(OTHER_TYPS[n as usize % OTHER_TYPS.len()].to_string()),
  };
  let constant = KeyBindingJwtClaims::KB_JWT_HEADER_TYP;
  v.set(
    "typ",
    match typ_text.as_deref() {
      Some(t) if t == constant => Some(true),
      // the pinned constant is " kb+jwt": about the literal of the specification nothing is asserted
      Some("kb+jwt") => None,
      _ => Some(false),
    },
  );
  if matches!(case.token.sd_alg, SdAlg::Unsupported | SdAlg::NotAString) {
    v.set("sd-alg", None);
  }
  let holder_model = uni.model(case.holder_doc);
  let query = method_query(&ids, case.opt_method_id, case.kid);
  let resolved_key: Option<usize> = match &query {
    MethodQuery::Absolute(id) => {
      let k = holder_model.resolve(id, case.opt_scope);
      if k.is_none() {
        v.set("method-in-holder-document", Some(false));
      }
      k
    }
    MethodQuery::FragmentOnly(f) => {
      // a relative kid: whether that identifies a method of the holder document is not stated
      v.set("kid", None);
      let k = holder_model.resolve_fragment(f, case.opt_scope);
      if k.is_none() {
        v.set("method-in-holder-document", Some(false));
      }
      k
    }
    MethodQuery::Unidentifiable => {
      v.set("kid", Some(false));
      None
    }
  };
  let signer_key = match case.signer {
    Signer::Key(k) => k as usize % N_KEYS,
    Signer::Resolved => resolved_key
      .or_else(|| match &query {
        MethodQuery::Absolute(id) => uni.models.iter().find_map(|m| m.resolve(id, Scope::Any)),
        _ => None,
      })
      .unwrap_or(K_H_K),
  };
  let signature_good = case.alg == Alg::EdDSA && case.sig_fault == SigFault::None && resolved_key == Some(signer_key);
  if resolved_key.is_some() || case.alg != Alg::EdDSA || case.sig_fault != SigFault::None {
    v.set("signature", Some(signature_good));
  }

  // sd_hash: the text the hash must cover is the presented SD-JWT up to the KB-JWT: `<jwt>~<d1>~…~<dn>~`.
  // With no disclosures two serialisations exist: the specification (draft-07, 5.3.1) presents `<jwt>~<kb>` and
  // hashes `<jwt>~`; the pinned sd-jwt-payload presents `<jwt>~~<kb>` (`SdJwt::presentation`, and its `parse`
  // rejects `<jwt>~<kb>`) and hashes `<jwt>~~` (`KeyBindingJwtClaims::new`). The token here never exists as a
  // string, so the library's own layout counts as right and the specification's is unasserted.
  let expected_text = format!("{jwt}~{}", disclosures.iter().map(|d| format!("{d}~")).collect::<String>());
  let hashed_text: Option<String> = match case.sd_hash {
    SdHash::Correct => Some(expected_text.clone()),
    SdHash::JoinLayout => Some(format!("{jwt}~{}~", disclosures.join("~"))),
    SdHash::DropLast => Some(format!("{jwt}~{}~", disclosures[..disclosures.len().saturating_sub(1)].join("~"))),
    SdHash::Reversed => Some(format!("{jwt}~{}~", disclosures.iter().rev().cloned().collect::<Vec<_>>().join("~"))),
    SdHash::OtherJwt => {
      let other = SignedParts::sign(&uni.keys[K_A_G], &issuer_header, b"{\"other\":true}").compact();
      Some(format!("{other}~{}~", disclosures.join("~")))
    }
    SdHash::NoTrailingTilde => Some(format!("{jwt}~{}", disclosures.join("~"))),
    SdHash::Garbage => Some("garbage".to_string()),
    SdHash::Absent => None,
    // the right text; the digest string itself is edited below
    SdHash::DigestTruncated | SdHash::DigestEmpty | SdHash::DigestExtended => Some(format!("{jwt}~{}~", disclosures.join("~"))),
  };
  let digest_edited = matches!(case.sd_hash, SdHash::DigestTruncated | SdHash::DigestEmpty | SdHash::DigestExtended);
  let library_text = format!("{jwt}~{}~", disclosures.join("~"));
  match &hashed_text {
    Some(t) if *t == library_text => {}
    Some(t) if *t == expected_text => v.set("sd-hash-specification-layout-without-disclosures", None),
    _ => v.set("sd-hash", Some(false)),
  }
  if digest_edited {
    v.set("sd-hash", Some(false));
  }
  let zero_disclosure_layout = match &hashed_text {
    _ if digest_edited => None,
    Some(t) if disclosures.is_empty() && *t == library_text => Some("join"),
    Some(t) if disclosures.is_empty() && *t == expected_text => Some("spec"),
    _ => None,
  };
  let pool = |pool: &'static [&'static str; 3], n: Option<u8>| n.map(|n| pool[n as usize % 3]);
  let (nonce_claim, nonce_opt) = (pool(&NONCES, case.nonce_claim), pool(&NONCES, case.nonce_opt));
  let (aud_claim, aud_opt) = (pool(&AUDS, case.aud_claim), pool(&AUDS, case.aud_opt));
  let claim_vs_option = |claim: Option<&str>, opt: Option<&str>| match (claim, opt) {
    (Some(c), Some(o)) => Some(c == o),
    (None, Some(_)) => Some(false),
    (Some(_), None) => Some(true),
    (None, None) => None,
  };
  v.set("nonce", claim_vs_option(nonce_claim, nonce_opt));
  v.set("aud", claim_vs_option(aud_claim, aud_opt));
  match case.iat {
    None if case.earliest.is_some() || case.latest.is_some() => v.set("iat", Some(false)),
    None => v.set("iat", None),
    Some(t) => {
      let lower = case.earliest.map_or(Some(true), |e| Some(t >= e));
      let upper = not_after(t, case.latest);
      v.set(
        "iat",
        match (lower, upper) {
          (Some(false), _) | (_, Some(false)) => Some(false),
          (Some(true), Some(true)) => Some(true),
          _ => None,
        },
      );
    }
  }

  // --- labels -----------------------------------------------------------------------------------
  obs.label(match v.falses.len() {
    0 if v.either.is_empty() => "all-true",
    0 => "no-false-some-unasserted",
    1 => "one-false",
    _ => "several-false",
  });
  if v.falses.len() == 1 {
    obs.label(format!("only-false-{}", v.falses[0]));
    obs.nontrivial();
  }
  if v.all_true() {
    obs.nontrivial();
  }
  if disclosures.is_empty() {
    obs.label("no-disclosures");
  }

  // --- build the KB-JWT ---------------------------------------------------------------------------
  let mut header = Map::new();
  match case.alg {
    Alg::EdDSA => {
      header.insert("alg".into(), json!("EdDSA"));
    }
    Alg::ES256 => {
      header.insert("alg".into(), json!("ES256"));
    }
    Alg::NoneAlg => {
      header.insert("alg".into(), json!("none"));
    }
    Alg::Absent => {}
  }
  if let Some(t) = &typ_text {
    header.insert("typ".into(), json!(t));
  }
  if let Some(k) = kid_text(&ids, case.kid) {
    header.insert("kid".into(), json!(k));
  }
  let mut claims = Map::new();
  if let Some(t) = case.iat {
    claims.insert("iat".into(), json!(t));
  }
  if let Some(a) = aud_claim {
    claims.insert("aud".into(), json!(a));
  }
  if let Some(n) = nonce_claim {
    claims.insert("nonce".into(), json!(n));
  }
  let sd_hash_value = hashed_text.as_deref().map(digest_of).map(|digest| match case.sd_hash {
    SdHash::DigestTruncated => digest[..digest.len().saturating_sub(1)].to_string(),
    SdHash::DigestEmpty => String::new(),
    SdHash::DigestExtended => format!("{digest}A"),
    _ => digest,
  });
  if let Some(h) = &sd_hash_value {
    claims.insert("sd_hash".into(), json!(h));
  }
  if case.extra_claim {
    claims.insert("extra".into(), json!({"k": 1}));
  }
  let mut parts = SignedParts::sign(
    &uni.keys[signer_key],
    &Value::Object(header).to_string(),
    Value::Object(claims.clone()).to_string().as_bytes(),
  );
  match case.sig_fault {
    SigFault::None => {}
    SigFault::FlipBit(s) => {
      let bit = (s as usize * 512) >> 16;
      parts.signature[bit / 8] ^= 1 << (bit % 8);
    }
    SigFault::Truncate => parts.signature.truncate(63),
    SigFault::Empty => parts.signature.clear(),
    SigFault::TamperPayload => {
      let mut changed = claims.clone();
      changed.insert("x-tampered".into(), json!(true));
      parts.payload = crate::util::b64url(Value::Object(changed).to_string().as_bytes());
    }
  }
  let sd_jwt = SdJwt::new(jwt, disclosures, case.present.then(|| parts.compact()));

  let method_id_text = case.opt_method_id.map(|n| ids[n as usize % ids.len()].clone());
  let vopts = fixture!(verification_options(None, case.opt_scope, method_id_text.as_deref()), "verification options");
  let mut opts = KeyBindingJWTValidationOptions::new().jws_verifier_options(vopts);
  if let Some(n) = nonce_opt {
    opts = opts.nonce(n);
  }
  if let Some(a) = aud_opt {
    opts = opts.aud(a);
  }
  if let Some(t) = case.earliest {
    opts = opts.earliest_issuance_date(fixture!(timestamp(t), "earliest issuance date"));
  }
  if let Some(t) = case.latest {
    opts = opts.latest_issuance_date(fixture!(timestamp(t), "latest issuance date"));
  }

  // --- the call -----------------------------------------------------------------------------------
  let validator = validator();
  let holder = uni.doc(case.holder_doc);
  match catch(|| validator.validate_key_binding_jwt(&sd_jwt, holder, &opts)) {
    Err(p) => {
      obs.label("panicked");
      let at_verify_unwrap = p.file.ends_with("sd_jwt/validator.rs") && p.msg.starts_with(UNWRAP_PANIC_PREFIX);
      if at_verify_unwrap && v.falses.contains(&"signature") {
        obs.fail(
          "kb-jwt-bad-signature-panics",
          format!(
            "validate_key_binding_jwt panicked at {}:{} instead of returning an error for a KB-JWT whose signature does not verify: {}",
            p.file, p.line, p.msg
          ),
        )
      } else {
        obs.fail(
          format!("validate_key_binding_jwt-panics:{}", p.sig()),
          format!("panic at {}:{}: {} (false conditions: {:?})", p.file, p.line, p.msg, v.falses),
        )
      }
    }
    Ok(Err(e)) => {
      obs.label("rejected");
      obs.label(format!("error-{}", variant_name(<&'static str>::from(&e))));
      if v.all_true() {
        obs.label("all-true-but-rejected");
        obs.label(format!("all-true-but-rejected-{}", variant_name(<&'static str>::from(&e))));
      }
      if let (Some(layout), true) = (zero_disclosure_layout, v.falses.is_empty()) {
        obs.label(format!("zero-disclosures-{layout}-hash-rejected"));
      }
      if v.falses.len() == 1 {
        obs.label("one-false-rejected");
      }
      Ok(())
    }
    Ok(Ok(returned)) => {
      obs.label("accepted");
      if let Some(layout) = zero_disclosure_layout {
        obs.label(format!("zero-disclosures-{layout}-hash-accepted"));
      }
      if let Some(first) = v.falses.first() {
        vfail!(
          obs,
          format!("kb-jwt-accepted-despite-{first}"),
          "validate_key_binding_jwt returned Ok although these conditions are false: {:?} (unasserted: {:?})",
          v.falses,
          v.either
        );
        return Ok(());
      }
      vensure!(
        obs,
        Some(returned.iat) == case.iat
          && Some(returned.aud.as_str()) == aud_claim
          && Some(returned.nonce.as_str()) == nonce_claim
          && Some(&returned.sd_hash) == sd_hash_value.as_ref(),
        "kb-jwt-returns-other-claims",
        "returned claims {:?} differ from the signed claims {:?}",
        returned,
        claims
      );
      Ok(())
    }
  }
}

pub fn check(case: &Case, obs: &mut Obs) -> CheckResult {
  match case {
    Case::Cred(c) => check_cred(c, obs),
    Case::Kb(c) => check_kb(c, obs),
  }
}

// ---------------------------------------------------------------------------------------------
// Decision tables (bounded-exhaustive): every single deviation from an all-true base and every pair
// ---------------------------------------------------------------------------------------------

const SIMPLE_NBF: i64 = 1_600_000_000;
const SIMPLE_EXP: i64 = 1_900_000_000;
const KB_IAT: i64 = 1_700_000_000;

fn ptr(p: &str) -> PathSel {
  PathSel::Ptr(p.to_string())
}

fn base_token() -> TokenSpec {
  TokenSpec {
    universe: 0,
    cred: CredSpec::simple(),
    plan: vec![
      (ptr("/vc/credentialSubject/name"), true),
      (ptr("/vc/credentialSubject/degree"), false),
      (ptr("/vc/credentialSubject/langs/0"), true),
    ],
    salt_seed: 1,
    style: EncStyle::Compact,
    decoys: 1,
    sd_alg: SdAlg::Sha256,
  }
}

fn base_cred() -> CredCase {
  CredCase {
    token: base_token(),
    signer: Signer::Resolved,
    tamper: false,
    kid: Kid::Id(0),
    header_nonce: None,
    fault: DiscFault::None,
    opt_method_id: None,
    opt_scope: Scope::Any,
    opt_nonce: None,
    latest_issuance: Some(SIMPLE_NBF),
    earliest_expiry: Some(SIMPLE_EXP),
    status_check: 0,
    all_errors: false,
    holder_rel: None,
    entry: Entry::Validate(DocSel::A),
  }
}

fn base_kb() -> KbCase {
  KbCase {
    token: base_token(),
    present: true,
    holder_doc: DocSel::H,
    typ: Typ::Constant,
    alg: Alg::EdDSA,
    signer: Signer::Resolved,
    sig_fault: SigFault::None,
    kid: Kid::Id(0),
    opt_method_id: None,
    opt_scope: Scope::Any,
    sd_hash: SdHash::Correct,
    nonce_claim: Some(0),
    nonce_opt: Some(0),
    aud_claim: Some(0),
    aud_opt: Some(0),
    iat: Some(KB_IAT),
    earliest: Some(KB_IAT),
    latest: Some(KB_IAT),
    extra_claim: false,
  }
}

type Alt<C> = (&'static str, Box<dyn Fn(&mut C)>);

fn ca(coord: &'static str, f: impl Fn(&mut CredCase) + 'static) -> Alt<CredCase> {
  (coord, Box::new(f))
}

fn ka(coord: &'static str, f: impl Fn(&mut KbCase) + 'static) -> Alt<KbCase> {
  (coord, Box::new(f))
}

const SCOPES: [Scope; 4] = [Scope::VerificationMethod, Scope::Authentication, Scope::AssertionMethod, Scope::KeyAgreement];

fn cred_alternatives() -> Vec<Alt<CredCase>> {
  let mut a: Vec<Alt<CredCase>> = Vec::new();
  for k in 0..N_KEYS as u8 {
    a.push(ca("signer", move |c| c.signer = Signer::Key(k)));
  }
  a.push(ca("tamper", |c| c.tamper = true));
  for n in 1..6 {
    a.push(ca("kid", move |c| c.kid = Kid::Id(n)));
  }
  a.push(ca("kid", |c| c.kid = Kid::Fragment(0)));
  a.push(ca("kid", |c| c.kid = Kid::Absent));
  for n in 0..JUNK_KIDS.len() as u8 {
    a.push(ca("kid", move |c| c.kid = Kid::Junk(n)));
  }
  for (h, o) in [(None, Some(0)), (Some(0), None), (Some(0), Some(0)), (Some(0), Some(1)), (Some(2), None), (None, Some(2))] {
    a.push(ca("nonce", move |c| {
      c.header_nonce = h;
      c.opt_nonce = o;
    }));
  }
  for f in [
    DiscFault::Reverse,
    DiscFault::Rotate,
    DiscFault::Duplicate(0),
    DiscFault::ForgeValue(0),
    DiscFault::ForgeValue(u16::MAX),
    DiscFault::ForgeSalt(0),
    DiscFault::ForgeName(0),
    DiscFault::ForgeName(u16::MAX),
    DiscFault::Padded(0),
    DiscFault::Padded(u16::MAX),
    DiscFault::Unknown,
  ] {
    a.push(ca("disclosures", move |c| c.fault = f));
  }
  for g in 0..GARBAGE_LEN as u8 {
    a.push(ca("disclosures", move |c| c.fault = DiscFault::Garbage(g)));
  }
  for n in 0..6 {
    a.push(ca("method-id", move |c| c.opt_method_id = Some(n)));
  }
  for s in SCOPES {
    a.push(ca("scope", move |c| c.opt_scope = s));
  }
  for d in [-1, 1] {
    a.push(ca("latest-issuance", move |c| c.latest_issuance = Some(SIMPLE_NBF + d)));
    a.push(ca("earliest-expiry", move |c| c.earliest_expiry = Some(SIMPLE_EXP + d)));
  }
  for t in [PAST, FUTURE] {
    a.push(ca("latest-issuance", move |c| {
      c.latest_issuance = None;
      c.token.cred.nbf = t;
    }));
    a.push(ca("earliest-expiry", move |c| {
      c.earliest_expiry = None;
      c.token.cred.exp = Some(t);
    }));
  }
  a.push(ca("earliest-expiry", |c| c.token.cred.exp = None));
  let statuses = [
    StatusSpec::Unsupported,
    StatusSpec::Bitmap { index: 6, service: ServiceRef::Rev, form: IndexForm::Ok },
    StatusSpec::Bitmap { index: 5, service: ServiceRef::Rev, form: IndexForm::Ok },
    StatusSpec::Bitmap { index: 42, service: ServiceRef::Rev, form: IndexForm::NoQuery },
    StatusSpec::Bitmap { index: 6, service: ServiceRef::Rev, form: IndexForm::NoQuery },
    StatusSpec::Bitmap { index: 6, service: ServiceRef::Rev, form: IndexForm::NonNumeric },
    StatusSpec::Bitmap { index: 6, service: ServiceRef::Rev, form: IndexForm::QueryMismatch },
    StatusSpec::Bitmap { index: 6, service: ServiceRef::Rev, form: IndexForm::NotAString },
    StatusSpec::Bitmap { index: 6, service: ServiceRef::Dom, form: IndexForm::Ok },
    StatusSpec::Bitmap { index: 6, service: ServiceRef::Missing, form: IndexForm::Ok },
    StatusSpec::Bitmap { index: 6, service: ServiceRef::OtherDoc, form: IndexForm::Ok },
  ];
  for s in statuses {
    a.push(ca("status", move |c| c.token.cred.status = s));
  }
  for k in [1, 2] {
    a.push(ca("status-check", move |c| c.status_check = k));
  }
  for f in [IssuerForm::DidB, IssuerForm::ObjectA, IssuerForm::Https] {
    a.push(ca("issuer", move |c| c.token.cred.issuer = f));
  }
  for s in [Structure::ContextMisplaced, Structure::ContextMissing, Structure::BaseTypeMissing] {
    a.push(ca("structure", move |c| c.token.cred.structure = s));
  }
  a.push(ca("structure", |c| {
    c.token.cred.subject_id = SubjectId::Absent;
    c.token.cred.props.clear();
    c.token.plan.clear();
  }));
  for holder_is_h in [true, false] {
    for rel in 0..3 {
      a.push(ca("holder-relationship", move |c| c.holder_rel = Some((holder_is_h, rel))));
    }
  }
  for s in [SubjectId::Absent, SubjectId::Other] {
    a.push(ca("subject-id", move |c| c.token.cred.subject_id = s));
  }
  for nt in [true, false] {
    a.push(ca("non-transferable", move |c| c.token.cred.non_transferable = Some(nt)));
  }
  for list in [vec![DocSel::A], vec![DocSel::A, DocSel::B], vec![DocSel::B, DocSel::A], vec![DocSel::B], vec![]] {
    a.push(ca("entry", move |c| c.entry = Entry::VerifySignature(list.clone())));
  }
  a.push(ca("entry", |c| c.entry = Entry::Validate(DocSel::B)));
  for p in [
    "/iss",
    "/nbf",
    "/exp",
    "/sub",
    "/jti",
    "/vc",
    "/vc/@context",
    "/vc/@context/0",
    "/vc/type",
    "/vc/type/0",
    "/vc/type/1",
    "/vc/credentialSubject",
    "/vc/credentialSubject/degree/name",
    "/vc/credentialStatus",
    "/vc/credentialStatus/revocationBitmapIndex",
    "/vc/nonTransferable",
    "/iss/id",
    "/cust",
  ] {
    for disclosed in [true, false] {
      a.push(ca("conceal", move |c| c.token.plan.push((ptr(p), disclosed))));
    }
  }
  a.push(ca("custom-claim", |c| c.token.cred.custom = true));
  for s in [SdAlg::Absent, SdAlg::Unsupported, SdAlg::NotAString] {
    a.push(ca("sd-alg", move |c| c.token.sd_alg = s));
  }
  for s in [EncStyle::Spaced, EncStyle::Library] {
    a.push(ca("style", move |c| c.token.style = s));
  }
  a.push(ca("universe", |c| c.token.universe = 1));
  a.push(ca("fail-fast", |c| c.all_errors = true));
  a
}

fn kb_alternatives() -> Vec<Alt<KbCase>> {
  let mut a: Vec<Alt<KbCase>> = Vec::new();
  a.push(ka("present", |c| c.present = false));
  a.push(ka("holder-doc", |c| c.holder_doc = DocSel::X));
  a.push(ka("typ", |c| c.typ = Typ::Literal));
  a.push(ka("typ", |c| c.typ = Typ::Jwt));
  a.push(ka("typ", |c| c.typ = Typ::Absent));
  for n in 0..OTHER_TYPS.len() as u8 {
    a.push(ka("typ", move |c| c.typ = Typ::Other(n)));
  }
  for g in [Alg::ES256, Alg::Absent, Alg::NoneAlg] {
    a.push(ka("alg", move |c| c.alg = g));
  }
  for k in [0u8, 6, 7, 8, 9, 10, 11] {
    a.push(ka("signer", move |c| c.signer = Signer::Key(k)));
  }
  for f in [
    SigFault::FlipBit(0),
    SigFault::FlipBit(30_000),
    SigFault::FlipBit(u16::MAX),
    SigFault::Truncate,
    SigFault::Empty,
    SigFault::TamperPayload,
  ] {
    a.push(ka("sig-fault", move |c| c.sig_fault = f));
  }
  for n in 1..6 {
    a.push(ka("kid", move |c| c.kid = Kid::Id(n)));
  }
  a.push(ka("kid", |c| c.kid = Kid::Fragment(0)));
  a.push(ka("kid", |c| c.kid = Kid::Absent));
  for n in 0..JUNK_KIDS.len() as u8 {
    a.push(ka("kid", move |c| c.kid = Kid::Junk(n)));
  }
  for n in 0..6 {
    a.push(ka("method-id", move |c| c.opt_method_id = Some(n)));
  }
  for s in SCOPES {
    a.push(ka("scope", move |c| c.opt_scope = s));
  }
  for h in [
    SdHash::JoinLayout,
    SdHash::DropLast,
    SdHash::Reversed,
    SdHash::OtherJwt,
    SdHash::NoTrailingTilde,
    SdHash::Garbage,
    SdHash::Absent,
    SdHash::DigestTruncated,
    SdHash::DigestEmpty,
    SdHash::DigestExtended,
  ] {
    a.push(ka("sd-hash", move |c| c.sd_hash = h));
  }
  for (cl, op) in [(Some(0), Some(1)), (Some(0), None), (None, Some(0)), (None, None), (Some(2), Some(2)), (Some(2), Some(0))] {
    a.push(ka("nonce", move |c| {
      c.nonce_claim = cl;
      c.nonce_opt = op;
    }));
    a.push(ka("aud", move |c| {
      c.aud_claim = cl;
      c.aud_opt = op;
    }));
  }
  for d in [-1, 1] {
    a.push(ka("iat", move |c| c.iat = Some(KB_IAT + d)));
  }
  for (iat, earliest, latest) in [
    (Some(KB_IAT - 1), Some(KB_IAT), Some(KB_IAT + 10)),
    (Some(KB_IAT), Some(KB_IAT), Some(KB_IAT + 10)),
    (Some(KB_IAT + 10), Some(KB_IAT), Some(KB_IAT + 10)),
    (Some(KB_IAT + 11), Some(KB_IAT), Some(KB_IAT + 10)),
    (Some(KB_IAT), None, Some(KB_IAT)),
    (Some(KB_IAT + 1), None, Some(KB_IAT)),
    (Some(PAST), Some(PAST), None),
    (Some(PAST - 1), Some(PAST), None),
    (Some(PAST), None, None),
    (Some(FUTURE), None, None),
    (Some(FUTURE), Some(FUTURE), None),
    (Some(KB_IAT), None, None),
    (None, Some(KB_IAT), Some(KB_IAT)),
    (None, None, None),
    (Some(crate::model::civil::MAX_UNIX + 1), Some(KB_IAT), None),
    (Some(crate::model::civil::MIN_UNIX - 1), None, Some(KB_IAT)),
    (Some(i64::MAX), None, None),
    (Some(i64::MIN), None, Some(KB_IAT)),
  ] {
    a.push(ka("window", move |c| {
      c.iat = iat;
      c.earliest = earliest;
      c.latest = latest;
    }));
  }
  a.push(ka("token", |c| c.token.plan.clear()));
  a.push(ka("token", |c| c.token.plan.iter_mut().for_each(|p| p.1 = false)));
  a.push(ka("token", |c| c.token.plan.iter_mut().for_each(|p| p.1 = true)));
  for s in [SdAlg::Absent, SdAlg::Unsupported, SdAlg::NotAString] {
    a.push(ka("sd-alg", move |c| c.token.sd_alg = s));
  }
  a.push(ka("extra-claim", |c| c.extra_claim = true));
  a.push(ka("universe", |c| c.token.universe = 1));
  a
}

/// Base, every single alternative, every pair of alternatives of different coordinates.
fn table<C: Clone>(base: C, alts: Vec<Alt<C>>, wrap: fn(C) -> Case) -> impl Iterator<Item = Case> {
  let mut out = vec![wrap(base.clone())];
  for (i, (ci, fi)) in alts.iter().enumerate() {
    let mut one = base.clone();
    fi(&mut one);
    out.push(wrap(one.clone()));
    for (cj, fj) in alts.iter().skip(i + 1) {
      if ci != cj {
        let mut two = one.clone();
        fj(&mut two);
        out.push(wrap(two));
      }
    }
  }
  out.into_iter()
}

fn cred_table() -> impl Iterator<Item = Case> {
  table(base_cred(), cred_alternatives(), Case::Cred)
}

fn kb_table() -> impl Iterator<Item = Case> {
  table(base_kb(), kb_alternatives(), Case::Kb)
}

const SUBSET_PATHS: [&str; 7] = [
  "/exp",
  "/vc/credentialSubject/name",
  "/vc/credentialSubject/degree",
  "/vc/credentialSubject/degree/name",
  "/vc/credentialSubject/langs/0",
  "/vc/credentialSubject/langs/1",
  "/vc/type/1",
];

/// Every assignment {visible, concealed and disclosed, concealed and withheld} to seven claims of the simple
/// credential (a nested pair, two array elements, a registered claim), for each encoder.
fn subsets() -> impl Iterator<Item = Case> {
  [EncStyle::Compact, EncStyle::Spaced, EncStyle::Library].into_iter().flat_map(|style| {
    (0..3u32.pow(SUBSET_PATHS.len() as u32)).map(move |mut code| {
      let mut case = base_cred();
      case.token.style = style;
      case.token.plan.clear();
      for p in SUBSET_PATHS {
        match code % 3 {
          1 => case.token.plan.push((ptr(p), true)),
          2 => case.token.plan.push((ptr(p), false)),
          _ => {}
        }
        code /= 3;
      }
      Case::Cred(case)
    })
  })
}

// ---------------------------------------------------------------------------------------------
// Random condition vectors
// ---------------------------------------------------------------------------------------------

fn val_strategy() -> impl Strategy<Value = Val> {
  let leaf = prop_oneof![
    4 => (0u8..8).prop_map(Val::S),
    2 => (-3i32..100).prop_map(Val::I),
    1 => any::<bool>().prop_map(Val::B),
    1 => Just(Val::Null),
  ];
  leaf.prop_recursive(3, 12, 4, |inner| {
    prop_oneof![
      prop::collection::vec((0u8..8, inner.clone()), 0..4).prop_map(Val::Obj),
      prop::collection::vec(inner, 0..4).prop_map(Val::Arr),
    ]
  })
}

fn status_strategy() -> impl Strategy<Value = StatusSpec> {
  let service = prop_oneof![
    8 => Just(ServiceRef::Rev),
    1 => Just(ServiceRef::Dom),
    1 => Just(ServiceRef::Missing),
    1 => Just(ServiceRef::OtherDoc),
  ];
  let form = prop_oneof![
    8 => Just(IndexForm::Ok),
    2 => Just(IndexForm::NoQuery),
    1 => Just(IndexForm::NonNumeric),
    1 => Just(IndexForm::QueryMismatch),
    1 => Just(IndexForm::NotAString),
  ];
  let index = prop_oneof![6 => Just(6u32), 1 => Just(5u32), 1 => Just(42u32), 2 => 0u32..100];
  prop_oneof![
    6 => Just(StatusSpec::Absent),
    1 => Just(StatusSpec::Unsupported),
    4 => (index, service, form).prop_map(|(index, service, form)| StatusSpec::Bitmap { index, service, form }),
  ]
}

/// Credential without its dates (filled in by the caller).
fn cred_strategy() -> impl Strategy<Value = CredSpec> {
  (
    prop_oneof![10 => Just(IssuerForm::DidA), 3 => Just(IssuerForm::ObjectA), 1 => Just(IssuerForm::DidB), 1 => Just(IssuerForm::Https)],
    prop_oneof![6 => Just(SubjectId::Holder), 2 => Just(SubjectId::Absent), 1 => Just(SubjectId::Other)],
    prop::collection::vec((0u8..8, val_strategy()), 0..5),
    0u8..3,
    any::<bool>(),
    any::<bool>(),
    prop_oneof![3 => Just(None), 1 => any::<bool>().prop_map(Some)],
    status_strategy(),
    prop::bool::weighted(0.3),
    prop_oneof![
      20 => Just(Structure::Ok),
      1 => Just(Structure::ContextMisplaced),
      1 => Just(Structure::ContextMissing),
      1 => Just(Structure::BaseTypeMissing),
    ],
  )
    .prop_map(
      |(issuer, subject_id, props, extra_types, extra_context, has_id, non_transferable, status, custom, structure)| CredSpec {
        issuer,
        subject_id,
        props,
        extra_types,
        extra_context,
        has_id,
        nbf: SIMPLE_NBF,
        exp: None,
        non_transferable,
        status,
        custom,
        structure,
      },
    )
}

fn plan_strategy() -> impl Strategy<Value = Vec<(PathSel, bool)>> {
  let sel = prop_oneof![
    6 => any::<u16>().prop_map(PathSel::Sel),
    // claims below the subject are the usual targets
    3 => (0usize..8).prop_map(|n| PathSel::Ptr(format!("/vc/credentialSubject/{}", NAMES[n]))),
    1 => prop::sample::select(vec!["/exp", "/sub", "/jti", "/vc/credentialStatus", "/vc/nonTransferable", "/vc/type/1", "/cust"])
      .prop_map(|p| PathSel::Ptr(p.to_string())),
  ];
  prop::collection::vec((sel, prop::bool::weighted(0.6)), 0..7)
}

fn token_strategy() -> impl Strategy<Value = TokenSpec> {
  (
    0u8..N_UNIVERSES,
    cred_strategy(),
    plan_strategy(),
    any::<u32>(),
    prop_oneof![Just(EncStyle::Compact), Just(EncStyle::Spaced), Just(EncStyle::Library)],
    0u8..4,
    prop_oneof![12 => Just(SdAlg::Sha256), 10 => Just(SdAlg::Absent), 1 => Just(SdAlg::Unsupported), 1 => Just(SdAlg::NotAString)],
  )
    .prop_map(|(universe, cred, plan, salt_seed, style, decoys, sd_alg)| TokenSpec {
      universe,
      cred,
      plan,
      salt_seed,
      style,
      decoys,
      sd_alg,
    })
}

fn kid_strategy() -> impl Strategy<Value = Kid> {
  prop_oneof![
    14 => Just(Kid::Id(0)),
    4 => (0u8..6).prop_map(Kid::Id),
    1 => (0u8..6).prop_map(Kid::Fragment),
    1 => Just(Kid::Absent),
    1 => (0u8..4).prop_map(Kid::Junk),
  ]
}

fn scope_strategy() -> impl Strategy<Value = Scope> {
  prop_oneof![12 => Just(Scope::Any), 4 => prop::sample::select(SCOPES.to_vec())]
}

fn fault_strategy() -> impl Strategy<Value = DiscFault> {
  prop_oneof![
    16 => Just(DiscFault::None),
    2 => Just(DiscFault::Reverse),
    1 => Just(DiscFault::Rotate),
    1 => any::<u16>().prop_map(DiscFault::Duplicate),
    1 => any::<u16>().prop_map(DiscFault::ForgeValue),
    1 => any::<u16>().prop_map(DiscFault::ForgeSalt),
    1 => any::<u16>().prop_map(DiscFault::ForgeName),
    1 => Just(DiscFault::Unknown),
    1 => any::<u16>().prop_map(DiscFault::Padded),
    1 => (0u8..GARBAGE_LEN as u8).prop_map(DiscFault::Garbage),
  ]
}

/// (nbf, exp, latest issuance bound, earliest expiry bound)
fn dates_strategy() -> impl Strategy<Value = (i64, Option<i64>, Option<i64>, Option<i64>)> {
  let explicit = (
    1_000_000i64..4_000_000_000,
    prop_oneof![6 => Just(0i64), 3 => Just(-1i64), 1 => Just(1i64), 1 => -100_000i64..=100_000],
    1_000_000i64..4_000_000_000,
    prop_oneof![2 => Just(None), 4 => Just(Some(0i64)), 2 => Just(Some(1i64)), 1 => Just(Some(-1i64)), 1 => (-100_000i64..=100_000).prop_map(Some)],
  )
    .prop_map(|(latest, dn, earliest, de)| (latest + dn, de.map(|d| earliest + d), Some(latest), Some(earliest)));
  let defaults = (
    prop_oneof![4 => Just(PAST), 1 => Just(FUTURE), 1 => Just(SIMPLE_NBF)],
    prop_oneof![2 => Just(None), 4 => Just(Some(FUTURE)), 1 => Just(Some(PAST)), 1 => Just(Some(SIMPLE_EXP))],
    any::<bool>(),
  )
    .prop_map(|(nbf, exp, one_explicit)| {
      if one_explicit {
        (nbf, exp, None, Some(PAST))
      } else {
        (nbf, exp, None, None)
      }
    });
  prop_oneof![8 => explicit, 2 => defaults]
}

fn entry_strategy() -> impl Strategy<Value = Entry> {
  prop_oneof![
    12 => Just(Entry::Validate(DocSel::A)),
    1 => Just(Entry::Validate(DocSel::B)),
    4 => prop::sample::select(vec![
      vec![DocSel::A],
      vec![DocSel::A, DocSel::B],
      vec![DocSel::B, DocSel::A],
      vec![DocSel::B],
      vec![],
    ])
    .prop_map(Entry::VerifySignature),
  ]
}

fn cred_case_strategy() -> impl Strategy<Value = Case> {
  let signing = (
    prop_oneof![14 => Just(Signer::Resolved), 2 => (0u8..N_KEYS as u8).prop_map(Signer::Key)],
    prop::bool::weighted(0.04),
    kid_strategy(),
    prop_oneof![12 => Just((None, None)), 3 => Just((Some(0u8), Some(0u8))), 1 => (prop::option::of(0u8..3), prop::option::of(0u8..3))],
    prop_oneof![14 => Just(None), 2 => (0u8..6).prop_map(Some)],
    scope_strategy(),
  );
  let policy = (
    0u8..3,
    any::<bool>(),
    prop_oneof![6 => Just(None), 3 => (prop::bool::weighted(0.8), 0u8..3).prop_map(Some)],
    entry_strategy(),
  );
  (token_strategy(), signing, fault_strategy(), dates_strategy(), policy).prop_map(
    |(mut token, (signer, tamper, kid, (header_nonce, opt_nonce), opt_method_id, opt_scope), fault, dates, policy)| {
      let (nbf, exp, latest_issuance, earliest_expiry) = dates;
      token.cred.nbf = nbf;
      token.cred.exp = exp;
      let (status_check, all_errors, holder_rel, entry) = policy;
      Case::Cred(CredCase {
        token,
        signer,
        tamper,
        kid,
        header_nonce,
        fault,
        opt_method_id,
        opt_scope,
        opt_nonce,
        latest_issuance,
        earliest_expiry,
        status_check,
        all_errors,
        holder_rel,
        entry,
      })
    },
  )
}

fn claim_option_strategy() -> impl Strategy<Value = (Option<u8>, Option<u8>)> {
  prop_oneof![
    10 => (0u8..3).prop_map(|n| (Some(n), Some(n))),
    3 => (0u8..3).prop_map(|n| (Some(n), None)),
    2 => (0u8..3, 0u8..3).prop_map(|(a, b)| (Some(a), Some(b))),
    1 => prop::option::of(0u8..3).prop_map(|o| (None, o)),
  ]
}

/// (iat, earliest, latest)
fn window_strategy() -> impl Strategy<Value = (Option<i64>, Option<i64>, Option<i64>)> {
  let explicit = (
    1_000_000i64..4_000_000_000,
    0i64..1000,
    prop_oneof![
      5 => Just((0i64, false)),  // at the lower edge
      5 => Just((0i64, true)),   // at the upper edge
      2 => Just((-1i64, false)), // one second early
      2 => Just((1i64, true)),   // one second late
      2 => Just((1i64, false)),
      2 => Just((-1i64, true)),
      1 => (-100_000i64..100_000, any::<bool>()),
    ],
    any::<bool>(),
    any::<bool>(),
  )
    .prop_map(|(earliest, width, (d, from_upper), keep_lower, keep_upper)| {
      let latest = earliest + width;
      let iat = if from_upper { latest + d } else { earliest + d };
      // without the upper option the library compares with the wall clock: keep it unless the case is far in the past
      (Some(iat), keep_lower.then_some(earliest), (keep_upper || earliest > PAST_MAX - 200_000).then_some(latest))
    });
  let clock = (
    prop_oneof![3 => Just(PAST), 1 => Just(FUTURE)],
    -5i64..5,
    prop::option::of(Just(PAST)),
  )
    .prop_map(|(base, d, earliest)| (Some(base + d), earliest, None));
  prop_oneof![
    12 => explicit,
    3 => clock,
    1 => (prop::option::of(Just(KB_IAT)), prop::option::of(Just(KB_IAT))).prop_map(|(e, l)| (None, e, l)),
    1 => (any::<i64>(), prop::option::of(Just(KB_IAT)), prop::option::of(Just(KB_IAT))).prop_map(|(i, e, l)| (Some(i), e, l)),
  ]
}

fn kb_case_strategy() -> impl Strategy<Value = Case> {
  let header = (
    prop::bool::weighted(0.97),
    prop_oneof![14 => Just(DocSel::H), 1 => Just(DocSel::X)],
    prop_oneof![
      14 => Just(Typ::Constant),
      1 => Just(Typ::Literal),
      1 => Just(Typ::Jwt),
      1 => Just(Typ::Absent),
      1 => (0u8..OTHER_TYPS.len() as u8).prop_map(Typ::Other),
    ],
    prop_oneof![30 => Just(Alg::EdDSA), 1 => Just(Alg::ES256), 1 => Just(Alg::Absent), 1 => Just(Alg::NoneAlg)],
    prop_oneof![16 => Just(Signer::Resolved), 2 => (0u8..N_KEYS as u8).prop_map(Signer::Key)],
    prop_oneof![
      24 => Just(SigFault::None),
      2 => any::<u16>().prop_map(SigFault::FlipBit),
      1 => Just(SigFault::Truncate),
      1 => Just(SigFault::Empty),
      1 => Just(SigFault::TamperPayload),
    ],
    kid_strategy(),
    prop_oneof![14 => Just(None), 2 => (0u8..6).prop_map(Some)],
    scope_strategy(),
  );
  let claims = (
    prop_oneof![
      9 => Just(SdHash::Correct),
      9 => Just(SdHash::JoinLayout),
      1 => Just(SdHash::DropLast),
      1 => Just(SdHash::Reversed),
      1 => Just(SdHash::OtherJwt),
      1 => Just(SdHash::NoTrailingTilde),
      1 => Just(SdHash::Garbage),
      1 => Just(SdHash::Absent),
      1 => Just(SdHash::DigestTruncated),
      1 => Just(SdHash::DigestEmpty),
      1 => Just(SdHash::DigestExtended),
    ],
    claim_option_strategy(),
    claim_option_strategy(),
    window_strategy(),
    prop::bool::weighted(0.2),
  );
  let token = (token_strategy(), prop::bool::weighted(0.7), prop::bool::weighted(0.8)).prop_map(|(mut t, plain, disclose)| {
    if plain {
      // a credential that certainly serialises; the concealment plan stays generated
      let plan = std::mem::take(&mut t.plan);
      t.cred = CredSpec::simple();
      t.plan = plan;
      if disclose {
        t.plan.push((ptr("/vc/credentialSubject/name"), true));
      }
    }
    t
  });
  (token, header, claims).prop_map(
    |(
      token,
      (present, holder_doc, typ, alg, signer, sig_fault, kid, opt_method_id, opt_scope),
      (sd_hash, (nonce_claim, nonce_opt), (aud_claim, aud_opt), (iat, earliest, latest), extra_claim),
    )| {
      Case::Kb(KbCase {
        token,
        present,
        holder_doc,
        typ,
        alg,
        signer,
        sig_fault,
        kid,
        opt_method_id,
        opt_scope,
        sd_hash,
        nonce_claim,
        nonce_opt,
        aud_claim,
        aud_opt,
        iat,
        earliest,
        latest,
        extra_claim,
      })
    },
  )
}

// ---------------------------------------------------------------------------------------------
// Registration
// ---------------------------------------------------------------------------------------------

pub fn run(ctx: &mut Ctx) {
  ctx.rule = "credential side: condition vectors over {signer key, payload tamper, kid, method_id option, scope option, nonce header/option, \
    issuer form, dates vs explicit bounds at −1/0/+1 s (or option absent with dates decades from the present), structure, status × StatusCheck, \
    subject–holder option, FailFast, entry point (validate_credential | verify_signature with trusted lists)} × SD layer {which claims are \
    concealed, which of those disclosed, encoder (harness compact/spaced, library with supplied salts), decoys, _sd_alg, disclosure faults: \
    reordered, duplicated, forged value/salt/name, never committed, malformed}; exhaustive: all 3^7 visible/disclosed/withheld assignments of 7 \
    claims × 3 encoders, and base + every single + every pair of ~150 alternatives. KB-JWT side: vectors over {present, holder document, typ, alg, \
    signer, signature damage, kid, method_id, scope, sd_hash text, nonce/aud claim×option, iat vs window edges ±1 s, options absent}; exhaustive: \
    base + singles + pairs of ~110 alternatives. Oracle: harness-side document model, SHA-256/base64url, VC-JWT mapping; Ok ⇒ no false \
    condition and returned data = signed claims minus withheld claims. Non-trivial = credential case with ≥1 withheld and ≥1 disclosed claim or \
    exactly one false condition; KB case with exactly one false condition or all true; distinct by case bytes."
    .into();
  ctx.assume(format!(
    "the KB-JWT header type counted as right is the dependency constant KeyBindingJwtClaims::KB_JWT_HEADER_TYP = {:?}; about the literal \"kb+jwt\" nothing is asserted",
    KeyBindingJwtClaims::KB_JWT_HEADER_TYP
  ));
  ctx.assume("where an issuance/expiry/iat bound option is absent the library compares with the wall clock: instants <= 2004-11-09 are taken as past, >= 2191-10-27 as future, anything between is unasserted; all other cases pass explicit bounds");
  ctx.assume("the text sd_hash must cover is `<jwt>~<d1>~…~<dn>~`; with zero disclosures the pinned sd-jwt-payload serialises `<jwt>~~<kb>` and hashes `<jwt>~~` (counted as right: it is the library's presented text), the specification serialises `<jwt>~<kb>` and hashes `<jwt>~` (unasserted; measured in classes kb*:zero-disclosures-{join,spec}-hash-{accepted,rejected})");
  ctx.assume("a duplicated disclosure, an unsupported or non-string _sd_alg, a fragment-only kid in a KB-JWT, and a claim (nonce/aud/iat) absent together with its option are unasserted (accept or reject)");
  ctx.assume("issuer side: a kid that is not an absolute DID URL (fragment only, absent, junk) without a method_id option counts as false, following the rustdoc of verify_signature");
  ctx.assume("a credential subject all of whose claims are withheld and without `sub` is unasserted for the structure check (the pinned sd-jwt-payload decoder leaves the `_sd` member in such objects); residual `_sd` members and `{\"...\":digest}` elements are ignored when comparing the returned credential; generated arrays contain no `{}` element (the pinned decoder drops it)");
  ctx.assume("a withheld claim is absent from the reconstructed credential: a withheld `exp`, `credentialStatus` or `nonTransferable` therefore counts as not present for the date/status/holder checks");

  ctx.exhaustive("subsets", subsets, check);
  ctx.exhaustive("cred-table", cred_table, check);
  ctx.exhaustive("kb-table", kb_table, check);
  ctx.proptest("cred", ctx.pick(40_000, 2_000_000), cred_case_strategy, check);
  ctx.proptest("kb", ctx.pick(40_000, 2_000_000), kb_case_strategy, check);

  ctx.require_class("subsets:accepted", 1000);
  ctx.require_class("subsets:accepted-with-withheld-claims", 1000);
  ctx.require_class("cred-table:accepted", 100);
  ctx.require_class("cred-table:rejected", 1000);
  ctx.require_class("kb-table:accepted", 50);
  ctx.require_class("kb-table:one-false-rejected", 30);
  ctx.require_class("cred:accepted", 500);
  ctx.require_class("cred:accepted-with-withheld-claims", 100);
  ctx.require_class("cred:one-false", 1000);
  ctx.require_class("cred:sd-nested", 100);
  ctx.require_class("cred:entry-verify-signature", 1000);
  ctx.require_class("kb:accepted", 500);
  ctx.require_class("kb:one-false", 1000);
  ctx.max_discard_pct(5);
}

pub fn replay(v: &serde_json::Value, obs: &mut Obs) -> Result<CheckResult, String> {
  replay_with::<Case>(v, obs, check)
}

#[cfg(test)]
mod tests {
  use super::*;

  /// The all-true bases of the decision tables must really be accepted (otherwise the tables are vacuous).
  #[test]
  fn bases_are_accepted() {
    let tol = Tolerated::default();
    for case in [Case::Cred(base_cred()), Case::Kb(base_kb())] {
      let mut obs = Obs::new(&tol);
      assert!(check(&case, &mut obs).is_ok());
      assert!(obs.labels.iter().any(|l| l == "accepted"), "{:?}", obs.labels);
      assert!(obs.labels.iter().any(|l| l == "all-true"), "{:?}", obs.labels);
    }
  }
}
