//! C03 — JWT presentation validation binds the token to the holder document.
//!
//! As in C02 a case is a vector of independent choices; the harness renders holder document and token, decides
//! from the vector alone whether every condition of the statement holds, and compares with
//! `JwtPresentationValidator::validate`.

use crate::engine::*;
use crate::fixture;
use crate::gen::vc_fixtures::*;
use crate::model::civil::MAX_UNIX;
use crate::model::civil::MIN_UNIX;
use crate::vensure;
use identity_core::common::Object;
use identity_core::common::Timestamp;
use identity_core::common::Url;
use identity_core::convert::FromJson;
use identity_credential::credential::Jwt;
use identity_credential::presentation::JwtPresentationOptions;
use identity_credential::presentation::Presentation;
use identity_credential::validator::DecodedJwtPresentation;
use identity_credential::validator::JwtPresentationValidationOptions;
use identity_credential::validator::JwtPresentationValidator;
use identity_credential::validator::JwtValidationError;
use identity_did::DIDUrl;
use identity_document::document::CoreDocument;
use identity_document::verifiable::JwsVerificationOptions;
use identity_eddsa_verifier::EdDSAJwsVerifier;
use proptest::prelude::*;
use serde::Deserialize;
use serde::Serialize;
use serde_json::json;
use serde_json::Map;
use serde_json::Value;

// ---------------------------------------------------------------------------------------------
// Case
// ---------------------------------------------------------------------------------------------

#[derive(Debug, Clone, PartialEq, Eq, Serialize, Deserialize)]
pub enum KidSel {
  /// Full id of the target method.
  Target,
  /// Full id of some other method of the universe.
  Method(M),
  /// `#<fragment of target>`.
  FragmentOnly,
  /// `<fragment of target>` without `#`.
  BareFragment,
  /// `<DID of target id>#zz`.
  UnknownFragment,
  /// `#zz`.
  UnknownFragmentOnly,
  /// `did:vcheck:charlie#<fragment of target>` — right fragment, DID of no document.
  UnknownDid,
  /// `<DID of the other document>#<fragment of target>` — right fragment under the other document's DID.
  OtherDidSameFragment,
  /// `#`.
  EmptyFragment,
  /// `<DID of target id>` without fragment.
  DidWithoutFragment,
  /// No `kid`.
  Absent,
}

#[derive(Debug, Clone, Copy, PartialEq, Eq, Serialize, Deserialize)]
pub enum IssSel {
  /// Id of the supplied holder document.
  HolderDoc,
  /// Id of the other document.
  OtherDoc,
  /// `did:vcheck:charlie`.
  UnknownDid,
  /// `<holder document id>#g` — a DID URL, not a DID.
  HolderDocUrlWithFragment,
  /// `https://example.edu/holders/7`.
  Https,
  /// `"not a url"` (claims-level edit).
  NotAUrl,
  /// A JSON number (claims-level edit).
  Number,
}

/// A numeric date claim.
#[derive(Debug, Clone, Copy, PartialEq, Eq, Serialize, Deserialize)]
pub enum DateClaim {
  Absent,
  /// Seconds inside years 0000–9999.
  At(i64),
  /// Seconds outside years 0000–9999.
  OutOfRange(i64),
  /// Not a JSON integer: 0 = "x", 1 = a numeric string, 2 = a fraction (x.5), 3 = an integer beyond 64 bits, 4 = true,
  /// 5 = an array.
  Malformed(u8),
}

impl DateClaim {
  fn value(self) -> Option<i64> {
    match self {
      DateClaim::Absent | DateClaim::Malformed(_) => None,
      DateClaim::At(v) | DateClaim::OutOfRange(v) => Some(v),
    }
  }
  /// The claim as it is written into the claims set.
  fn json(self) -> Option<Value> {
    match self {
      DateClaim::Absent => None,
      DateClaim::At(v) | DateClaim::OutOfRange(v) => Some(json!(v)),
      DateClaim::Malformed(k) => Some(match k % 6 {
        0 => json!("x"),
        1 => json!("1700000000"),
        2 => json!(1_700_000_000.5f64),
        3 => serde_json::from_str("1000000000000000000000000000000").expect("big number"),
        4 => json!(true),
        _ => json!([1_700_000_000]),
      }),
    }
  }
  fn malformed(self) -> bool {
    matches!(self, DateClaim::Malformed(_))
  }
}

/// A member duplicated inside `vp`.
#[derive(Debug, Clone, Copy, PartialEq, Eq, Serialize, Deserialize)]
pub enum Dup {
  Absent,
  Equal,
  Different,
}

#[derive(Debug, Clone, Serialize, Deserialize)]
pub struct Case {
  pub family: u8,
  /// The method the token is meant for; the document hosting it is "the holder document" unless `supply_other`.
  pub target: M,
  /// Pass the other document of the universe as holder document.
  pub supply_other: bool,
  pub kid: KidSel,
  pub method_id: MethodIdSel,
  pub scope: ScopeSel,
  pub signer: SignerSel,
  pub tamper: Tamper,
  pub header_nonce: Option<String>,
  pub option_nonce: Option<String>,
  pub iss: IssSel,
  pub earliest_expiry: i64,
  pub exp: DateClaim,
  pub latest_issuance: i64,
  pub nbf: DateClaim,
  pub iat: DateClaim,
  pub jti: bool,
  pub vp_id: Dup,
  pub vp_holder: Dup,
  pub aud: Option<String>,
  pub credentials: u8,
  pub typ: Option<String>,
  pub custom: Map<String, Value>,
  /// Bit 0: no earliest-expiry bound in the options, bit 1: no latest-issuance bound (the library then uses the
  /// current time, which the oracle only knows to lie between 2020 and 2080).
  #[serde(default)]
  pub unset_bounds: u8,
}

const YEAR_2000: i64 = 946_684_800;
const YEAR_2020: i64 = 1_577_836_800;
const YEAR_2080: i64 = 3_471_292_800;
const YEAR_2090: i64 = 3_786_912_000;

const PRESENTATION_ID: &str = "https://example.edu/presentations/3732";
const OTHER_ID: &str = "https://example.edu/presentations/1111";
const HTTPS_HOLDER: &str = "https://example.edu/holders/7";

fn other(w: Which) -> Which {
  match w {
    Which::A => Which::B,
    Which::B => Which::A,
  }
}

#[derive(Debug, Clone, Copy, PartialEq, Eq)]
enum Tri {
  True,
  False,
  /// Not stated by C03 (rejection of such claims sets is C07's business): either outcome is fine here.
  Open,
}

struct Cond {
  name: &'static str,
  state: Tri,
  accepted_sig: String,
}

impl Case {
  fn holder_doc(&self) -> Which {
    if self.supply_other {
      other(self.target.host())
    } else {
      self.target.host()
    }
  }
  fn kid_text(&self) -> Option<String> {
    let t = self.target;
    match &self.kid {
      KidSel::Target => Some(t.id()),
      KidSel::Method(m) => Some(m.id()),
      KidSel::FragmentOnly => Some(format!("#{}", t.fragment())),
      KidSel::BareFragment => Some(t.fragment().to_string()),
      KidSel::UnknownFragment => Some(format!("{}#zz", t.id_did())),
      KidSel::UnknownFragmentOnly => Some("#zz".to_string()),
      KidSel::UnknownDid => Some(format!("{DID_C}#{}", t.fragment())),
      KidSel::OtherDidSameFragment => Some(format!(
        "{}#{}",
        if t.id_did() == DID_A { DID_B } else { DID_A },
        t.fragment()
      )),
      KidSel::EmptyFragment => Some("#".to_string()),
      KidSel::DidWithoutFragment => Some(t.id_did().to_string()),
      KidSel::Absent => None,
    }
  }
  /// The `iss` value when it is a URL (and therefore also the `holder` of the presentation that is signed).
  fn iss_url(&self) -> Option<String> {
    let doc = self.holder_doc();
    match self.iss {
      IssSel::HolderDoc => Some(doc.did().to_string()),
      IssSel::OtherDoc => Some(other(doc).did().to_string()),
      IssSel::UnknownDid => Some(DID_C.to_string()),
      IssSel::HolderDocUrlWithFragment => Some(format!("{}#g", doc.did())),
      IssSel::Https => Some(HTTPS_HOLDER.to_string()),
      IssSel::NotAUrl | IssSel::Number => None,
    }
  }
  /// (lowest, highest) value the effective earliest-expiry bound can have.
  fn expiry_bound(&self) -> (i64, i64) {
    if self.unset_bounds & 1 != 0 {
      (YEAR_2020, YEAR_2080)
    } else {
      (self.earliest_expiry, self.earliest_expiry)
    }
  }
  /// (lowest, highest) value the effective latest-issuance bound can have.
  fn issuance_bound(&self) -> (i64, i64) {
    if self.unset_bounds & 2 != 0 {
      (YEAR_2020, YEAR_2080)
    } else {
      (self.latest_issuance, self.latest_issuance)
    }
  }
  /// Issuance time of the token: `nbf`, else `iat` (VC data model: issuanceDate is carried in nbf).
  fn issuance(&self) -> DateClaim {
    match self.nbf {
      DateClaim::Absent => self.iat,
      d => d,
    }
  }

  fn conditions(&self, universe: &Universe) -> Vec<Cond> {
    let doc = universe.doc(self.holder_doc());
    let scope = self.scope.resolve(universe, self.target);
    let mut out = Vec::new();
    out.push(Cond {
      name: "nonce",
      state: if self.header_nonce == self.option_nonce {
        Tri::True
      } else {
        Tri::False
      },
      accepted_sig: match (&self.header_nonce, &self.option_nonce) {
        (None, Some(_)) => "accepted-without-required-nonce".into(),
        (Some(_), None) => "accepted-with-unexpected-nonce".into(),
        _ => "accepted-with-wrong-nonce".into(),
      },
    });
    // the configured method id takes the place of the kid
    let selector = self.method_id.text(self.target).or_else(|| self.kid_text());
    let candidates: Vec<&MethodSpec> = selector.as_deref().map(|s| doc.select(s, scope)).unwrap_or_default();
    let unscoped: Vec<&MethodSpec> = selector.as_deref().map(|s| doc.select(s, None)).unwrap_or_default();
    out.push(Cond {
      name: "method",
      // a fragment shared by an own and a foreign method names both: which one verifies is not stated, only that
      // the signer must be one of them (condition `signature`)
      state: match candidates.len() {
        0 => Tri::False,
        1 => Tri::True,
        _ => Tri::Open,
      },
      accepted_sig: if selector.is_none() {
        "accepted-without-kid-or-method-id".into()
      } else if !unscoped.is_empty() {
        "accepted-with-method-outside-scope".into()
      } else {
        "accepted-with-kid-naming-no-method-of-holder-document".into()
      },
    });
    let signer = self.signer.key(universe, self.target);
    let key_matches = candidates.iter().any(|m| m.key.public == signer.public);
    out.push(Cond {
      name: "signature",
      state: if candidates.is_empty() || (key_matches && self.tamper == Tamper::None) {
        Tri::True
      } else {
        Tri::False
      },
      accepted_sig: match self.tamper {
        Tamper::Payload => "accepted-with-tampered-payload".into(),
        Tamper::Signature(_) => "accepted-with-tampered-signature".into(),
        Tamper::None => "accepted-with-wrong-signer-key".into(),
      },
    });
    out.push(Cond {
      name: "iss",
      state: if self.iss == IssSel::HolderDoc {
        Tri::True
      } else {
        Tri::False
      },
      accepted_sig: match self.iss {
        IssSel::OtherDoc | IssSel::UnknownDid => "accepted-with-iss-other-than-holder-document".into(),
        IssSel::HolderDocUrlWithFragment => "accepted-with-iss-did-url".into(),
        _ => "accepted-with-iss-not-a-did".into(),
      },
    });
    out.push(Cond {
      name: "expiry",
      state: match self.exp {
        DateClaim::Absent => Tri::True,
        DateClaim::At(e) if e >= self.expiry_bound().1 => Tri::True,
        DateClaim::At(e) if e < self.expiry_bound().0 => Tri::False,
        DateClaim::At(_) | DateClaim::OutOfRange(_) | DateClaim::Malformed(_) => Tri::Open,
      },
      accepted_sig: if self.unset_bounds & 1 != 0 {
        "accepted-expired-default-bound".into()
      } else if self.exp.value().and_then(|e| e.checked_sub(self.earliest_expiry)) == Some(-1) {
        "accepted-expired-at-bound-minus-1".into()
      } else {
        "accepted-expired-before-bound".into()
      },
    });
    out.push(Cond {
      name: "issuance",
      state: match self.issuance() {
        DateClaim::Absent => Tri::True,
        // a readable nbf is the issuance time whatever sits in iat; a readable iat next to an unreadable nbf, or an
        // unreadable iat on its own, leaves the issuance time unknown
        DateClaim::At(i) if i > self.issuance_bound().1 => Tri::False,
        _ if self.nbf.malformed() || self.iat.malformed() => Tri::Open,
        DateClaim::At(i) if i <= self.issuance_bound().0 => Tri::True,
        DateClaim::At(_) | DateClaim::OutOfRange(_) | DateClaim::Malformed(_) => Tri::Open,
      },
      accepted_sig: if self.unset_bounds & 2 != 0 {
        "accepted-issued-in-future-default-bound".into()
      } else if self
        .issuance()
        .value()
        .and_then(|i| i.checked_sub(self.latest_issuance))
        == Some(1)
      {
        "accepted-issued-at-bound-plus-1".into()
      } else if self.iat.malformed() {
        "accepted-nbf-after-bound-with-unreadable-iat".into()
      } else if self.nbf != DateClaim::Absent && self.iat != DateClaim::Absent {
        "accepted-nbf-after-bound-with-earlier-iat".into()
      } else {
        "accepted-issued-after-bound".into()
      },
    });
    out.push(Cond {
      name: "vp-id",
      state: match (self.vp_id, self.jti) {
        (Dup::Absent, _) | (Dup::Equal, true) => Tri::True,
        (Dup::Different, true) => Tri::False,
        // vp.id without a jti to compare with: not stated
        (_, false) => Tri::Open,
      },
      accepted_sig: "accepted-vp-id-differs-from-jti".into(),
    });
    out.push(Cond {
      name: "vp-holder",
      state: match self.vp_holder {
        Dup::Absent | Dup::Equal => Tri::True,
        Dup::Different => Tri::False,
      },
      accepted_sig: "accepted-vp-holder-differs-from-iss".into(),
    });
    out
  }
}

fn kind(e: &JwtValidationError) -> &'static str {
  e.into()
}

/// The token's issuance is spelled as `serialize_jwt` spells it: in `nbf` only (or not at all).
fn plain_spelling(case: &Case) -> bool {
  case.iat == DateClaim::Absent
}

pub fn check(case: &Case, obs: &mut Obs) -> CheckResult {
  // ---- fixtures ------------------------------------------------------------------------------
  let universe = Universe::new(case.family as u64);
  let holder_which = case.holder_doc();
  let holder_doc: CoreDocument = fixture!(universe.doc(holder_which).build(), "holder document");

  // The presentation that is signed: holder = iss when that is a URL (otherwise a placeholder that the
  // claims-level edit below replaces).
  let holder_url = case.iss_url().unwrap_or_else(|| holder_which.did().to_string());
  let mut presentation_json = minimal_presentation(&holder_url);
  {
    let o = presentation_json.as_object_mut().expect("object");
    if case.jti {
      o.insert("id".into(), json!(PRESENTATION_ID));
    }
    if case.credentials > 0 {
      let list: Vec<Value> = (0..case.credentials)
        .map(|i| json!(format!("eyJhbGciOiJFZERTQSJ9.e30.c2ln{i}")))
        .collect();
      o.insert("verifiableCredential".into(), Value::Array(list));
    }
  }
  let presentation: Presentation<Value, Object> =
    fixture!(Presentation::from_json_value(presentation_json), "presentation JSON");
  let in_range = |d: DateClaim| match d {
    DateClaim::At(v) => Some(v),
    _ => None,
  };
  let ts = |v: i64| Timestamp::from_unix(v);
  let options = JwtPresentationOptions {
    expiration_date: match in_range(case.exp) {
      Some(v) => Some(fixture!(ts(v), "exp timestamp")),
      None => None,
    },
    issuance_date: match in_range(case.nbf) {
      Some(v) => Some(fixture!(ts(v), "nbf timestamp")),
      None => None,
    },
    audience: match &case.aud {
      Some(a) => Some(fixture!(Url::parse(a), "aud url")),
      None => None,
    },
    custom_claims: if case.custom.is_empty() {
      None
    } else {
      Some(case.custom.clone().into_iter().collect())
    },
  };
  let claims_text = fixture!(presentation.serialize_jwt(&options), "serialize_jwt");
  let mut claims: Value = fixture!(serde_json::from_str(&claims_text), "claims JSON");
  {
    let o = fixture!(claims.as_object_mut().ok_or("claims are not an object"), "claims JSON");
    // numeric dates exactly as the case says (also the unrepresentable ones)
    for (name, d) in [("exp", case.exp), ("nbf", case.nbf), ("iat", case.iat)] {
      match d.json() {
        Some(v) => o.insert(name.into(), v),
        None => o.remove(name),
      };
    }
    match case.iss {
      IssSel::NotAUrl => {
        o.insert("iss".into(), json!("not a url"));
      }
      IssSel::Number => {
        o.insert("iss".into(), json!(42));
      }
      _ => {}
    }
    let vp = fixture!(
      o.get_mut("vp").and_then(Value::as_object_mut).ok_or("no vp object"),
      "claims JSON"
    );
    match case.vp_id {
      Dup::Absent => {}
      Dup::Equal => {
        vp.insert("id".into(), json!(PRESENTATION_ID));
      }
      Dup::Different => {
        vp.insert("id".into(), json!(OTHER_ID));
      }
    }
    match case.vp_holder {
      Dup::Absent => {}
      Dup::Equal => {
        vp.insert("holder".into(), json!(holder_url));
      }
      Dup::Different => {
        vp.insert("holder".into(), json!(if holder_url == DID_C { DID_A } else { DID_C }));
      }
    }
  }
  let header = header_json(
    case.kid_text().as_deref(),
    case.typ.as_deref(),
    case.header_nonce.as_deref(),
    &Map::new(),
  );
  let mut token = sign_jwt(case.signer.key(&universe, case.target), &header, &claims);
  match case.tamper {
    Tamper::None => {}
    Tamper::Payload => {
      let mut forged = claims.clone();
      forged["vp"]["verifiableCredential"] = json!(["eyJhbGciOiJFZERTQSJ9.e30.Zm9yZ2Vk"]);
      token = replace_payload(&token, &forged);
    }
    Tamper::Signature(bit) => token = flip_signature_bit(&token, bit as usize),
  }
  let jwt = Jwt::new(token);

  let mut verification = JwsVerificationOptions::new();
  if let Some(n) = &case.option_nonce {
    verification = verification.nonce(n.clone());
  }
  let scope = case.scope.resolve(&universe, case.target);
  if let Some(s) = scope {
    verification = verification.method_scope(s.to_lib());
  }
  if let Some(id) = case.method_id.text(case.target) {
    verification = verification.method_id(fixture!(DIDUrl::parse(&id), "method id"));
  }
  let mut validation_options = JwtPresentationValidationOptions::new().presentation_verifier_options(verification);
  if case.unset_bounds & 1 == 0 {
    validation_options =
      validation_options.earliest_expiry_date(fixture!(ts(case.earliest_expiry), "earliest expiry bound"));
  }
  if case.unset_bounds & 2 == 0 {
    validation_options =
      validation_options.latest_issuance_date(fixture!(ts(case.latest_issuance), "latest issuance bound"));
  }
  if case.unset_bounds != 0 {
    obs.label(format!("default-bounds:{}", case.unset_bounds));
  }

  // ---- the call under test -----------------------------------------------------------------
  let validator = JwtPresentationValidator::with_signature_verifier(EdDSAJwsVerifier::default());
  let result = match catch(|| validator.validate::<CoreDocument, Value, Object>(&jwt, &holder_doc, &validation_options))
  {
    Ok(r) => r,
    Err(p) => return obs.fail("validate-panics", format!("validate panicked: {} ({})", p.msg, p.sig())),
  };

  // ---- oracle ------------------------------------------------------------------------------
  let conds = case.conditions(&universe);
  let n_false = conds.iter().filter(|c| c.state == Tri::False).count();
  let all_true = conds.iter().all(|c| c.state == Tri::True);
  obs.label(format!("false-conditions:{}", n_false.min(4)));
  for c in &conds {
    match c.state {
      Tri::False => obs.label(format!("false:{}", c.name)),
      Tri::Open => obs.label(format!("open:{}", c.name)),
      Tri::True => {}
    }
  }
  let mut boundary = false;
  if let (DateClaim::At(e), 0) = (case.exp, case.unset_bounds & 1) {
    let d = e - case.earliest_expiry;
    if d.abs() <= 1 {
      obs.label(format!("boundary:expiry{d:+}"));
      boundary = true;
    }
  }
  if let (DateClaim::At(i), 0) = (case.issuance(), case.unset_bounds & 2) {
    let d = i - case.latest_issuance;
    if d.abs() <= 1 {
      obs.label(format!("boundary:issuance{d:+}"));
      boundary = true;
    }
  }
  if case.nbf != DateClaim::Absent && case.iat != DateClaim::Absent && case.nbf != case.iat {
    obs.label("nbf-and-iat-differ");
  }
  if universe.method(case.target).id_did != universe.doc(holder_which).did && !case.supply_other {
    obs.label("target-is-foreign-method");
  }
  match &case.kid {
    KidSel::FragmentOnly | KidSel::BareFragment if case.method_id == MethodIdSel::None => obs.label("kid-is-fragment"),
    _ => {}
  }
  if n_false >= 2 || all_true || boundary {
    obs.nontrivial();
  }

  match result {
    Ok(decoded) => {
      let decoded: DecodedJwtPresentation<Value, Object> = decoded;
      obs.label("accepted");
      if all_true && plain_spelling(case) {
        obs.label("all-true-accepted");
      }
      // accepted => every condition holds
      for c in &conds {
        vensure!(
          obs,
          c.state != Tri::False,
          c.accepted_sig.clone(),
          "validate accepted the presentation although condition `{}` is false (holder document {}, kid {:?}, method_id {:?}, scope {:?})",
          c.name,
          holder_which.did(),
          case.kid_text(),
          case.method_id.text(case.target),
          scope
        );
      }
      // what comes back is what was signed
      let got = fixture!(
        serde_json::to_value(&decoded.presentation),
        "returned presentation to JSON"
      );
      let mut want = fixture!(serde_json::to_value(&presentation), "signed presentation to JSON");
      // An id that was signed only inside `vp` (no jti to carry it) is part of what was signed: if such a token is
      // accepted at all (the statement leaves that open), the id must come back, not silently disappear.
      if !case.jti {
        let signed_vp_id = match case.vp_id {
          Dup::Absent => None,
          Dup::Equal => Some(PRESENTATION_ID),
          Dup::Different => Some(OTHER_ID),
        };
        if let (Some(id), Some(obj)) = (signed_vp_id, want.as_object_mut()) {
          obj.insert("id".into(), json!(id));
        }
      }
      vensure!(
        obs,
        got == want,
        "returned-presentation-differs",
        "validate returned a presentation different from the signed one:\n got  {got}\n want {want}"
      );
      vensure!(
        obs,
        decoded.aud.as_ref().map(|u| u.as_str().to_string()) == case.aud,
        "returned-aud-differs",
        "validate returned aud {:?}, signed was {:?}",
        decoded.aud,
        case.aud
      );
      // (an accepted out-of-range date is an open case here; C07 owns it)
      if !matches!(case.exp, DateClaim::OutOfRange(_) | DateClaim::Malformed(_)) {
        vensure!(
          obs,
          decoded.expiration_date.map(|t| t.to_unix()) == case.exp.value(),
          "returned-expiration-differs",
          "validate returned expiration_date {:?}, signed exp was {:?}",
          decoded.expiration_date,
          case.exp.value()
        );
      }
      if !matches!(case.issuance(), DateClaim::OutOfRange(_)) && !case.nbf.malformed() && !case.iat.malformed() {
        vensure!(
          obs,
          decoded.issuance_date.map(|t| t.to_unix()) == case.issuance().value(),
          "returned-issuance-differs",
          "validate returned issuance_date {:?}, signed nbf {:?} / iat {:?}",
          decoded.issuance_date,
          case.nbf.value(),
          case.iat.value()
        );
      }
      let got_custom: Map<String, Value> = decoded
        .custom_claims
        .clone()
        .map(|o| o.into_iter().collect())
        .unwrap_or_default();
      vensure!(
        obs,
        got_custom == case.custom,
        "returned-custom-claims-differ",
        "validate returned custom claims {:?}, signed were {:?}",
        got_custom,
        case.custom
      );
      let got_header = fixture!(serde_json::to_value(&*decoded.header), "returned header to JSON");
      vensure!(
        obs,
        got_header == header,
        "returned-header-differs",
        "validate returned header {got_header}, the signed protected header is {header}"
      );
      Ok(())
    }
    Err(e) => {
      obs.label("rejected");
      for k in &e.presentation_validation_errors {
        obs.label(format!("err:{}", kind(k)));
      }
      if all_true {
        // not a violation (one-directional statement); the share is guarded in `run` — over tokens spelled the way
        // the library itself spells them (a verifier may refuse a redundant `iat` or other foreign spellings)
        obs.label(if plain_spelling(case) { "all-true-rejected" } else { "all-true-foreign-spelling-rejected" });
      }
      // "Otherwise an error is returned": the compound error must carry at least one error.
      vensure!(
        obs,
        !e.presentation_validation_errors.is_empty(),
        "rejected-without-error",
        "validate failed with an empty error list"
      );
      Ok(())
    }
  }
}

// ---------------------------------------------------------------------------------------------
// Generators
// ---------------------------------------------------------------------------------------------

fn date_claim(
  bound_and_date: impl Strategy<Value = (i64, i64)>,
  present: f64,
) -> impl Strategy<Value = (i64, DateClaim)> {
  let out_of_range = prop_oneof![
    Just(MAX_UNIX + 1),
    Just(MIN_UNIX - 1),
    Just(i64::MAX),
    Just(i64::MIN),
    (MAX_UNIX + 1)..=(MAX_UNIX + 1_000_000_000),
  ];
  (
    bound_and_date,
    prop::bool::weighted(present),
    prop::option::weighted(0.04, out_of_range),
  )
    .prop_map(|((bound, date), present, oor)| {
      let claim = match (present, oor) {
        (false, _) => DateClaim::Absent,
        (true, Some(v)) => DateClaim::OutOfRange(v),
        (true, None) => DateClaim::At(date),
      };
      (bound, claim)
    })
}

fn dup() -> impl Strategy<Value = Dup> {
  prop_oneof![6 => Just(Dup::Absent), 3 => Just(Dup::Equal), 1 => Just(Dup::Different)]
}

fn case_strategy() -> impl Strategy<Value = Case> {
  let selection = (
    0u8..4,
    prop_oneof![5 => Just(M::AG), 4 => Just(M::AA), 2 => Just(M::AN), 3 => Just(M::AForeignF), 3 => Just(M::AForeignG), 2 => Just(M::BG), 1 => Just(M::BF), 1 => Just(M::BA), 2 => Just(M::ACI), 2 => Just(M::ACD)],
    prop::bool::weighted(0.06),
    prop_oneof![
      24 => Just(KidSel::Target),
      10 => Just(KidSel::FragmentOnly),
      6 => Just(KidSel::BareFragment),
      2 => method_strategy().prop_map(KidSel::Method),
      1 => Just(KidSel::UnknownFragment),
      1 => Just(KidSel::UnknownFragmentOnly),
      1 => Just(KidSel::UnknownDid),
      1 => Just(KidSel::OtherDidSameFragment),
      1 => Just(KidSel::EmptyFragment),
      1 => Just(KidSel::DidWithoutFragment),
      1 => Just(KidSel::Absent),
    ],
    method_id_strategy(),
    scope_strategy(),
    signer_strategy(),
    tamper_strategy(),
    nonce_pair_strategy(),
  );
  let claims = (
    prop_oneof![
      40 => Just(IssSel::HolderDoc),
      1 => Just(IssSel::OtherDoc),
      1 => Just(IssSel::UnknownDid),
      1 => Just(IssSel::HolderDocUrlWithFragment),
      1 => Just(IssSel::Https),
      1 => Just(IssSel::NotAUrl),
      1 => Just(IssSel::Number),
    ],
    date_claim(bound_and_date_strategy(1), 0.7),
    date_claim(bound_and_date_strategy(-1), 0.7),
    // iat: absent, equal to nbf's date, or an arbitrary other date
    prop_oneof![
      4 => Just(None),
      3 => unix_date_strategy().prop_map(|v| Some(DateClaim::At(v))),
      1 => Just(Some(DateClaim::OutOfRange(MAX_UNIX + 1))),
      2 => Just(Some(DateClaim::Absent)),
      2 => (0u8..6).prop_map(|k| Some(DateClaim::Malformed(k))),
    ],
    // an iat sitting at a chosen distance from the issuance bound (used when drawn)
    prop::option::weighted(
      0.4,
      prop_oneof![3 => Just(-1i64), 3 => Just(0i64), 1 => Just(1i64), 2 => Just(-1000i64), 1 => Just(1000i64)],
    ),
    prop::bool::weighted(0.7),
    dup(),
    dup(),
    prop::option::weighted(
      0.4,
      prop_oneof![
        Just("https://verifier.example.org/".to_string()),
        Just("did:example:verifier".to_string())
      ],
    ),
    0u8..3,
  );
  let misc = (
    prop_oneof![2 => Just(Some("JWT".to_string())), 1 => Just(None)],
    custom_claims_strategy_with(PRESENTATION_FREE_CLAIM_NAMES),
    // options without one or both date bounds, with dates decades away from the present
    prop_oneof![17 => Just((0u8, false, false)), 3 => (1u8..4, any::<bool>(), any::<bool>())],
  );
  (selection, claims, misc).prop_map(
    |(
      (family, target, supply_other, kid, method_id, scope, signer, tamper, (header_nonce, option_nonce)),
      (
        iss,
        (earliest_expiry, exp),
        (latest_issuance, nbf),
        iat_free,
        iat_near,
        jti,
        vp_id,
        vp_holder,
        aud,
        credentials,
      ),
      (typ, custom, (unset_bounds, exp_future, nbf_future)),
    )| {
      let (exp, nbf) = (
        if unset_bounds & 1 != 0 && exp != DateClaim::Absent {
          DateClaim::At(if exp_future { YEAR_2090 } else { YEAR_2000 })
        } else {
          exp
        },
        if unset_bounds & 2 != 0 && nbf != DateClaim::Absent {
          DateClaim::At(if nbf_future { YEAR_2090 } else { YEAR_2000 })
        } else {
          nbf
        },
      );
      let iat_near = if unset_bounds & 2 != 0 { None } else { iat_near };
      let iat = match (iat_near, iat_free) {
        (Some(d), _) => DateClaim::At((latest_issuance + d).clamp(MIN_UNIX, MAX_UNIX)),
        (None, Some(c)) => c,
        // same instant as nbf
        (None, None) => nbf,
      };
      Case {
        family,
        target,
        supply_other,
        kid,
        method_id,
        scope,
        signer,
        tamper,
        header_nonce,
        option_nonce,
        iss,
        earliest_expiry,
        exp,
        latest_issuance,
        nbf,
        iat,
        jti,
        vp_id,
        vp_holder,
        aud,
        credentials,
        typ,
        custom,
        unset_bounds,
      }
    },
  )
}

fn base_case(target: M) -> Case {
  Case {
    family: 0,
    target,
    supply_other: false,
    kid: KidSel::Target,
    method_id: MethodIdSel::None,
    scope: ScopeSel::None,
    signer: SignerSel::Target,
    tamper: Tamper::None,
    header_nonce: Some("n1".into()),
    option_nonce: Some("n1".into()),
    iss: IssSel::HolderDoc,
    earliest_expiry: 1_800_000_000,
    exp: DateClaim::At(1_800_000_000),
    latest_issuance: 1_700_000_000,
    nbf: DateClaim::At(1_700_000_000),
    iat: DateClaim::Absent,
    jti: true,
    vp_id: Dup::Equal,
    vp_holder: Dup::Equal,
    aud: Some("https://verifier.example.org/".into()),
    credentials: 1,
    typ: Some("JWT".into()),
    custom: Map::new(),
    unset_bounds: 0,
  }
}

type Deviation = fn(&mut Case);

const DEVIATIONS: &[Deviation] = &[
  |c| c.option_nonce = Some("n2".into()),
  |c| c.option_nonce = None,
  |c| c.header_nonce = None,
  |c| c.kid = KidSel::FragmentOnly,
  |c| c.kid = KidSel::BareFragment,
  |c| c.kid = KidSel::Absent,
  |c| c.kid = KidSel::UnknownFragment,
  |c| c.kid = KidSel::UnknownDid,
  |c| c.kid = KidSel::OtherDidSameFragment,
  |c| c.kid = KidSel::EmptyFragment,
  |c| c.kid = KidSel::Method(M::AN),
  |c| c.kid = KidSel::Method(M::AForeignF),
  |c| c.kid = KidSel::Method(M::BG),
  |c| c.method_id = MethodIdSel::Target,
  |c| c.method_id = MethodIdSel::Method(M::AA),
  |c| c.method_id = MethodIdSel::Method(M::BA),
  |c| c.scope = ScopeSel::Fixed(Scope::VerificationMethod),
  |c| c.scope = ScopeSel::Fixed(Scope::Relationship(Rel::Authentication)),
  |c| c.scope = ScopeSel::Fixed(Scope::Relationship(Rel::AssertionMethod)),
  |c| c.scope = ScopeSel::Fixed(Scope::Relationship(Rel::KeyAgreement)),
  |c| c.signer = SignerSel::Method(M::AN),
  |c| c.signer = SignerSel::Method(M::AForeignG),
  |c| c.signer = SignerSel::Outsider,
  |c| c.tamper = Tamper::Payload,
  |c| c.tamper = Tamper::Signature(17),
  |c| c.supply_other = true,
  |c| c.iss = IssSel::OtherDoc,
  |c| c.iss = IssSel::UnknownDid,
  |c| c.iss = IssSel::HolderDocUrlWithFragment,
  |c| c.iss = IssSel::Https,
  |c| c.iss = IssSel::NotAUrl,
  |c| c.exp = DateClaim::At(1_799_999_999),
  |c| c.exp = DateClaim::At(1_800_000_001),
  |c| c.exp = DateClaim::Absent,
  |c| c.exp = DateClaim::OutOfRange(MAX_UNIX + 1),
  |c| c.nbf = DateClaim::At(1_700_000_001),
  |c| c.nbf = DateClaim::At(1_699_999_999),
  |c| c.nbf = DateClaim::Absent,
  |c| c.iat = DateClaim::At(1_700_000_001),
  |c| c.iat = DateClaim::At(1_700_000_000),
  |c| c.iat = DateClaim::At(1_600_000_000),
  |c| c.iat = DateClaim::OutOfRange(i64::MAX),
  |c| {
    c.unset_bounds = 1;
    c.exp = DateClaim::At(YEAR_2000)
  },
  |c| {
    c.unset_bounds = 2;
    c.nbf = DateClaim::At(YEAR_2090)
  },
  |c| {
    c.unset_bounds = 3;
    c.exp = DateClaim::At(YEAR_2090);
    c.nbf = DateClaim::At(YEAR_2000)
  },
  |c| c.scope = ScopeSel::Fixed(Scope::Relationship(Rel::CapabilityInvocation)),
  |c| c.scope = ScopeSel::Fixed(Scope::Relationship(Rel::CapabilityDelegation)),
  |c| c.iat = DateClaim::Malformed(0),
  |c| c.iat = DateClaim::Malformed(2),
  |c| c.nbf = DateClaim::Malformed(1),
  |c| c.exp = DateClaim::Malformed(0),
  |c| c.jti = false,
  |c| c.vp_id = Dup::Different,
  |c| c.vp_id = Dup::Absent,
  |c| c.vp_holder = Dup::Different,
  |c| c.vp_holder = Dup::Absent,
  |c| c.aud = None,
  |c| c.credentials = 0,
];

fn table() -> impl Iterator<Item = Case> {
  let targets = [M::AG, M::AA, M::AForeignF, M::AForeignG, M::BG];
  let n = DEVIATIONS.len();
  let singles = targets.into_iter().flat_map(move |t| {
    std::iter::once(base_case(t)).chain((0..n).map(move |i| {
      let mut c = base_case(t);
      DEVIATIONS[i](&mut c);
      c
    }))
  });
  let pairs = [M::AG, M::AForeignG].into_iter().flat_map(move |t| {
    (0..n).flat_map(move |i| {
      ((i + 1)..n).map(move |j| {
        let mut c = base_case(t);
        DEVIATIONS[i](&mut c);
        DEVIATIONS[j](&mut c);
        c
      })
    })
  });
  singles.chain(pairs)
}

pub fn run(ctx: &mut Ctx) {
  ctx.rule = "condition vectors over (holder document supplied, kid as full id / #fragment / bare fragment / absent / id under another DID, \
    method-id override, scope, signer key incl. foreign-DID methods listed in the holder document, tampering, nonce on either side, iss, \
    exp / nbf / iat absent, on the bound, one second off, far, unrepresentable, iat != nbf, vp.id / vp.holder duplicates equal / different / absent, \
    aud, custom claims, credential list); table = base case x every single deviation for five target methods + every pair of deviations for two; \
    random = independent draws. Truth of every condition is computed from the vector with the harness's own model of kid resolution. \
    Non-trivial = at least two conditions false, or all true, or a date exactly on / one second off its bound; distinct by case bytes."
    .into();
  ctx.assume("the statement only demands 'an error is returned' on rejection, so error variants are recorded (err:* classes) but not asserted");
  ctx.assume("issuance time = nbf when present, else iat (VC data model 1.1 carries issuanceDate in nbf; the statement speaks of one issuance time)");
  ctx.assume("a method listed in the holder document under a foreign DID is 'a verification method of the supplied holder document': it may be chosen by its full id or by its fragment; when a fragment names two listed methods either key is admissible");
  ctx.assume("not stated by C03, either outcome accepted: numeric dates outside years 0000-9999 (C07 demands their rejection), vp.id present without jti");
  ctx.assume("all-true vectors that are rejected only feed a vacuity guard (>= 90% must be accepted)");

  ctx.exhaustive("table", table, check);
  ctx.proptest("random", ctx.pick(60_000, 1_200_000), case_strategy, check);

  for sub in ["table", "random"] {
    ctx.require_class(&format!("{sub}:all-true-accepted"), 50);
    ctx.require_class(&format!("{sub}:false-conditions:2"), 100);
    for cond in [
      "nonce",
      "method",
      "signature",
      "iss",
      "expiry",
      "issuance",
      "vp-id",
      "vp-holder",
    ] {
      ctx.require_class(&format!("{sub}:false:{cond}"), 20);
    }
  }
  for b in [
    "issuance-1",
    "issuance+0",
    "issuance+1",
    "expiry-1",
    "expiry+0",
    "expiry+1",
  ] {
    ctx.require_class(&format!("random:boundary:{b}"), 100);
  }
  ctx.require_class("random:nbf-and-iat-differ", 500);
  ctx.require_class("random:target-is-foreign-method", 500);
  ctx.require_class("random:kid-is-fragment", 500);
  let count = |name: &str| -> u64 {
    ["table", "random"]
      .iter()
      .map(|s| ctx.counters.classes.get(&format!("{s}:{name}")).copied().unwrap_or(0))
      .sum()
  };
  let (ok, refused) = (count("all-true-accepted"), count("all-true-rejected"));
  ctx.extra.insert("all_true_accepted".into(), json!(ok));
  ctx.extra.insert("all_true_rejected".into(), json!(refused));
  if refused * 10 > ok + refused && ctx.violations.is_empty() {
    ctx.inconclusive.push(format!(
      "vacuity: {refused} of {} all-true vectors were rejected",
      ok + refused
    ));
  }
}

pub fn replay(v: &serde_json::Value, obs: &mut Obs) -> Result<CheckResult, String> {
  replay_with::<Case>(v, obs, check)
}
