//! C07 — Credential/presentation ⇄ JWT claims conversion is lossless and consistent.
//!
//! Three families of cases:
//! * generated credentials / presentations over every optional member: the claims set produced by `serialize_jwt`
//!   is inspected as plain JSON (registered claims present exactly when the source member is; nothing duplicated
//!   inside `vc`/`vp`), then wrapped in a JWS and sent through the public validator path — what comes back must
//!   equal the original;
//! * claims sets rendered by the harness in which each duplicated member is absent / equal / different on the
//!   `vc`/`vp` side and present / absent on the registered side, with numeric dates inside and outside years
//!   0000–9999 and `iat` next to `nbf`: disagreement and unrepresentable dates must be rejected, agreement must
//!   be accepted and reconstructed exactly.

use crate::engine::*;
use crate::fixture;
use crate::gen::vc_fixtures::*;
use crate::model::civil::parse_rfc3339;
use crate::model::civil::MAX_UNIX;
use crate::model::civil::MIN_UNIX;
use crate::util::b64url;
use crate::vensure;
use crate::vfail;
use identity_core::common::Object;
use identity_core::common::Timestamp;
use identity_core::common::Url;
use identity_core::convert::FromJson;
use identity_credential::credential::Credential;
use identity_credential::credential::Jwt;
use identity_credential::presentation::JwtPresentationOptions;
use identity_credential::presentation::Presentation;
use identity_credential::validator::DecodedJwtCredential;
use identity_credential::validator::DecodedJwtPresentation;
use identity_credential::validator::JwtCredentialValidator;
use identity_credential::validator::JwtPresentationValidationOptions;
use identity_credential::validator::JwtPresentationValidator;
use identity_document::document::CoreDocument;
use identity_document::verifiable::JwsVerificationOptions;
use identity_eddsa_verifier::EdDSAJwsVerifier;
use identity_verification::jwk::Jwk;
use identity_verification::jws::JwsVerifierFn;
use identity_verification::jws::SignatureVerificationError;
use identity_verification::jws::VerificationInput;
use proptest::prelude::*;
use serde::Deserialize;
use serde::Serialize;
use serde_json::json;
use serde_json::Map;
use serde_json::Value;

// ---------------------------------------------------------------------------------------------
// Cases
// ---------------------------------------------------------------------------------------------

/// A member repeated inside `vc` / `vp`.
#[derive(Debug, Clone, Copy, PartialEq, Eq, Serialize, Deserialize)]
pub enum Dup {
  Absent,
  Equal,
  Different,
}

/// `vc.issuer`.
#[derive(Debug, Clone, Copy, PartialEq, Eq, Serialize, Deserialize)]
pub enum VcIssuer {
  Absent,
  Equal,
  /// Another identifier.
  Different,
  /// The same identifier in object form with an extra member (neither clearly equal nor clearly different).
  SameIdObjectForm,
}

#[derive(Debug, Clone, Serialize, Deserialize)]
pub struct CredentialClaims {
  /// `iss` present (it is a required claim).
  pub iss: bool,
  pub vc_issuer: VcIssuer,
  pub nbf: Option<i64>,
  pub iat: Option<i64>,
  /// `vc.issuanceDate` as unix seconds (always representable).
  pub vc_issuance: Option<i64>,
  pub exp: Option<i64>,
  /// `vc.expirationDate` as unix seconds (always representable).
  pub vc_expiration: Option<i64>,
  pub jti: bool,
  pub vc_id: Dup,
  pub sub: bool,
  pub vc_subject_id: Dup,
}

#[derive(Debug, Clone, Serialize, Deserialize)]
pub struct PresentationClaims {
  pub iss: bool,
  pub vp_holder: Dup,
  pub jti: bool,
  pub vp_id: Dup,
  pub exp: Option<i64>,
  pub nbf: Option<i64>,
  pub iat: Option<i64>,
  pub aud: bool,
}

#[derive(Debug, Clone, Serialize, Deserialize)]
pub enum Case {
  /// Generated credential → `serialize_jwt` → JWS → `verify_signature`.
  Credential {
    family: u8,
    credential: Value,
    custom: Map<String, Value>,
  },
  /// Generated presentation (+ options) → `serialize_jwt` → JWS → `validate`.
  Presentation {
    family: u8,
    presentation: Value,
    exp: Option<i64>,
    nbf: Option<i64>,
    aud: Option<String>,
    custom: Map<String, Value>,
  },
  /// Harness-rendered credential claims set → `verify_signature` (permissive verifier).
  CredentialClaims(CredentialClaims),
  /// Harness-rendered presentation claims set → `validate` (permissive verifier).
  PresentationClaims(PresentationClaims),
}

const CRED_ID: &str = "https://example.edu/credentials/3732";
const CRED_ID_OTHER: &str = "https://example.edu/credentials/1111";
const SUBJECT_ID: &str = "did:example:ebfeb1f712ebc6f1c276e12ec21";
const SUBJECT_ID_OTHER: &str = "did:example:1111111111111111111111111";
const PRES_ID: &str = "https://example.edu/presentations/3732";
const PRES_ID_OTHER: &str = "https://example.edu/presentations/1111";
const AUD: &str = "https://verifier.example.org/";

/// Issuer / holder identifiers of generated values: mostly the DID of document A (the only ones the public
/// validator path can verify), sometimes not.
const ISSUER_IDS: &[&str] = &[
  DID_A,
  DID_A,
  DID_A,
  DID_A,
  DID_A,
  "https://example.edu/issuers/14",
  "did:example:76e12ec712ebc6f1c221ebfeb1f",
];

fn in_range(v: i64) -> bool {
  (MIN_UNIX..=MAX_UNIX).contains(&v)
}

fn permissive() -> JwsVerifierFn<impl Fn(VerificationInput, &Jwk) -> Result<(), SignatureVerificationError>> {
  JwsVerifierFn::from(|_input: VerificationInput, _key: &Jwk| -> Result<(), SignatureVerificationError> { Ok(()) })
}

/// Unsigned token (for the permissive verifier).
fn unsigned_token(header: &Value, claims: &Value) -> String {
  format!(
    "{}.{}.{}",
    b64url(header.to_string().as_bytes()),
    b64url(claims.to_string().as_bytes()),
    b64url(b"unchecked")
  )
}

fn custom_of(o: Option<Object>) -> Map<String, Value> {
  o.map(|o| o.into_iter().collect()).unwrap_or_default()
}

/// `value` without the listed top-level members.
fn without(value: &Value, members: &[&str]) -> Value {
  let mut v = value.clone();
  if let Some(o) = v.as_object_mut() {
    for m in members {
      o.remove(*m);
    }
  }
  v
}

// ---------------------------------------------------------------------------------------------
// Generated credential
// ---------------------------------------------------------------------------------------------

fn check_credential(family: u8, credential_json: &Value, custom: &Map<String, Value>, obs: &mut Obs) -> CheckResult {
  let credential: Credential<Object> = fixture!(
    Credential::from_json_value(credential_json.clone()),
    "generated credential JSON"
  );
  // precondition: the value is stable under its own JSON round trip
  let cj = fixture!(serde_json::to_value(&credential), "credential to JSON");
  match Credential::<Object>::from_json_value(cj.clone()) {
    Ok(again) if again == credential => {}
    _ => {
      obs.discard("credential-not-stable-under-own-json-roundtrip");
      return Ok(());
    }
  }
  let spelling = subject_spelling(credential_json);
  if optional_member_count(credential_json) >= 3 {
    obs.nontrivial();
  }
  obs.label(match spelling {
    SubjectSpelling::One => "subject:one",
    SubjectSpelling::ArrayOfOne => "subject:array-of-one",
    SubjectSpelling::Two => "subject:two",
  });
  for m in [
    "id",
    "expirationDate",
    "credentialStatus",
    "credentialSchema",
    "refreshService",
    "termsOfUse",
    "evidence",
    "proof",
    "nonTransferable",
  ] {
    if credential_json.get(m).is_some() {
      obs.label(format!("uses:{m}"));
    }
  }
  if credential_json["issuer"].is_object() {
    obs.label("issuer:object");
  }

  let custom_obj: Option<Object> = if custom.is_empty() {
    None
  } else {
    Some(custom.clone().into_iter().collect())
  };
  let serialized = match catch(|| credential.serialize_jwt(custom_obj.clone())) {
    Ok(r) => r,
    Err(p) => {
      return obs.fail(
        "credential-serialize-jwt-panics",
        format!("serialize_jwt panicked: {}", p.msg),
      )
    }
  };
  let claims_text = match (serialized, spelling) {
    (Ok(t), SubjectSpelling::Two) => {
      // outside the statement's domain (more than one subject); nothing is promised
      obs.label("two-subjects-serialized");
      let _ = t;
      return Ok(());
    }
    (Err(_), SubjectSpelling::Two) => {
      obs.label("two-subjects-refused");
      return Ok(());
    }
    (Err(_), SubjectSpelling::ArrayOfOne) => {
      // one subject spelled as an array: refusing it is tolerated
      obs.label("array-of-one-refused");
      return Ok(());
    }
    (Err(e), SubjectSpelling::One) => {
      return obs.fail(
        "credential-serialize-jwt-refuses-single-subject",
        format!("serialize_jwt failed: {e} for {cj}"),
      );
    }
    (Ok(t), _) => t,
  };
  let claims: Value = match serde_json::from_str(&claims_text) {
    Ok(v) => v,
    Err(e) => {
      return obs.fail(
        "credential-claims-not-json",
        format!("serialize_jwt output is not JSON: {e}: {claims_text}"),
      )
    }
  };

  // the reference credential with the subject spelled as an object
  let mut reference = cj.clone();
  if let Some(Value::Array(list)) = reference.get("credentialSubject").cloned() {
    reference["credentialSubject"] = list.into_iter().next().unwrap_or(Value::Null);
  }

  // ---- (1) shape of the claims set -----------------------------------------------------------
  let issuance = fixture!(
    credential_json["issuanceDate"]
      .as_str()
      .and_then(parse_rfc3339)
      .ok_or("generated issuanceDate unreadable"),
    "generator"
  )
  .unix;
  let expiration = match credential_json.get("expirationDate") {
    Some(v) => Some(
      fixture!(
        v.as_str()
          .and_then(parse_rfc3339)
          .ok_or("generated expirationDate unreadable"),
        "generator"
      )
      .unix,
    ),
    None => None,
  };
  let subject_id = reference["credentialSubject"].get("id").cloned();
  let expected_registered: [(&str, Option<Value>); 6] = [
    ("iss", Some(reference["issuer"].clone())),
    ("nbf", Some(json!(issuance))),
    ("exp", expiration.map(|e| json!(e))),
    ("jti", reference.get("id").cloned()),
    ("sub", subject_id),
    ("iat", None),
  ];
  for (name, want) in &expected_registered {
    vensure!(
      obs,
      claims.get(*name) == want.as_ref(),
      format!("credential-claim-{name}-wrong"),
      "claims member `{name}` is {:?}, the credential calls for {:?}; claims {claims}",
      claims.get(*name),
      want
    );
  }
  let vc = claims.get("vc").cloned().unwrap_or(Value::Null);
  for m in ["id", "issuer", "issuanceDate", "expirationDate"] {
    vensure!(
      obs,
      vc.get(m).is_none(),
      format!("vc-duplicates-{m}"),
      "`vc` repeats `{m}`: {vc}"
    );
  }
  vensure!(
    obs,
    vc.get("credentialSubject").and_then(|s| s.get("id")).is_none(),
    "vc-duplicates-credentialSubject-id",
    "`vc.credentialSubject` repeats `id`: {vc}"
  );
  let mut want_vc = without(&reference, &["id", "issuer", "issuanceDate", "expirationDate"]);
  if let Some(s) = want_vc.get_mut("credentialSubject").and_then(Value::as_object_mut) {
    s.remove("id");
  }
  vensure!(
    obs,
    vc == want_vc,
    "vc-content-differs",
    "`vc` is {vc}\n expected {want_vc}"
  );
  let mut want_top: Vec<String> = expected_registered
    .iter()
    .filter(|(_, v)| v.is_some())
    .map(|(n, _)| n.to_string())
    .collect();
  want_top.push("vc".into());
  want_top.extend(custom.keys().cloned());
  want_top.sort();
  let mut got_top: Vec<String> = claims
    .as_object()
    .map(|o| o.keys().cloned().collect())
    .unwrap_or_default();
  got_top.sort();
  vensure!(
    obs,
    got_top == want_top,
    "credential-claims-members-differ",
    "claims members {got_top:?}, expected {want_top:?}"
  );
  for (k, v) in custom {
    vensure!(
      obs,
      claims.get(k) == Some(v),
      "credential-custom-claim-differs",
      "custom claim {k:?} is {:?}, given {v}",
      claims.get(k)
    );
  }

  // ---- (2) round trip through the public path ------------------------------------------------
  let universe = Universe::new(family as u64);
  let doc_a: CoreDocument = fixture!(universe.a.build(), "document A");
  let header = header_json(Some(&M::AG.id()), Some("JWT"), None, &Map::new());
  let jwt = Jwt::new(sign_jwt(&universe.method(M::AG).key, &header, &claims));
  let validator = JwtCredentialValidator::with_signature_verifier(EdDSAJwsVerifier::default());
  let issuer_is_doc_a = reference["issuer"]
    .as_str()
    .unwrap_or_else(|| reference["issuer"]["id"].as_str().unwrap_or(""))
    == DID_A;
  let result = match catch(|| {
    validator.verify_signature::<CoreDocument, Object>(
      &jwt,
      std::slice::from_ref(&doc_a),
      &JwsVerificationOptions::new(),
    )
  }) {
    Ok(r) => r,
    Err(p) => {
      return obs.fail(
        "credential-verify-signature-panics",
        format!("verify_signature panicked: {}", p.msg),
      )
    }
  };
  match result {
    Ok(decoded) => {
      let decoded: DecodedJwtCredential<Object> = decoded;
      obs.label("credential-roundtrip");
      let mut got = fixture!(serde_json::to_value(&decoded.credential), "returned credential to JSON");
      if let Some(Value::Array(list)) = got.get("credentialSubject").cloned() {
        if list.len() == 1 {
          got["credentialSubject"] = list.into_iter().next().unwrap_or(Value::Null);
        }
      }
      vensure!(
        obs,
        got == reference,
        "credential-roundtrip-differs",
        "credential after serialize_jwt + verify_signature:\n got  {got}\n want {reference}"
      );
      if spelling == SubjectSpelling::One {
        vensure!(
          obs,
          decoded.credential == credential,
          "credential-roundtrip-differs",
          "returned credential value differs from the original (PartialEq)"
        );
      }
      let got_custom = custom_of(decoded.custom_claims);
      vensure!(
        obs,
        &got_custom == custom,
        "credential-roundtrip-custom-claims-differ",
        "custom claims after the round trip {got_custom:?}, given {custom:?}"
      );
    }
    Err(e) => {
      // a non-DID issuer, or one other than document A, cannot pass the validator: outside this round trip
      vensure!(
        obs,
        !issuer_is_doc_a,
        "credential-roundtrip-rejected",
        "own serialize_jwt output is rejected by verify_signature: {e} ({e:?}); claims {claims}"
      );
      obs.label("issuer-not-verifiable");
    }
  }
  Ok(())
}

// ---------------------------------------------------------------------------------------------
// Generated presentation
// ---------------------------------------------------------------------------------------------

fn check_presentation(
  family: u8,
  presentation_json: &Value,
  exp: Option<i64>,
  nbf: Option<i64>,
  aud: &Option<String>,
  custom: &Map<String, Value>,
  obs: &mut Obs,
) -> CheckResult {
  let presentation: Presentation<Value, Object> = fixture!(
    Presentation::from_json_value(presentation_json.clone()),
    "generated presentation JSON"
  );
  let pj = fixture!(serde_json::to_value(&presentation), "presentation to JSON");
  match Presentation::<Value, Object>::from_json_value(pj.clone()) {
    Ok(again) if again == presentation => {}
    _ => {
      obs.discard("presentation-not-stable-under-own-json-roundtrip");
      return Ok(());
    }
  }
  let used = optional_member_count(presentation_json)
    + exp.is_some() as usize
    + nbf.is_some() as usize
    + aud.is_some() as usize
    + !custom.is_empty() as usize;
  if used >= 3 {
    obs.nontrivial();
  }
  for m in ["id", "verifiableCredential", "refreshService", "termsOfUse", "proof"] {
    if presentation_json.get(m).is_some() {
      obs.label(format!("uses:{m}"));
    }
  }
  for (name, present) in [
    ("exp", exp.is_some()),
    ("nbf", nbf.is_some()),
    ("aud", aud.is_some()),
    ("custom", !custom.is_empty()),
  ] {
    if present {
      obs.label(format!("uses:{name}"));
    }
  }
  let options = JwtPresentationOptions {
    expiration_date: match exp {
      Some(v) => Some(fixture!(Timestamp::from_unix(v), "exp timestamp")),
      None => None,
    },
    issuance_date: match nbf {
      Some(v) => Some(fixture!(Timestamp::from_unix(v), "nbf timestamp")),
      None => None,
    },
    audience: match aud {
      Some(a) => Some(fixture!(Url::parse(a), "aud url")),
      None => None,
    },
    custom_claims: if custom.is_empty() {
      None
    } else {
      Some(custom.clone().into_iter().collect())
    },
  };
  let claims_text = match catch(|| presentation.serialize_jwt(&options)) {
    Ok(Ok(t)) => t,
    Ok(Err(e)) => {
      return obs.fail(
        "presentation-serialize-jwt-fails",
        format!("serialize_jwt failed: {e} for {pj}"),
      )
    }
    Err(p) => {
      return obs.fail(
        "presentation-serialize-jwt-panics",
        format!("serialize_jwt panicked: {}", p.msg),
      )
    }
  };
  let claims: Value = match serde_json::from_str(&claims_text) {
    Ok(v) => v,
    Err(e) => {
      return obs.fail(
        "presentation-claims-not-json",
        format!("serialize_jwt output is not JSON: {e}: {claims_text}"),
      )
    }
  };

  // ---- (1) shape -------------------------------------------------------------------------------
  let expected_registered: [(&str, Option<Value>); 6] = [
    ("iss", Some(pj["holder"].clone())),
    ("jti", pj.get("id").cloned()),
    ("exp", exp.map(|e| json!(e))),
    ("nbf", nbf.map(|e| json!(e))),
    ("aud", aud.as_ref().map(|a| json!(a))),
    ("iat", None),
  ];
  for (name, want) in &expected_registered {
    vensure!(
      obs,
      claims.get(*name) == want.as_ref(),
      format!("presentation-claim-{name}-wrong"),
      "claims member `{name}` is {:?}, the presentation/options call for {:?}; claims {claims}",
      claims.get(*name),
      want
    );
  }
  let vp = claims.get("vp").cloned().unwrap_or(Value::Null);
  for m in ["id", "holder"] {
    vensure!(
      obs,
      vp.get(m).is_none(),
      format!("vp-duplicates-{m}"),
      "`vp` repeats `{m}`: {vp}"
    );
  }
  // an empty credential list may be spelled as `[]` or left out
  let strip_empty_list = |v: &Value| -> Value {
    let mut v = v.clone();
    if v
      .get("verifiableCredential")
      .and_then(Value::as_array)
      .map(|a| a.is_empty())
      .unwrap_or(false)
    {
      if let Some(o) = v.as_object_mut() {
        o.remove("verifiableCredential");
      }
    }
    v
  };
  let want_vp = strip_empty_list(&without(&pj, &["id", "holder"]));
  vensure!(
    obs,
    strip_empty_list(&vp) == want_vp,
    "vp-content-differs",
    "`vp` is {vp}\n expected {want_vp}"
  );
  let mut want_top: Vec<String> = expected_registered
    .iter()
    .filter(|(_, v)| v.is_some())
    .map(|(n, _)| n.to_string())
    .collect();
  want_top.push("vp".into());
  want_top.extend(custom.keys().cloned());
  want_top.sort();
  let mut got_top: Vec<String> = claims
    .as_object()
    .map(|o| o.keys().cloned().collect())
    .unwrap_or_default();
  got_top.sort();
  vensure!(
    obs,
    got_top == want_top,
    "presentation-claims-members-differ",
    "claims members {got_top:?}, expected {want_top:?}"
  );
  for (k, v) in custom {
    vensure!(
      obs,
      claims.get(k) == Some(v),
      "presentation-custom-claim-differs",
      "custom claim {k:?} is {:?}, given {v}",
      claims.get(k)
    );
  }

  // ---- (2) round trip --------------------------------------------------------------------------
  let universe = Universe::new(family as u64);
  let doc_a: CoreDocument = fixture!(universe.a.build(), "document A");
  let header = header_json(Some(&M::AA.id()), Some("JWT"), None, &Map::new());
  let jwt = Jwt::new(sign_jwt(&universe.method(M::AA).key, &header, &claims));
  // bounds at the range ends: the date conditions cannot fail
  let validation_options = JwtPresentationValidationOptions::new()
    .earliest_expiry_date(fixture!(Timestamp::from_unix(MIN_UNIX), "lower bound"))
    .latest_issuance_date(fixture!(Timestamp::from_unix(MAX_UNIX), "upper bound"));
  let validator = JwtPresentationValidator::with_signature_verifier(EdDSAJwsVerifier::default());
  let holder_is_doc_a = pj["holder"].as_str() == Some(DID_A);
  let result = match catch(|| validator.validate::<CoreDocument, Value, Object>(&jwt, &doc_a, &validation_options)) {
    Ok(r) => r,
    Err(p) => return obs.fail("presentation-validate-panics", format!("validate panicked: {}", p.msg)),
  };
  match result {
    Ok(decoded) => {
      let decoded: DecodedJwtPresentation<Value, Object> = decoded;
      obs.label("presentation-roundtrip");
      let got = fixture!(
        serde_json::to_value(&decoded.presentation),
        "returned presentation to JSON"
      );
      vensure!(
        obs,
        got == pj && decoded.presentation == presentation,
        "presentation-roundtrip-differs",
        "presentation after serialize_jwt + validate:\n got  {got}\n want {pj}"
      );
      vensure!(
        obs,
        decoded.expiration_date.map(|t| t.to_unix()) == exp && decoded.issuance_date.map(|t| t.to_unix()) == nbf,
        "presentation-roundtrip-dates-differ",
        "dates after the round trip: exp {:?} nbf {:?}, given exp {exp:?} nbf {nbf:?}",
        decoded.expiration_date,
        decoded.issuance_date
      );
      vensure!(
        obs,
        decoded.aud.as_ref().map(|u| u.as_str().to_string()) == *aud,
        "presentation-roundtrip-aud-differs",
        "aud after the round trip {:?}, given {aud:?}",
        decoded.aud
      );
      let got_custom = custom_of(decoded.custom_claims);
      vensure!(
        obs,
        &got_custom == custom,
        "presentation-roundtrip-custom-claims-differ",
        "custom claims after the round trip {got_custom:?}, given {custom:?}"
      );
    }
    Err(e) => {
      vensure!(
        obs,
        !holder_is_doc_a,
        "presentation-roundtrip-rejected",
        "own serialize_jwt output is rejected by validate: {e} ({e:?}); claims {claims}"
      );
      obs.label("holder-not-verifiable");
    }
  }
  Ok(())
}

// ---------------------------------------------------------------------------------------------
// Harness-rendered claims sets
// ---------------------------------------------------------------------------------------------

/// What the statement says about a claims set.
enum Verdict {
  /// Must be rejected; the string names the clause (it becomes the violation signature when accepted).
  Reject(&'static str),
  /// Not stated.
  Either(&'static str),
  /// Consistent and representable: must be accepted and reconstructed exactly.
  Accept,
}

fn check_credential_claims(c: &CredentialClaims, obs: &mut Obs) -> CheckResult {
  // `nbf` wins over `iat`
  let winner = c.nbf.or(c.iat);
  let mut vc = json!({
    "@context": [BASE_CONTEXT, EXAMPLES_CONTEXT],
    "type": ["VerifiableCredential", "UniversityDegreeCredential"],
    "credentialSubject": {"degree": {"type": "BachelorDegree", "name": "Bachelor of Science"}},
  });
  let mut claims = Map::new();
  if c.iss {
    claims.insert("iss".into(), json!(DID_A));
  }
  match c.vc_issuer {
    VcIssuer::Absent => {}
    VcIssuer::Equal => vc["issuer"] = json!(DID_A),
    VcIssuer::Different => vc["issuer"] = json!(DID_B),
    VcIssuer::SameIdObjectForm => vc["issuer"] = json!({"id": DID_A, "name": "Example University"}),
  }
  for (name, v) in [("nbf", c.nbf), ("iat", c.iat), ("exp", c.exp)] {
    if let Some(v) = v {
      claims.insert(name.into(), json!(v));
    }
  }
  if let Some(v) = c.vc_issuance {
    vc["issuanceDate"] = json!(rfc3339(v));
  }
  if let Some(v) = c.vc_expiration {
    vc["expirationDate"] = json!(rfc3339(v));
  }
  if c.jti {
    claims.insert("jti".into(), json!(CRED_ID));
  }
  match c.vc_id {
    Dup::Absent => {}
    Dup::Equal => vc["id"] = json!(CRED_ID),
    Dup::Different => vc["id"] = json!(CRED_ID_OTHER),
  }
  if c.sub {
    claims.insert("sub".into(), json!(SUBJECT_ID));
  }
  match c.vc_subject_id {
    Dup::Absent => {}
    Dup::Equal => vc["credentialSubject"]["id"] = json!(SUBJECT_ID),
    Dup::Different => vc["credentialSubject"]["id"] = json!(SUBJECT_ID_OTHER),
  }
  claims.insert("vc".into(), vc);
  let claims = Value::Object(claims);

  // ---- verdict, clause by clause ---------------------------------------------------------------
  let mut rejects: Vec<&'static str> = Vec::new();
  let mut eithers: Vec<&'static str> = Vec::new();
  if !c.iss {
    eithers.push("iss-absent");
  }
  match (c.vc_issuer, c.iss) {
    (VcIssuer::Different, true) => rejects.push("accepted-inconsistent-issuer"),
    (VcIssuer::SameIdObjectForm, true) => eithers.push("issuer-same-id-other-form"),
    (VcIssuer::Equal | VcIssuer::Different | VcIssuer::SameIdObjectForm, false) => {
      eithers.push("vc-issuer-without-iss")
    }
    _ => {}
  }
  if let Some(v) = c.nbf {
    if !in_range(v) {
      rejects.push("accepted-unrepresentable-nbf");
    }
  }
  match (c.nbf, c.iat) {
    (None, Some(v)) if !in_range(v) => rejects.push("accepted-unrepresentable-iat"),
    // an unrepresentable iat next to an nbf that decides the issuance date: the statement's wording covers it
    // ("numeric dates outside … rejected") but the value plays no role; tolerated either way
    (Some(_), Some(v)) if !in_range(v) => eithers.push("unused-unrepresentable-iat"),
    (None, None) => eithers.push("no-issuance-claim"),
    _ => {}
  }
  if let Some(v) = c.exp {
    if !in_range(v) {
      rejects.push("accepted-unrepresentable-exp");
    }
  }
  match (c.vc_issuance, winner) {
    (Some(d), Some(w)) if in_range(w) && d != w => rejects.push(if c.nbf.is_some() && c.iat == Some(d) {
      "accepted-issuance-date-agreeing-with-iat-not-nbf"
    } else {
      "accepted-inconsistent-issuance-date"
    }),
    (Some(_), None) => eithers.push("vc-issuance-without-claim"),
    _ => {}
  }
  match (c.vc_expiration, c.exp) {
    (Some(d), Some(e)) if in_range(e) && d != e => rejects.push("accepted-inconsistent-expiration-date"),
    (Some(_), None) => eithers.push("vc-expiration-without-exp"),
    _ => {}
  }
  match (c.vc_id, c.jti) {
    (Dup::Different, true) => rejects.push("accepted-inconsistent-id"),
    (Dup::Equal | Dup::Different, false) => eithers.push("vc-id-without-jti"),
    _ => {}
  }
  match (c.vc_subject_id, c.sub) {
    (Dup::Different, true) => rejects.push("accepted-inconsistent-subject-id"),
    (Dup::Equal | Dup::Different, false) => eithers.push("vc-subject-id-without-sub"),
    _ => {}
  }
  let verdict = match (rejects.first(), eithers.first()) {
    (Some(r), _) => Verdict::Reject(r),
    (None, Some(e)) => Verdict::Either(e),
    (None, None) => Verdict::Accept,
  };
  if rejects.len() == 1 {
    obs.nontrivial();
  }
  if c.nbf.is_some() && c.iat.is_some() && c.nbf != c.iat {
    obs.label("nbf-and-iat-differ");
  }

  // ---- the call --------------------------------------------------------------------------------
  let universe = Universe::new(0);
  let doc_a: CoreDocument = fixture!(universe.a.build(), "document A");
  let header = header_json(Some(&M::AG.id()), Some("JWT"), None, &Map::new());
  let jwt = Jwt::new(unsigned_token(&header, &claims));
  let validator = JwtCredentialValidator::with_signature_verifier(permissive());
  let result = match catch(|| {
    validator.verify_signature::<CoreDocument, Object>(
      &jwt,
      std::slice::from_ref(&doc_a),
      &JwsVerificationOptions::new(),
    )
  }) {
    Ok(r) => r,
    Err(p) => {
      return obs.fail(
        "credential-verify-signature-panics",
        format!("verify_signature panicked on {claims}: {}", p.msg),
      )
    }
  };
  match (result, verdict) {
    (Ok(_), Verdict::Reject(sig)) => {
      vfail!(
        obs,
        sig,
        "claims set {claims} was accepted although {:?} call(s) for rejection",
        rejects
      );
      Ok(())
    }
    (Err(_), Verdict::Reject(_)) => {
      obs.label("inconsistent-rejected");
      Ok(())
    }
    (Ok(decoded), v) => {
      let decoded: DecodedJwtCredential<Object> = decoded;
      obs.label(match v {
        Verdict::Accept => "consistent-accepted",
        _ => "either-accepted",
      });
      if let Verdict::Either(why) = v {
        obs.label(format!("either:{why}:accepted"));
      }
      // whatever was accepted must have been reconstructed from the registered claims
      let got = fixture!(serde_json::to_value(&decoded.credential), "returned credential to JSON");
      if let Some(w) = winner.filter(|w| in_range(*w)) {
        vensure!(
          obs,
          got["issuanceDate"] == json!(rfc3339(w)),
          if c.nbf.is_some()
            && c.iat.is_some()
            && got["issuanceDate"] == json!(rfc3339(c.iat.filter(|i| in_range(*i)).unwrap_or(0)))
          {
            "issuance-date-taken-from-iat-despite-nbf"
          } else {
            "reconstructed-issuance-date-wrong"
          },
          "issuanceDate {} but nbf {:?} / iat {:?}",
          got["issuanceDate"],
          c.nbf,
          c.iat
        );
      }
      // an issuer signed inside `vc` in object form (same id as `iss`, extra members): if such a claims set is
      // accepted, the members that were signed must not be dropped silently
      if c.vc_issuer == VcIssuer::SameIdObjectForm && c.iss {
        vensure!(
          obs,
          got.get("issuer") == Some(&json!({"id": DID_A, "name": "Example University"})),
          "vc-issuer-object-accepted-and-resolved-to-iss",
          "claims {claims} were accepted but the returned issuer is {:?} instead of the signed vc.issuer object",
          got.get("issuer")
        );
      }
      // ids signed only inside `vc` (no jti / sub): accepted => not dropped silently
      if !c.jti {
        let signed = match c.vc_id {
          Dup::Absent => None,
          Dup::Equal => Some(CRED_ID),
          Dup::Different => Some(CRED_ID_OTHER),
        };
        if let Some(id) = signed {
          vensure!(
            obs,
            got.get("id") == Some(&json!(id)),
            "vc-id-without-jti-accepted-and-dropped",
            "claims {claims} were accepted but the returned credential has id {:?} instead of the signed vc.id {id}",
            got.get("id")
          );
        }
      }
      // an expiry signed only inside `vc` (no exp): accepted => not dropped silently
      if let (None, Some(d)) = (c.exp, c.vc_expiration) {
        if in_range(d) {
          vensure!(
            obs,
            got.get("expirationDate") == Some(&json!(rfc3339(d))),
            "vc-expiration-without-exp-accepted-and-dropped",
            "claims {claims} were accepted but the returned credential has expirationDate {:?} instead of the signed vc.expirationDate {}",
            got.get("expirationDate"),
            rfc3339(d)
          );
        }
      }
      if !c.sub {
        let signed = match c.vc_subject_id {
          Dup::Absent => None,
          Dup::Equal => Some(SUBJECT_ID),
          Dup::Different => Some(SUBJECT_ID_OTHER),
        };
        if let Some(id) = signed {
          vensure!(
            obs,
            got["credentialSubject"].get("id") == Some(&json!(id)),
            "vc-subject-id-without-sub-accepted-and-dropped",
            "claims {claims} were accepted but the returned subject id is {:?} instead of the signed {id}",
            got["credentialSubject"].get("id")
          );
        }
      }
      if let Verdict::Accept = v {
        let mut want = json!({
          "@context": [BASE_CONTEXT, EXAMPLES_CONTEXT],
          "type": ["VerifiableCredential", "UniversityDegreeCredential"],
          "credentialSubject": {"degree": {"type": "BachelorDegree", "name": "Bachelor of Science"}},
          "issuer": DID_A,
          "issuanceDate": rfc3339(winner.unwrap_or(0)),
        });
        if c.jti {
          want["id"] = json!(CRED_ID);
        }
        if c.sub {
          want["credentialSubject"]["id"] = json!(SUBJECT_ID);
        }
        if let Some(e) = c.exp {
          want["expirationDate"] = json!(rfc3339(e));
        }
        vensure!(
          obs,
          got == want,
          "reconstructed-credential-differs",
          "claims {claims}\n gave {got}\n want {want}"
        );
      }
      Ok(())
    }
    (Err(e), Verdict::Accept) => obs.fail(
      "consistent-credential-claims-rejected",
      format!("claims set {claims} is consistent and representable but was rejected: {e} ({e:?})"),
    ),
    (Err(_), Verdict::Either(why)) => {
      obs.label(format!("either:{why}:rejected"));
      Ok(())
    }
  }
}

fn check_presentation_claims(c: &PresentationClaims, obs: &mut Obs) -> CheckResult {
  let issuance = c.nbf.or(c.iat);
  let mut vp = json!({
    "@context": BASE_CONTEXT,
    "type": "VerifiablePresentation",
    "verifiableCredential": ["eyJhbGciOiJFZERTQSJ9.e30.c2ln"],
  });
  let mut claims = Map::new();
  if c.iss {
    claims.insert("iss".into(), json!(DID_A));
  }
  match c.vp_holder {
    Dup::Absent => {}
    Dup::Equal => vp["holder"] = json!(DID_A),
    Dup::Different => vp["holder"] = json!(DID_B),
  }
  if c.jti {
    claims.insert("jti".into(), json!(PRES_ID));
  }
  match c.vp_id {
    Dup::Absent => {}
    Dup::Equal => vp["id"] = json!(PRES_ID),
    Dup::Different => vp["id"] = json!(PRES_ID_OTHER),
  }
  for (name, v) in [("exp", c.exp), ("nbf", c.nbf), ("iat", c.iat)] {
    if let Some(v) = v {
      claims.insert(name.into(), json!(v));
    }
  }
  if c.aud {
    claims.insert("aud".into(), json!(AUD));
  }
  claims.insert("vp".into(), vp);
  let claims = Value::Object(claims);

  let mut rejects: Vec<&'static str> = Vec::new();
  let mut eithers: Vec<&'static str> = Vec::new();
  if !c.iss {
    eithers.push("iss-absent");
  }
  match (c.vp_holder, c.iss) {
    (Dup::Different, true) => rejects.push("accepted-inconsistent-holder"),
    (Dup::Equal | Dup::Different, false) => eithers.push("vp-holder-without-iss"),
    _ => {}
  }
  match (c.vp_id, c.jti) {
    (Dup::Different, true) => rejects.push("accepted-inconsistent-presentation-id"),
    (Dup::Equal | Dup::Different, false) => eithers.push("vp-id-without-jti"),
    _ => {}
  }
  if let Some(v) = c.exp {
    if !in_range(v) {
      rejects.push("accepted-unrepresentable-exp");
    }
  }
  if let Some(v) = c.nbf {
    if !in_range(v) {
      rejects.push("accepted-unrepresentable-nbf");
    }
  }
  match (c.nbf, c.iat) {
    (None, Some(v)) if !in_range(v) => rejects.push("accepted-unrepresentable-iat"),
    (Some(_), Some(v)) if !in_range(v) => eithers.push("unused-unrepresentable-iat"),
    _ => {}
  }
  let verdict = match (rejects.first(), eithers.first()) {
    (Some(r), _) => Verdict::Reject(r),
    (None, Some(e)) => Verdict::Either(e),
    (None, None) => Verdict::Accept,
  };
  if rejects.len() == 1 {
    obs.nontrivial();
  }
  if c.nbf.is_some() && c.iat.is_some() && c.nbf != c.iat {
    obs.label("nbf-and-iat-differ");
  }

  let universe = Universe::new(0);
  let doc_a: CoreDocument = fixture!(universe.a.build(), "document A");
  let header = header_json(Some(&M::AA.id()), Some("JWT"), None, &Map::new());
  let jwt = Jwt::new(unsigned_token(&header, &claims));
  let validation_options = JwtPresentationValidationOptions::new()
    .earliest_expiry_date(fixture!(Timestamp::from_unix(MIN_UNIX), "lower bound"))
    .latest_issuance_date(fixture!(Timestamp::from_unix(MAX_UNIX), "upper bound"));
  let validator = JwtPresentationValidator::with_signature_verifier(permissive());
  let result = match catch(|| validator.validate::<CoreDocument, Value, Object>(&jwt, &doc_a, &validation_options)) {
    Ok(r) => r,
    Err(p) => {
      return obs.fail(
        "presentation-validate-panics",
        format!("validate panicked on {claims}: {}", p.msg),
      )
    }
  };
  match (result, verdict) {
    (Ok(_), Verdict::Reject(sig)) => {
      vfail!(
        obs,
        sig,
        "claims set {claims} was accepted although {:?} call(s) for rejection",
        rejects
      );
      Ok(())
    }
    (Err(_), Verdict::Reject(_)) => {
      obs.label("inconsistent-rejected");
      Ok(())
    }
    (Ok(decoded), v) => {
      let decoded: DecodedJwtPresentation<Value, Object> = decoded;
      obs.label(match v {
        Verdict::Accept => "consistent-accepted",
        _ => "either-accepted",
      });
      if let Verdict::Either(why) = v {
        obs.label(format!("either:{why}:accepted"));
      }
      if let Some(w) = issuance.filter(|w| in_range(*w)) {
        vensure!(
          obs,
          decoded.issuance_date.map(|t| t.to_unix()) == Some(w),
          if c.nbf.is_some() && decoded.issuance_date.map(|t| t.to_unix()) == c.iat {
            "issuance-date-taken-from-iat-despite-nbf"
          } else {
            "returned-issuance-date-wrong"
          },
          "issuance_date {:?} but nbf {:?} / iat {:?}",
          decoded.issuance_date,
          c.nbf,
          c.iat
        );
      }
      // An id that is signed only inside `vp` (no jti) may be refused; if the token is accepted the id must not be
      // dropped silently ("rejected rather than silently resolved").
      if !c.jti {
        let signed = match c.vp_id {
          Dup::Absent => None,
          Dup::Equal => Some(PRES_ID),
          Dup::Different => Some(PRES_ID_OTHER),
        };
        if let Some(id) = signed {
          let got_id = serde_json::to_value(&decoded.presentation).ok().and_then(|p| p.get("id").cloned());
          vensure!(
            obs,
            got_id == Some(json!(id)),
            "vp-id-without-jti-accepted-and-dropped",
            "claims {claims} were accepted but the returned presentation has id {got_id:?} instead of the signed vp.id {id}"
          );
        }
      }
      if let Verdict::Accept = v {
        let mut want = json!({
          "@context": BASE_CONTEXT,
          "type": "VerifiablePresentation",
          "verifiableCredential": ["eyJhbGciOiJFZERTQSJ9.e30.c2ln"],
          "holder": DID_A,
        });
        if c.jti {
          want["id"] = json!(PRES_ID);
        }
        let got = fixture!(
          serde_json::to_value(&decoded.presentation),
          "returned presentation to JSON"
        );
        vensure!(
          obs,
          got == want,
          "reconstructed-presentation-differs",
          "claims {claims}\n gave {got}\n want {want}"
        );
        vensure!(
          obs,
          decoded.expiration_date.map(|t| t.to_unix()) == c.exp
            && decoded.issuance_date.map(|t| t.to_unix()) == issuance,
          "returned-dates-differ",
          "returned exp {:?} / issuance {:?}, claims {claims}",
          decoded.expiration_date,
          decoded.issuance_date
        );
        vensure!(
          obs,
          decoded.aud.as_ref().map(|u| u.as_str()) == c.aud.then_some(AUD),
          "returned-aud-differs",
          "returned aud {:?}, claims {claims}",
          decoded.aud
        );
      }
      Ok(())
    }
    (Err(e), Verdict::Accept) => obs.fail(
      "consistent-presentation-claims-rejected",
      format!("claims set {claims} is consistent and representable but was rejected: {e} ({e:?})"),
    ),
    (Err(_), Verdict::Either(why)) => {
      obs.label(format!("either:{why}:rejected"));
      Ok(())
    }
  }
}

pub fn check(case: &Case, obs: &mut Obs) -> CheckResult {
  match case {
    Case::Credential {
      family,
      credential,
      custom,
    } => check_credential(*family, credential, custom, obs),
    Case::Presentation {
      family,
      presentation,
      exp,
      nbf,
      aud,
      custom,
    } => check_presentation(*family, presentation, *exp, *nbf, aud, custom, obs),
    Case::CredentialClaims(c) => check_credential_claims(c, obs),
    Case::PresentationClaims(c) => check_presentation_claims(c, obs),
  }
}

// ---------------------------------------------------------------------------------------------
// Generators
// ---------------------------------------------------------------------------------------------

fn credential_case_strategy() -> impl Strategy<Value = Case> {
  (0u8..2, credential_strategy(ISSUER_IDS), custom_claims_strategy_with(CREDENTIAL_FREE_CLAIM_NAMES)).prop_map(|(family, credential, custom)| {
    Case::Credential {
      family,
      credential,
      custom,
    }
  })
}

fn presentation_case_strategy() -> impl Strategy<Value = Case> {
  (
    0u8..2,
    presentation_strategy(ISSUER_IDS),
    prop::option::of(unix_date_strategy()),
    prop::option::of(unix_date_strategy()),
    prop::option::of(prop_oneof![
      Just(AUD.to_string()),
      Just("did:example:verifier".to_string())
    ]),
    custom_claims_strategy_with(PRESENTATION_FREE_CLAIM_NAMES),
  )
    .prop_map(|(family, presentation, exp, nbf, aud, custom)| Case::Presentation {
      family,
      presentation,
      exp,
      nbf,
      aud,
      custom,
    })
}

const T1: i64 = 1_262_373_804; // 2010-01-01T19:23:24Z
const T2: i64 = 1_577_906_604; // 2020-01-01T19:23:24Z
const E1: i64 = 1_757_778_983;
const E2: i64 = 1_789_314_983;
const DUPS: [Dup; 3] = [Dup::Absent, Dup::Equal, Dup::Different];
const NUMERIC_DATES: [Option<i64>; 9] = [
  None,
  Some(T1),
  Some(MIN_UNIX),
  Some(MAX_UNIX),
  Some(0),
  Some(MIN_UNIX - 1),
  Some(MAX_UNIX + 1),
  Some(i64::MIN),
  Some(i64::MAX),
];

/// Every duplicated member absent / equal / different × registered side present / absent (dates at two instants).
fn credential_member_matrix() -> impl Iterator<Item = Case> {
  let issuers = [
    VcIssuer::Absent,
    VcIssuer::Equal,
    VcIssuer::Different,
    VcIssuer::SameIdObjectForm,
  ];
  let mut out = Vec::new();
  for iss in [true, false] {
    for vc_issuer in issuers {
      for nbf in [None, Some(T1)] {
        for iat in [None, Some(T1), Some(T2)] {
          for vc_issuance in [None, Some(T1), Some(T2), Some(E1), Some(T1 - 1), Some(T1 + 1)] {
            for exp in [None, Some(E1)] {
              for vc_expiration in [None, Some(E1), Some(E2), Some(E1 - 1), Some(E1 + 1), Some(T1)] {
                for jti in [true, false] {
                  for vc_id in DUPS {
                    for sub in [true, false] {
                      for vc_subject_id in DUPS {
                        out.push(Case::CredentialClaims(CredentialClaims {
                          iss,
                          vc_issuer,
                          nbf,
                          iat,
                          vc_issuance,
                          exp,
                          vc_expiration,
                          jti,
                          vc_id,
                          sub,
                          vc_subject_id,
                        }));
                      }
                    }
                  }
                }
              }
            }
          }
        }
      }
    }
  }
  out.into_iter()
}

/// exp × nbf × iat over the range ends and beyond × vc.issuanceDate agreeing with nbf / with iat / absent.
fn credential_date_matrix() -> impl Iterator<Item = Case> {
  let mut out = Vec::new();
  for exp in NUMERIC_DATES {
    for nbf in NUMERIC_DATES {
      for iat in NUMERIC_DATES {
        let mut vc_dates = vec![None];
        vc_dates.extend([nbf, iat].into_iter().flatten().filter(|v| in_range(*v)).map(Some));
        vc_dates.dedup();
        for vc_issuance in vc_dates {
          for vc_expiration in [None, exp.filter(|v| in_range(*v))] {
            out.push(Case::CredentialClaims(CredentialClaims {
              iss: true,
              vc_issuer: VcIssuer::Absent,
              nbf,
              iat,
              vc_issuance,
              exp,
              vc_expiration,
              jti: true,
              vc_id: Dup::Absent,
              sub: true,
              vc_subject_id: Dup::Absent,
            }));
          }
        }
      }
    }
  }
  out.dedup_by_key(|c| serde_json::to_string(c).unwrap_or_default());
  out.into_iter()
}

fn presentation_matrix() -> impl Iterator<Item = Case> {
  let mut out = Vec::new();
  for iss in [true, false] {
    for vp_holder in DUPS {
      for jti in [true, false] {
        for vp_id in DUPS {
          for exp in NUMERIC_DATES {
            for nbf in NUMERIC_DATES {
              for iat in NUMERIC_DATES {
                out.push(Case::PresentationClaims(PresentationClaims {
                  iss,
                  vp_holder,
                  jti,
                  vp_id,
                  exp,
                  nbf,
                  iat,
                  aud: exp.is_some(),
                }));
              }
            }
          }
        }
      }
    }
  }
  out.into_iter()
}

pub fn run(ctx: &mut Ctx) {
  ctx.rule = "generated credentials (issuer URL/object, id, subject with/without id and nested properties, expiration, status, \
    schema/evidence/terms/refresh in One and Many spellings, proof, nonTransferable, extra members, extra contexts/types, dates incl. both range ends, \
    custom claims) and presentations (+ exp, nbf, aud, custom claims), each checked as plain JSON after serialize_jwt and after a round trip \
    through verify_signature / validate; exhaustive claims-set matrices: every duplicated member {absent, equal, different} x registered claim \
    {present, absent}, and exp x nbf x iat over {absent, 2010, range min, range max, 0, min-1, max+1, i64::MIN, i64::MAX}. \
    Non-trivial = credential/presentation using >= 3 optional members, or a claims set with exactly one clause calling for rejection; distinct by case bytes."
    .into();
  ctx.assume("the round trip uses the public validator path, which only verifies issuers/holders that are the DID of the supplied document; generated values with another issuer/holder are checked on the claims JSON only");
  ctx.assume("a single subject spelled as a one-element array may be refused by serialize_jwt or round-trip up to the One/Many spelling; more than one subject is outside the statement");
  ctx.assume("not stated, either outcome accepted: a member present inside vc/vp while its registered claim is absent; iss absent; neither nbf nor iat; vc.issuer with the same id in another form; an unrepresentable iat next to an nbf that decides the issuance date");
  ctx.assume("claims sets whose duplicated members are equal or absent and whose dates are representable must be accepted (the library's own `claims_duplication` test documents that intent) and must reconstruct exactly the registered values; nbf decides the issuance date when both nbf and iat are present");
  ctx.assume("an empty verifiableCredential list may be spelled [] or omitted inside vp");

  ctx.exhaustive("credential-members", credential_member_matrix, check);
  ctx.exhaustive("credential-dates", credential_date_matrix, check);
  ctx.exhaustive("presentation-claims", presentation_matrix, check);
  ctx.proptest("credentials", ctx.pick(6_000, 300_000), credential_case_strategy, check);
  ctx.proptest(
    "presentations",
    ctx.pick(6_000, 300_000),
    presentation_case_strategy,
    check,
  );

  ctx.max_discard_pct(2);
  ctx.require_class("credentials:credential-roundtrip", 2_000);
  ctx.require_class("credentials:issuer:object", 500);
  ctx.require_class("credentials:subject:array-of-one", 100);
  for m in [
    "id",
    "expirationDate",
    "credentialStatus",
    "credentialSchema",
    "refreshService",
    "termsOfUse",
    "evidence",
    "proof",
    "nonTransferable",
  ] {
    ctx.require_class(&format!("credentials:uses:{m}"), 200);
  }
  ctx.require_class("presentations:presentation-roundtrip", 2_000);
  for m in [
    "id",
    "verifiableCredential",
    "refreshService",
    "termsOfUse",
    "proof",
    "exp",
    "nbf",
    "aud",
    "custom",
  ] {
    ctx.require_class(&format!("presentations:uses:{m}"), 200);
  }
  for sub in ["credential-members", "credential-dates", "presentation-claims"] {
    ctx.require_class(&format!("{sub}:consistent-accepted"), 20);
    ctx.require_class(&format!("{sub}:inconsistent-rejected"), 100);
    ctx.require_class(&format!("{sub}:nbf-and-iat-differ"), 100);
  }
}

pub fn replay(v: &serde_json::Value, obs: &mut Obs) -> Result<CheckResult, String> {
  replay_with::<Case>(v, obs, check)
}
